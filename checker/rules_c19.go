package main

import (
	"fmt"
	"go/token"
	"go/types"
	"strings"

	"golang.org/x/tools/go/ssa"
)

func init() {
	register(&ruleSet{
		id:    "C19",
		title: "match selects the first matching case, binds pattern names, yields its value",
		run:   runC19,
		decided: "a `no match` verdict for a case is only issued after every alternative was tried (no `return false, nil` inside the alternatives loop); cases are tried in slice order and the first matching case returns before any later case is looked at; the no-match exit yields null; bindings are stored into a freshly pushed frame before the body is evaluated; the pattern table: literal -> subject.Equals(literal), identifier -> bind the subject, array -> tag and length test then element-wise recursion, anything else -> error; an expression body yields the body's value, a block body null." +
			" A successfully evaluated literal is always compared, by Value.Equals; the binding map returned with a match is made for the alternative that matched; a `{ … }` body reaches the evaluator as the block itself." +
			" Every case is handed to the pattern matcher (no pre-filter on the evaluator's side)." +
			" After the subject is evaluated no successful return bypasses the loop over the cases; each match evaluation has a frame of its own." +
			" The bindings of matched elements are merged unconditionally. The body's lookup of a bound name starts at the innermost frame for every name.",
		notDecided: "Compare semantics (C05); that bindings of a failed alternative are discarded is implied by the fresh map per alternative, which is checked, not the values bound.",
	})
}

// rangeLoop describes `for i, x := range slice` in SSA form.
type rangeLoop struct {
	Header *ssa.BasicBlock // rangeindex.loop
	Body   *ssa.BasicBlock // first block of the body
	Done   *ssa.BasicBlock
	Slice  ssa.Value
}

// rangeLoopsOver finds index-range loops whose ranged slice satisfies pred.
func rangeLoops(fn *ssa.Function, pred func(ssa.Value) bool) []rangeLoop {
	var out []rangeLoop
	for _, b := range fn.Blocks {
		if len(b.Instrs) == 0 {
			continue
		}
		ifi, ok := b.Instrs[len(b.Instrs)-1].(*ssa.If)
		if !ok {
			continue
		}
		cmp, ok := ifi.Cond.(*ssa.BinOp)
		if !ok || cmp.Op != token.LSS {
			continue
		}
		lc, ok := cmp.Y.(*ssa.Call)
		if !ok {
			continue
		}
		bi, ok := lc.Call.Value.(*ssa.Builtin)
		if !ok || bi.Name() != "len" {
			continue
		}
		// loop header: reachable from its own body
		if !reachableFrom([]*ssa.BasicBlock{b.Succs[0]}, nil)[b] {
			continue
		}
		if ph, isPhi := cmp.X.(*ssa.Phi); isPhi {
			// a hand-written `for i := 0; i < len(X); i++` over a slice taken before the loop is the
			// same iteration as `range X` (the slice header is read once in both)
			if !isCountingPhi(ph) || !loopInvariant(lc.Call.Args[0], b) || !indexesOnly(ph, lc.Call.Args[0]) {
				continue
			}
			if _, isSlice := lc.Call.Args[0].Type().Underlying().(*types.Slice); !isSlice {
				continue
			}
		} else {
			inc, ok := cmp.X.(*ssa.BinOp)
			if !ok || inc.Op != token.ADD {
				continue
			}
			if _, ok := inc.X.(*ssa.Phi); !ok {
				continue
			}
		}
		if pred(lc.Call.Args[0]) {
			out = append(out, rangeLoop{b, b.Succs[0], b.Succs[1], lc.Call.Args[0]})
		}
	}
	return out
}

// isCountingPhi: i = phi(0, i + 1)
func isCountingPhi(phi *ssa.Phi) bool {
	if len(phi.Edges) != 2 {
		return false
	}
	zero, step := false, false
	for _, e := range phi.Edges {
		if k, ok := constInt(e); ok && k == 0 {
			zero = true
			continue
		}
		if bo, ok := e.(*ssa.BinOp); ok && bo.Op == token.ADD && bo.X == ssa.Value(phi) {
			if k, ok := constInt(bo.Y); ok && k == 1 {
				step = true
			}
		}
	}
	return zero && step
}

// loopInvariant: v is computed before the loop headed by header (a parameter, a constant, or an
// instruction of a block outside the loop).
func loopInvariant(v ssa.Value, header *ssa.BasicBlock) bool {
	in, ok := v.(ssa.Instruction)
	if !ok {
		return true
	}
	if in.Block() == header {
		return false
	}
	// in the loop: dominated by the header and able to come back to it (a block of an enclosing loop
	// that precedes the header reaches it again as well, but is not dominated by it)
	return !(header.Dominates(in.Block()) && reachableFrom([]*ssa.BasicBlock{in.Block()}, nil)[header])
}

func runC19(c *Ctx) {
	p := c.P
	renderProgram = p
	ek := EKOf(p)
	// R1: discover the matcher: a lang function with a []Expr parameter and (bool, _, error) results
	var matcher *ssa.Function
	for _, f := range p.Funcs {
		if !p.InLang(f) || f.Signature.Results().Len() < 2 {
			continue
		}
		if b, ok := f.Signature.Results().At(0).Type().(*types.Basic); !ok || b.Kind() != types.Bool {
			continue
		}
		for _, prm := range f.Params {
			if sl, ok := prm.Type().Underlying().(*types.Slice); ok && isLangNamed(sl.Elem(), "Expr") {
				matcher = f
			}
		}
	}
	c.note("R1 verdict-after-all-alternatives: in the function with a []Expr pattern parameter and a bool first result, no Return inside the loop over that parameter has first result `false` with a nil error.")
	if matcher == nil {
		c.undecided("R1", "matcher", "", "no function of package lang takes a []Expr pattern list and returns (bool, …, error)")
		return
	}
	var patterns *ssa.Parameter
	for _, prm := range matcher.Params {
		if sl, ok := prm.Type().Underlying().(*types.Slice); ok && isLangNamed(sl.Elem(), "Expr") {
			patterns = prm
		}
	}
	loops := rangeLoops(matcher, func(v ssa.Value) bool { return v == ssa.Value(patterns) })
	if len(loops) != 1 {
		c.undecided("R1", "alternatives-loop", p.Pos(matcher.Pos()), fmt.Sprintf("expected one range loop over the pattern list in %s, found %d", shortName(matcher), len(loops)))
		return
	}
	loop := loops[0]
	F := FactsOf(matcher)
	errIdx := errResultIndex(matcher.Signature)
	inLoop := blocksDominatedBy(loop.Body)
	nIn, nBad := 0, 0
	for _, r := range returnsOf(matcher) {
		res := effectiveResults(r)
		if !inLoop[r.Block()] {
			continue
		}
		nIn++
		first, isConst := constBool(res[0])
		k := ek.KindsAt(res[errIdx], F.At(r.Block()))
		key := "return-in-loop " + describeExit(p, r)
		if isConst && !first && k.Has(KNil) {
			nBad++
			c.violated("R1", key, p.InstrPos(r), "`return false, …, nil` inside the loop over a case's alternatives: a failing alternative makes the remaining alternatives of the case unreachable")
			continue
		}
		if !isConst && k.Has(KNil) {
			c.undecided("R1", key, p.InstrPos(r), "return inside the alternatives loop with a non-constant verdict")
			continue
		}
		c.ok("R1", key, p.InstrPos(r), "returns true, or an error")
	}
	// after the loop: the verdict is false
	for _, r := range returnsOf(matcher) {
		if inLoop[r.Block()] {
			continue
		}
		first, isConst := constBool(effectiveResults(r)[0])
		c.check(isConst && !first, "R1", "return-after-loop "+describeExit(p, r), p.InstrPos(r), "after all alternatives failed the verdict is false", "the verdict after the alternatives loop is not the constant false")
	}
	if nIn < 6 {
		c.undecided("R1", "instance-floor", "", fmt.Sprintf("%d returns inside the alternatives loop, 7 confirmed by hand", nIn))
	}
	c19R4(c, matcher, patterns, loop)
	c19EveryCaseTried(c)
	c19AlternativesKept(c)
	c19EveryCaseKept(c)
	c19R5(c)
	c.shared("R9", "C08/R2", "an identifier pattern binds the name for the case's body: the body's lookup of any name starts at the frame the bindings were stored into (the innermost one) and walks outwards, whatever the name looks like", keyHas("lookup-walk"), func(s *Ctx) { c08R2(s, discoverFrameModel(s.P)) })
	c.shared("R8", "C10/R6", "the bindings of the case that matched are the ones its body sees: a name is resolved through the frames at every evaluation, never from a remembered earlier resolution", keyHas("evaluator-state", "syntax-tree-store", "interpreter-state"), func(s *Ctx) { interpreterState(s, "R6") })
	c.shared("R7", "C08/R1", "the bindings of a case are visible in that case's body and end with it: every match evaluation pushes a frame of its own and pops it again (a push always makes a frame, a pop always removes one)", keyHas("pop-primitive", "push-", "balance "), func(s *Ctx) { c08R1(s, discoverFrameModel(s.P)) })
	c.shared("R6", "C15/R6", "a literal pattern matches when subject == literal: the matcher's equality verdict excludes unset operands like the == operator does", func(o Obligation) bool { return !strings.Contains(o.Key, "getArrayPrototype") }, func(s *Ctx) { equalityAgreement(s, "R6") })

	// R2/R3 in the match arm of evalExpr
	ee := p.LangFunc("(*Evaluator).evalExpr")
	if ee == nil {
		c.undecided("R2", "evalExpr", "", "anchor not found")
		return
	}
	var arm *typeCase
	for _, tc := range typeCasesOn(ee, ee.Params[1]) {
		if tc.TypeName == "ExprMatch" {
			t := tc
			arm = &t
		}
	}
	if arm == nil {
		c.undecided("R2", "match-arm", p.Pos(ee.Pos()), "no *ExprMatch case in evalExpr's type switch")
		return
	}
	region := caseRegion(*arm)
	c.note("R2 first-case-wins: the match arm ranges ExprMatch.Cases in slice order; from the edge on which the matcher answered true no path reaches the loop header again; the exit after the loop returns a fresh null cell.")
	caseLoops := rangeLoops(ee, func(v ssa.Value) bool {
		sf, ok := loadedField(v)
		return ok && sf.Is("ExprMatch", "Cases")
	})
	if len(caseLoops) != 1 || !region[caseLoops[0].Header] {
		c.undecided("R2", "case-loop", p.Pos(ee.Pos()), fmt.Sprintf("expected one range loop over ExprMatch.Cases in the match arm, found %d", len(caseLoops)))
		return
	}
	cl := caseLoops[0]
	// the matcher call inside the loop and the If on its verdict
	var mcall *ssa.Call
	for _, call := range callsIn(ee) {
		if call.Common().StaticCallee() == matcher && blocksDominatedBy(cl.Body)[call.Block()] {
			mcall, _ = call.(*ssa.Call)
		}
	}
	if mcall == nil {
		c.undecided("R2", "matcher-call", p.Pos(ee.Pos()), "the case loop does not call the matcher")
		return
	}
	// patterns argument = the ranged case's Exprs field
	if !derivesFromLocal2(mcall.Call.Args[2], func(v ssa.Value) bool { return v == cl.Slice }) {
		c.violated("R2", "matcher-args", p.InstrPos(mcall), "the matcher is not called with the patterns of the case being ranged")
	} else {
		c.ok("R2", "matcher-args", p.InstrPos(mcall), "matcher called with (subject, patterns of the ranged case)")
	}
	var verdictIf *ssa.If
	for _, r := range referrersOf(mcall) {
		if ex, ok := r.(*ssa.Extract); ok && ex.Index == 0 {
			for _, rr := range referrersOf(ex) {
				if x, ok := rr.(*ssa.If); ok {
					verdictIf = x
				}
			}
		}
	}
	if verdictIf == nil {
		c.undecided("R2", "verdict-test", p.InstrPos(mcall), "the matcher's verdict is not tested directly by a branch")
		return
	}
	matched := verdictIf.Block().Succs[0]
	again := reachableFrom([]*ssa.BasicBlock{matched}, nil)[cl.Header]
	c.check(!again, "R2", "first-case-wins", p.InstrPos(verdictIf), "after a case matched every path returns; no later case is examined", "after a case matched some path reaches the case loop again: later cases' patterns or bodies can be evaluated")
	// not-matched edge goes back to the loop (next case) without evaluating the body
	notMatched := verdictIf.Block().Succs[1]
	evalOnMiss := false
	for b := range reachableFrom([]*ssa.BasicBlock{notMatched}, map[*ssa.BasicBlock]bool{cl.Header: true}) {
		if b == cl.Header {
			continue
		}
		for _, in := range b.Instrs {
			if call, ok := in.(*ssa.Call); ok {
				if staticCalleeIs(call, "(*lang.Evaluator).evalExpr") || staticCalleeIs(call, "(*lang.Evaluator).evalStatement") {
					evalOnMiss = true
				}
			}
		}
	}
	c.check(!evalOnMiss, "R2", "miss-evaluates-nothing", p.InstrPos(verdictIf), "a case that does not match evaluates nothing further", "a case that does not match still evaluates an expression or statement")
	// the exit after the loop
	okNull := false
	for b := range reachableFrom([]*ssa.BasicBlock{cl.Done}, nil) {
		if r, ok := b.Instrs[len(b.Instrs)-1].(*ssa.Return); ok && region[b] {
			okNull = isFreshNullCell(effectiveResults(r)[0])
			if !okNull {
				c.violated("R2", "no-match-yields-null", p.InstrPos(r), "the no-match exit does not return NewCell(NewValue(nil))")
			}
		}
	}
	if okNull {
		c.ok("R2", "no-match-yields-null", p.Pos(ee.Pos()), "no case matched: the result is a fresh null cell")
	}

	// R3 binding-visibility
	c.note("R3 binding-visibility: on the matched edge a frame is pushed, the bindings returned by the matcher are stored into that frame's locals, and only then the body is evaluated; expression body -> its value, block body -> null (frame balance is C08/R1).")
	m := discoverFrameModel(p)
	var push *ssa.Call
	var bindStore *ssa.MapUpdate
	var bodyCalls []*ssa.Call
	onMatch := reachableFrom([]*ssa.BasicBlock{matched}, nil)
	for b := range onMatch {
		for _, in := range b.Instrs {
			switch x := in.(type) {
			case *ssa.Call:
				if x.Call.StaticCallee() == m.push {
					push = x
				}
				if staticCalleeIs(x, "(*lang.Evaluator).evalExpr") || staticCalleeIs(x, "(*lang.Evaluator).evalStatement") {
					bodyCalls = append(bodyCalls, x)
				}
			case *ssa.MapUpdate:
				if sf, ok := loadedField(x.Map); ok && isFrameLocals(sf) {
					bindStore = x
				}
			}
		}
	}
	if push == nil || bindStore == nil || len(bodyCalls) == 0 {
		c.violated("R3", "binding-frame", p.InstrPos(verdictIf), fmt.Sprintf("on the matched edge: push=%v binding-store=%v body-evaluations=%d — bindings are not installed in a fresh frame before the body runs", push != nil, bindStore != nil, len(bodyCalls)))
		return
	}
	good := dominatesInstr(push, bindStore)
	for _, bc := range bodyCalls {
		if !dominatesInstr(push, bc) {
			good = false
		}
		// the binding loop finishes before the body: the body call is not inside the binding loop
		if !canReach(bindStore, bc) {
			good = false
		}
	}
	// bindings come from the matcher's second result
	fromMatcher := derivesFromLocal2(bindStore.Value, func(v ssa.Value) bool {
		ex, ok := v.(*ssa.Extract)
		return ok && ex.Tuple == ssa.Value(mcall) && ex.Index == 1
	})
	c.check(good && fromMatcher, "R3", "bindings-before-body", p.InstrPos(bindStore), "push -> store matcher bindings into the new frame -> evaluate body", "the matcher's bindings are not stored into a freshly pushed frame before every body evaluation")
	// body kinds: StatementExpr -> value; otherwise null
	bodyOK, why := matchBodyResults(p, ee, arm, matched, region)
	c.check(bodyOK, "R3", "body-value", p.InstrPos(verdictIf), "expression body yields its value, block body yields null", why)
}

// isFreshNullCell: NewCell(NewValue(nil)), possibly through a trivial helper (the renderer
// inlines single-block helpers).
func isFreshNullCell(v ssa.Value) bool {
	return renderGlobal(v) == "&lang.Cell{Value: lang.NewValue(nil)}"
}

var renderProgram *Program

func renderGlobal(v ssa.Value) string {
	if renderProgram == nil {
		return ""
	}
	return renderProgram.Render(v)
}

// matchBodyResults: every successful return on the matched edge returns either the value of the
// evalExpr(body.Expr) call (under the *StatementExpr case) or a fresh null cell.
func matchBodyResults(p *Program, ee *ssa.Function, arm *typeCase, matched *ssa.BasicBlock, region map[*ssa.BasicBlock]bool) (bool, string) {
	ek := EKOf(p)
	F := FactsOf(ee)
	sawValue, sawNull := false, false
	for b := range reachableFrom([]*ssa.BasicBlock{matched}, nil) {
		r, ok := b.Instrs[len(b.Instrs)-1].(*ssa.Return)
		if !ok || !region[b] {
			continue
		}
		res := effectiveResults(r)
		if !ek.KindsAt(res[1], F.At(b)).Has(KNil) {
			continue // error return
		}
		var check func(v ssa.Value, depth int) (bool, string)
		check = func(v ssa.Value, depth int) (bool, string) {
			if depth > 4 {
				return false, "result too indirect"
			}
			if isFreshNullCell(v) {
				sawNull = true
				return true, ""
			}
			if call, idx := callOf(v); call != nil && idx == 0 && staticCalleeIs(call, "(*lang.Evaluator).evalExpr") {
				if argDesc(call) == "StatementExpr.Expr" {
					sawValue = true
					return true, ""
				}
				return false, "the matched case returns the value of an evaluation that is not the body expression"
			}
			if phi, ok := v.(*ssa.Phi); ok {
				for _, e := range phi.Edges {
					if ok, why := check(e, depth+1); !ok {
						return false, why
					}
				}
				return true, ""
			}
			return false, "the matched case returns " + v.String() + " at " + p.InstrPos(r)
		}
		if ok, why := check(res[0], 0); !ok {
			return false, why
		}
	}
	if !sawValue {
		return false, "no return of the body expression's value on the matched edge"
	}
	if !sawNull {
		return false, "no null result for block bodies on the matched edge"
	}
	return true, ""
}

// R4 pattern-table
func c19R4(c *Ctx, matcher *ssa.Function, patterns *ssa.Parameter, loop rangeLoop) {
	p := c.P
	c.note("R4 pattern-table: per pattern node type in the matcher — *ExprLiteral: subject.Equals(literal) (the == relation: unset equals nothing, otherwise Compare == 0), reached whenever the literal evaluated without error, match iff true; *ExprIdentifier: a fresh map binding the identifier's text to the subject, verdict true; *ExprArray: subject tag == array and equal lengths else no match, element-wise recursion on (element i, pattern i), verdict true only after the element loop; any other node type: error.")
	// the matcher answers (matched, bindings, error): the bindings of an attempt are a value of that
	// attempt. A matcher that fills a table handed in by its caller keeps the names bound by patterns
	// that failed half-way (they then shadow outer variables and alias parts of the subject)
	if res := matcher.Signature.Results(); res.Len() != 3 || !isBoolType(res.At(0).Type()) || !isErrorType(res.At(2).Type()) {
		c.violated("R4", "bindings-are-a-result", p.Pos(matcher.Pos()), "the matcher "+shortName(matcher)+" does not return (matched, bindings, error): the bindings of an alternative are not a result of trying that alternative (an accumulator filled in place keeps the bindings of alternatives that failed)")
		return
	}
	if _, isMap := matcher.Signature.Results().At(1).Type().Underlying().(*types.Map); !isMap {
		c.violated("R4", "bindings-are-a-result", p.Pos(matcher.Pos()), "the matcher's second result is not the table of bindings")
		return
	}
	c.ok("R4", "bindings-are-a-result", p.Pos(matcher.Pos()), "the matcher returns (matched, bindings, error)")
	// the pattern element value: load of &patterns[i]
	var elem ssa.Value
	allInstrs(matcher, func(in ssa.Instruction) {
		if u, ok := in.(*ssa.UnOp); ok && u.Op == token.MUL {
			if ia, ok := u.X.(*ssa.IndexAddr); ok && ia.X == ssa.Value(patterns) {
				elem = u
			}
		}
	})
	if elem == nil {
		c.undecided("R4", "pattern-element", p.Pos(matcher.Pos()), "the ranged pattern element was not found")
		return
	}
	// the bindings handed out with a `true` verdict are built for the alternative that matched: every
	// map that can be returned is made inside the loop over the alternatives
	{
		n := 0
		for _, r := range returnsOf(matcher) {
			res := effectiveResults(r)
			if v, isC := constBool(res[0]); !isC || !v {
				continue
			}
			var maps []*ssa.MakeMap
			var collect func(v ssa.Value, d int) bool
			collect = func(v ssa.Value, d int) bool {
				switch x := v.(type) {
				case *ssa.MakeMap:
					maps = append(maps, x)
					return true
				case *ssa.Const:
					return x.IsNil()
				case *ssa.Phi:
					if d > 4 {
						return false
					}
					for _, e := range x.Edges {
						if !collect(e, d+1) {
							return false
						}
					}
					return true
				}
				return false
			}
			if !collect(res[1], 0) {
				continue // judged by the per-arm rules below
			}
			for _, mm := range maps {
				n++
				c.check(loop.Body.Dominates(mm.Block()), "R4", fmt.Sprintf("bindings-per-alternative #%d", n), p.InstrPos(mm), "the binding map is made for the alternative being tried", "the binding map returned with a match is made outside the loop over the alternatives: names bound by an alternative that then failed stay in it and shadow outer variables in the body")
			}
		}
	}
	cases := typeCasesOn(matcher, elem)
	have := map[string]typeCase{}
	for _, tc := range cases {
		have[tc.TypeName] = tc
	}
	subject := matcher.Params[1]
	ek := EKOf(p)
	F := FactsOf(matcher)
	for _, want := range []string{"ExprLiteral", "ExprArray", "ExprIdentifier"} {
		tc, ok := have[want]
		if !ok {
			c.violated("R4", "pattern-arm "+want, p.Pos(matcher.Pos()), "no arm for pattern node *"+want)
			continue
		}
		reg := caseRegion(tc)
		switch want {
		case "ExprLiteral":
			var cmp *ssa.Call
			for b := range reg {
				for _, in := range b.Instrs {
					if call, ok := in.(*ssa.Call); ok && staticCalleeIs(call, "(*lang.Value).Equals") {
						cmp = call
					}
				}
			}
			if cmp == nil {
				c.violated("R4", "literal-compare", p.Pos(matcher.Pos()), "the literal arm does not decide by Value.Equals (the == relation)")
				continue
			}
			recvOK := derivesFrom(cmp.Call.Args[0], func(v ssa.Value) bool { return v == ssa.Value(subject) }, 0)
			c.check(recvOK, "R4", "literal-compare-operands", p.InstrPos(cmp), "subject.Equals(literal)", "the literal arm does not compare the subject (receiver) with the literal (argument)")
			// `true` verdict only under cmp == 0
			var cmpRes ssa.Value
			for _, r := range referrersOf(cmp) {
				if ex, ok := r.(*ssa.Extract); ok && ex.Index == 0 {
					cmpRes = ex
				}
			}
			good := cmpRes != nil
			n := 0
			for b := range reg {
				r, ok := b.Instrs[len(b.Instrs)-1].(*ssa.Return)
				if !ok {
					continue
				}
				if v, isC := constBool(effectiveResults(r)[0]); isC && v {
					n++
					eq := false
					for f := range F.At(b) {
						if f.cond == cmpRes && f.truth {
							eq = true
						}
					}
					if !eq {
						good = false
					}
				}
			}
			// the comparison is reached whenever the literal evaluated without error: no other
			// condition (e.g. on the kinds of the two values) stands in front of it
			{
				var lit *ssa.Call
				for b := range reg {
					for _, in := range b.Instrs {
						if call, ok := in.(*ssa.Call); ok && staticCalleeIs(call, "(*lang.Evaluator).evalExpr") {
							lit = call
						}
					}
				}
				extra := []string{}
				if lit != nil {
					before := guardsAt(p, matcher, lit.Block())
					for g := range guardsAt(p, matcher, cmp.Block()) {
						if !before[g] && !strings.Contains(g, "evalExpr(e, exprs[i@exprs])#1") {
							extra = append(extra, g)
						}
					}
				}
				c.check(lit != nil && len(extra) == 0, "R4", "literal-compare-unconditional", p.InstrPos(cmp), "every successfully evaluated literal is compared with the subject", "the literal's comparison is additionally guarded by {"+strings.Join(extra, " ; ")+"}: a literal pattern no longer matches exactly when subject == literal")
			}
			c.check(good && n == 1, "R4", "literal-match-iff-equal", p.InstrPos(cmp), "verdict true exactly under subject.Equals(literal)", "the literal arm's true verdict is not guarded by subject.Equals(literal)")
		case "ExprIdentifier":
			n := 0
			good := true
			for b := range reg {
				r, ok := b.Instrs[len(b.Instrs)-1].(*ssa.Return)
				if !ok {
					continue
				}
				n++
				res := effectiveResults(r)
				v, isC := constBool(res[0])
				if !isC || !v || !ek.KindsAt(res[2], F.At(b)).Has(KNil) {
					good = false
				}
				mm, ok := res[1].(*ssa.MakeMap)
				if !ok {
					good = false
					continue
				}
				bound := false
				for _, rr := range referrersOf(mm) {
					if mu, ok := rr.(*ssa.MapUpdate); ok && mu.Value == ssa.Value(subject) {
						if call, _ := callOf(mu.Key); call != nil && staticCalleeIs(call, "(*lang.Lexer).GetString") {
							bound = true
						}
					}
				}
				if !bound {
					good = false
				}
			}
			c.check(good && n == 1, "R4", "identifier-binds", p.Pos(matcher.Pos()), "identifier pattern: fresh map {name: subject}, verdict true", "the identifier arm does not return (true, fresh map binding the identifier's text to the subject, nil)")
		case "ExprArray":
			// the arm may sit in a helper of its own (`matchArrayPattern(value, pattern)`): the matcher then
			// passes the helper's verdict and bindings on, and the arm's rules are decided in the helper
			fnA, regA, FA := matcher, reg, F
			var subjA ssa.Value = subject
			if h, hc := arrayArmHelper(p, matcher, reg, subject); h != nil {
				okPass := true
				var v0 ssa.Value
				for _, r := range referrersOf(hc) {
					if ex, ok := r.(*ssa.Extract); ok && ex.Index == 0 {
						v0 = ex
					}
				}
				for b := range reg {
					r, ok := b.Instrs[len(b.Instrs)-1].(*ssa.Return)
					if !ok {
						continue
					}
					res := effectiveResults(r)
					if v, isC := constBool(res[0]); isC && v {
						known, val := F.At(b).Truth(v0)
						ex, isEx := res[1].(*ssa.Extract)
						if v0 == nil || !known || !val || !isEx || ex.Tuple != ssa.Value(hc) || ex.Index != 1 {
							okPass = false
						}
					}
				}
				c.check(okPass, "R4", "array-helper-verdict", p.InstrPos(hc), "the matcher answers true with the helper's bindings exactly when the helper matched", "the array arm's helper "+shortName(h)+" is called but its verdict / bindings are not what the matcher returns")
				fnA, FA = h, FactsOf(h)
				regA = map[*ssa.BasicBlock]bool{}
				for _, b := range h.Blocks {
					regA[b] = true
				}
				for i, a := range hc.Call.Args {
					if a == ssa.Value(subject) && i < len(h.Params) {
						subjA = h.Params[i]
					}
				}
			}
			// recursion on (element, [pattern i])
			var rec *ssa.Call
			for b := range regA {
				for _, in := range b.Instrs {
					if call, ok := in.(*ssa.Call); ok && call.Call.StaticCallee() == matcher {
						rec = call
					}
				}
			}
			if rec == nil {
				c.violated("R4", "array-recursion", p.Pos(fnA.Pos()), "the array arm does not recurse on the elements")
				continue
			}
			// guard facts at the recursion: tag == ValueArray and len(subject array) == len(items)
			tagOK, lenOK := false, false
			for _, rl := range FA.At(rec.Block()).Rels() {
				if rl.op != relEQ {
					continue
				}
				if sf, ok := loadedField(rl.x); ok && sf.Is("Value", "Tag") {
					if k, ok := constInt(rl.y); ok && constNames(p.Lang.Types, "ValueTag")[k] == "ValueArray" {
						tagOK = derivesFrom(rl.x, func(v ssa.Value) bool { return v == subjA }, 0)
					}
				}
				if isLenOf(rl.x, "Value", "Array") && isLenOf(rl.y, "ExprArray", "Items") || isLenOf(rl.y, "Value", "Array") && isLenOf(rl.x, "ExprArray", "Items") {
					lenOK = true
				}
			}
			c.check(tagOK, "R4", "array-tag-guard", p.InstrPos(rec), "element recursion only when the subject is an array", "the array arm recurses without having established that the subject's tag is array")
			c.check(lenOK, "R4", "array-length-guard", p.InstrPos(rec), "element recursion only when lengths are equal", "the array arm recurses without having established len(subject) == len(pattern items): shorter/longer arrays could match, or indexing could go out of range")
			// both arguments indexed by the same loop variable
			var idxA, idxB ssa.Value
			if u, ok := rec.Call.Args[1].(*ssa.UnOp); ok {
				if ia, ok := u.X.(*ssa.IndexAddr); ok {
					idxA = ia.Index
				}
			}
			derivesFromLocal2(rec.Call.Args[2], func(v ssa.Value) bool {
				if u, ok := v.(*ssa.UnOp); ok {
					if ia, ok := u.X.(*ssa.IndexAddr); ok {
						if sf, ok := loadedField(ia.X); ok && sf.Is("ExprArray", "Items") {
							idxB = ia.Index
							return true
						}
					}
				}
				return false
			})
			c.check(idxA != nil && idxA == idxB, "R4", "array-positionwise", p.InstrPos(rec), "element i is matched against sub-pattern i", "the element and the sub-pattern passed to the recursive match are not taken at the same position")
			// the bindings of the sub-matches are merged unconditionally: in the loop that copies them the
			// store happens in every iteration and the loop is left only at its end (a repeated name is
			// not a constraint: an identifier matches anything)
			nMerge := 0
			for blk := range regA {
				for _, in := range blk.Instrs {
					mu, ok := in.(*ssa.MapUpdate)
					if !ok {
						continue
					}
					if _, fresh := mu.Map.(*ssa.MakeMap); !fresh {
						continue
					}
					// the innermost loop around the store
					var hdr *ssa.BasicBlock
					for _, h := range fnA.Blocks {
						if !h.Dominates(mu.Block()) || !reachableFrom([]*ssa.BasicBlock{mu.Block()}, nil)[h] {
							continue
						}
						back := false
						for _, pr := range h.Preds {
							if h.Dominates(pr) {
								back = true
							}
						}
						if back && (hdr == nil || hdr.Dominates(h)) {
							hdr = h
						}
					}
					if hdr == nil {
						continue
					}
					nMerge++
					inLoop := map[*ssa.BasicBlock]bool{}
					for _, x := range fnA.Blocks {
						if hdr.Dominates(x) && reachableFrom([]*ssa.BasicBlock{x}, nil)[hdr] {
							inLoop[x] = true
						}
					}
					stop := map[*ssa.BasicBlock]bool{mu.Block(): true}
					for _, x := range fnA.Blocks {
						if !inLoop[x] {
							stop[x] = true
						}
					}
					okMerge := !reachableFrom(hdr.Succs, stop)[hdr] || hdr == mu.Block()
					for x := range inLoop {
						if x == hdr {
							continue
						}
						for _, sx := range x.Succs {
							if !inLoop[sx] {
								okMerge = false
							}
						}
					}
					c.check(okMerge, "R4", "array-bindings-merged-unconditionally", p.InstrPos(mu), "every binding of a matched element is kept", "the loop that merges the bindings of the elements skips a binding or leaves early on some condition: the alternative then fails (or loses a name) although every element matched its sub-pattern — an identifier matches anything, a repeated one included")
				}
			}
			if nMerge == 0 {
				c.undecided("R4", "array-bindings-merged-unconditionally", p.Pos(fnA.Pos()), "no merge of sub-match bindings into the alternative's map found")
			}
		}
	}
	// default arm: error
	defOK := false
	for _, r := range returnsOf(matcher) {
		b := r.Block()
		inAny := false
		for _, tc := range cases {
			if caseRegion(tc)[b] {
				inAny = true
			}
		}
		if inAny || !blocksDominatedBy(loop.Body)[b] {
			continue
		}
		k := ek.KindsAt(effectiveResults(r)[2], F.At(b))
		defOK = !k.Has(KNil)
	}
	c.check(defOK, "R4", "other-pattern-is-error", p.Pos(matcher.Pos()), "any other pattern node is a runtime error", "a pattern of an unsupported node type does not end in an error")
}

// isLenOf: v is len(load of Struct.Field)
func isLenOf(v ssa.Value, structName, field string) bool {
	call, ok := v.(*ssa.Call)
	if !ok {
		return false
	}
	bi, ok := call.Call.Value.(*ssa.Builtin)
	if !ok || bi.Name() != "len" {
		return false
	}
	sf, ok := loadedField(call.Call.Args[0])
	return ok && sf.Is(structName, field)
}

// R5 block-bodies-stay-blocks
func c19R5(c *Ctx) {
	p := c.P
	c.note("R5 block-bodies-stay-blocks: the evaluator tells an expression body from a block body by the node type (*StatementExpr vs anything else), and the match parselet wraps only a body that does not start with `{` in a StatementExpr; therefore a `{ … }` body must reach the evaluator as the *StatementBlock that Parser.block built: in Parser.statement, under current token == `{`, the only successful result is the block itself.")
	st := p.LangFunc("(*Parser).statement")
	if st == nil {
		c.undecided("R5", "statement", "", "anchor not found")
		return
	}
	ms := p.maySetOf(st, "p.current.Tag", tokenTagNames(p))
	got := map[string]bool{}
	for _, rc := range p.successResults(st) {
		tags := ms.At(rc.Ret.Block())
		if len(tags) == 1 && tags[0] == "LCurly" {
			got[rc.Value] = true
		}
	}
	c.check(len(got) == 1 && got["&(*lang.Parser).block(p)#0"], "R5", "brace-body-is-block", p.Pos(st.Pos()), "`{ … }` parses to the StatementBlock itself", "a `{ … }` statement can parse to {"+keysOf(got)+"} instead of the block: a match case with a one-statement block body would be treated as an expression body and yield that expression's value instead of null")
	// the match parselet: StatementExpr wrapper only when the body does not start with `{`
	mp := p.LangFunc("match")
	if mp == nil {
		c.undecided("R5", "match-parselet", "", "anchor lang.match not found")
		return
	}
	n := 0
	// (the parselet and the helpers split off it)
	for _, f := range p.privateCluster(mp) {
		f := f
		allInstrs(f, func(in ssa.Instruction) {
			a, ok := in.(*ssa.Alloc)
			if !ok || !isLangNamed(a.Type(), "StatementExpr") {
				return
			}
			n++
			g := guardsAt(p, f, a.Block())
			c.check(g["p.current.Tag != LCurly"], "R5", fmt.Sprintf("expression-body-wrapper #%d", n), p.InstrPos(a), "a body is wrapped as an expression only when it does not start with `{`", "a StatementExpr body is built although the body may start with `{`")
		})
	}
	if n == 0 {
		c.undecided("R5", "expression-body-wrapper", p.Pos(mp.Pos()), "the match parselet builds no StatementExpr")
	}
}

func tokenTagNames(p *Program) []string {
	var out []string
	for _, n := range constNames(p.Lang.Types, "TokenTag") {
		out = append(out, n)
	}
	return out
}

// every case is handed to the matcher
func c19EveryCaseTried(c *Ctx) {
	p := c.P
	c.note("R2 every-case-is-tried: in the match arm of evalExpr the loop over the cases cannot go on to the next case without having called the pattern matcher for the current one (no pre-filter decides on the evaluator's side that a case cannot match).")
	ee := p.LangFunc("(*Evaluator).evalExpr")
	if ee == nil {
		c.undecided("R2", "evalExpr", "", "anchor not found")
		return
	}
	n := 0
	for _, fn := range p.privateCluster(ee) {
		for _, call := range callsIn(fn) {
			if !staticCalleeIs(call, "(*lang.Evaluator).evalCaseMatch") || fn == p.LangFunc("(*Evaluator).evalCaseMatch") {
				continue
			}
			for _, l := range rangeLoops(fn, func(v ssa.Value) bool {
				sf, ok := loadedField(v)
				return ok && sf.Is("ExprMatch", "Cases")
			}) {
				if !l.Body.Dominates(call.Block()) {
					continue
				}
				n++
				c.check(!canSkip(l.Body, call.Block(), l.Header), "R2", fmt.Sprintf("every-case-is-tried #%d", n), p.InstrPos(call), "the matcher is consulted for every case until one matches", "the loop over the cases can move on to the next case without calling the pattern matcher for the current one: a case is skipped on some other criterion, so the first case whose patterns match is not necessarily the one taken")
			}
		}
	}
	if n == 0 {
		c.undecided("R2", "every-case-is-tried", p.Pos(ee.Pos()), "no call of the pattern matcher inside a loop over ExprMatch.Cases found")
	}
	// the cases are consulted for every subject: once the subject has been evaluated, no successful
	// return is reached without entering the loop over the cases (an identifier pattern matches
	// anything, an unset or null subject included)
	m := 0
	ek := EKOf(p)
	for _, fn := range p.privateCluster(ee) {
		loops := rangeLoops(fn, func(v ssa.Value) bool {
			sf, ok := loadedField(v)
			return ok && sf.Is("ExprMatch", "Cases")
		})
		if len(loops) != 1 {
			continue
		}
		for _, call := range callsIn(fn) {
			cv, ok := call.(*ssa.Call)
			if !ok || !staticCalleeIs(cv, "(*lang.Evaluator).evalExpr") || argDesc(cv) != "ExprMatch.Value" {
				continue
			}
			m++
			bad := ""
			for _, r := range returnsOf(fn) {
				res := effectiveResults(r)
				if len(res) == 0 || !ek.KindsAt(res[len(res)-1], FactsOf(fn).At(r.Block())).Has(KNil) {
					continue
				}
				if r.Block() != cv.Block() && canSkip(cv.Block(), loops[0].Header, r.Block()) {
					bad = p.InstrPos(r)
				}
			}
			c.check(bad == "", "R2", "cases-consulted-for-every-subject", p.InstrPos(cv), "after the subject, every successful return passes the loop over the cases", "after the subject was evaluated the match can return successfully (at "+bad+") without consulting any case: for that kind of subject a catch-all case `x => ...` is never taken")
		}
	}
	if m == 0 {
		c.undecided("R2", "cases-consulted-for-every-subject", p.Pos(ee.Pos()), "the evaluation of ExprMatch.Value next to a loop over the cases was not found")
	}
}

// the parser hands every alternative of a case to the evaluator
func c19AlternativesKept(c *Ctx) {
	p := c.P
	c.note("R4 alternatives-kept: in the match parselet the pattern list stored in MatchCase.Exprs is the list to which every parsed alternative was appended (rendering: the loop-carried slice with append(slice, expression())), not a list derived from it — dropping or reordering alternatives changes which names a case binds.")
	mp := p.LangFunc("match")
	if mp == nil {
		c.undecided("R4", "match-parselet", "", "anchor lang.match not found")
		return
	}
	n := 0
	for _, f := range p.privateCluster(mp) {
		for _, st := range storesToField(f, "MatchCase", "Exprs", false) {
			n++
			r := p.Render(st.Val)
			const E = "[(*lang.Parser).expression(p)#0][:]"
			const L = "φslice⟨[][:0] | append(φslice, " + E + ")⟩"
			okList := true
			for _, leaf := range phiLeaves(strings.ReplaceAll(r, L, "LIST")) {
				if leaf != "LIST" && leaf != "append(LIST, "+E+")" {
					okList = false
				}
			}
			c.check(okList, "R4", fmt.Sprintf("alternatives-kept #%d", n), p.InstrPos(st), "MatchCase.Exprs = every alternative in source order", "the pattern list of a case is "+abbrev(r, 160)+", not the list of all parsed alternatives: some alternatives are dropped before the evaluator sees them")
		}
	}
	if n == 0 {
		c.undecided("R4", "alternatives-kept", p.Pos(mp.Pos()), "no store to MatchCase.Exprs found in the match parselet")
	}
}

// arrayArmHelper: the array arm of the matcher delegates to a helper of its own — a function only the
// matcher calls, given the subject, answering (matched, bindings, error).
func arrayArmHelper(p *Program, matcher *ssa.Function, reg map[*ssa.BasicBlock]bool, subject ssa.Value) (*ssa.Function, *ssa.Call) {
	for b := range reg {
		for _, in := range b.Instrs {
			call, ok := in.(*ssa.Call)
			if !ok {
				continue
			}
			h := call.Call.StaticCallee()
			if h == nil || h == matcher || !p.InLang(h) || len(h.Blocks) == 0 || !isPrivateTo(p, h, matcher) {
				continue
			}
			res := h.Signature.Results()
			if res.Len() != 3 || !isBoolType(res.At(0).Type()) || !isErrorType(res.At(2).Type()) {
				continue
			}
			passes := false
			for _, a := range call.Call.Args {
				if a == subject {
					passes = true
				}
			}
			if passes {
				return h, call
			}
		}
	}
	return nil, nil
}

// innermostLoopOf: the header of the innermost natural loop that contains block b, with the loop's
// blocks; nil when b is in no loop. A natural loop of header H: the blocks that reach a back-edge
// source of H (a predecessor of H that H dominates) backwards without passing H.
func innermostLoopOf(fn *ssa.Function, b *ssa.BasicBlock) (*ssa.BasicBlock, map[*ssa.BasicBlock]bool) {
	var best *ssa.BasicBlock
	var bestSet map[*ssa.BasicBlock]bool
	for _, h := range fn.Blocks {
		var srcs []*ssa.BasicBlock
		for _, pr := range h.Preds {
			if h.Dominates(pr) {
				srcs = append(srcs, pr)
			}
		}
		if len(srcs) == 0 {
			continue
		}
		set := map[*ssa.BasicBlock]bool{h: true}
		work := append([]*ssa.BasicBlock{}, srcs...)
		for len(work) > 0 {
			x := work[len(work)-1]
			work = work[:len(work)-1]
			if set[x] {
				continue
			}
			set[x] = true
			work = append(work, x.Preds...)
		}
		if !set[b] {
			continue
		}
		if best == nil || len(set) < len(bestSet) {
			best, bestSet = h, set
		}
	}
	return best, bestSet
}

// iterationCanSkip: inside the innermost loop around block b, an iteration can come back to the loop
// header without passing b.
func iterationCanSkip(fn *ssa.Function, b *ssa.BasicBlock) (inLoop, skip bool) {
	h, set := innermostLoopOf(fn, b)
	if h == nil {
		return false, false
	}
	if h == b {
		return true, false
	}
	seen := map[*ssa.BasicBlock]bool{}
	var work []*ssa.BasicBlock
	for _, sc := range h.Succs {
		if set[sc] {
			work = append(work, sc)
		}
	}
	for len(work) > 0 {
		x := work[len(work)-1]
		work = work[:len(work)-1]
		if seen[x] || x == b || !set[x] {
			continue
		}
		if x == h {
			return true, true
		}
		seen[x] = true
		work = append(work, x.Succs...)
	}
	return true, false
}

// c19EveryCaseKept (R4): the cases of a match are those written, in source order: in the match parselet
// every case that was parsed is appended to the list before the next one is parsed. A parser that drops
// the cases behind one it takes for a catch-all changes which case is the first that matches.
func c19EveryCaseKept(c *Ctx) {
	p := c.P
	mp := p.LangFunc("match")
	if mp == nil {
		c.undecided("R4", "match-keeps-every-case", "", "anchor lang.match not found")
		return
	}
	c.note("R4 match-keeps-every-case: in the match parselet the append of the parsed MatchCase to the case list lies on every path of an iteration of the case loop that reaches the next iteration (only a parse error leaves without it).")
	n := 0
	for _, f := range p.privateCluster(mp) {
		allInstrs(f, func(in ssa.Instruction) {
			app, ok := in.(*ssa.Call)
			if !ok {
				return
			}
			bi, ok := app.Call.Value.(*ssa.Builtin)
			if !ok || bi.Name() != "append" || len(app.Call.Args) < 2 {
				return
			}
			sl, isSl := app.Call.Args[0].Type().Underlying().(*types.Slice)
			if !isSl || !isLangNamed(sl.Elem(), "MatchCase") {
				return
			}
			n++
			inLoop, skip := iterationCanSkip(f, app.Block())
			c.check(inLoop && !skip, "R4", fmt.Sprintf("match-keeps-every-case #%d", n), p.InstrPos(app), "every parsed case is appended before the next one is parsed", "an iteration of the case loop can reach the next case without appending the one it parsed: a case written in the program is dropped (behind a pattern taken for a catch-all, say), so another case — or none — is the first that matches")
		})
	}
	if n == 0 {
		c.undecided("R4", "match-keeps-every-case", p.Pos(mp.Pos()), "no append to a []MatchCase found in the match parselet")
	}
}

package main

// small helpers over go/ssa values

import (
	"go/token"
	"go/types"

	"golang.org/x/tools/go/ssa"
)

// structField describes a FieldAddr / Field access.
type structField struct {
	Base   ssa.Value
	Struct *types.Named // may be nil for unnamed structs
	Name   string
}

func fieldOfAddr(v ssa.Value) (structField, bool) {
	switch fa := v.(type) {
	case *ssa.FieldAddr:
		pt, ok := fa.X.Type().Underlying().(*types.Pointer)
		if !ok {
			return structField{}, false
		}
		st, ok := pt.Elem().Underlying().(*types.Struct)
		if !ok {
			return structField{}, false
		}
		return structField{fa.X, namedOf(pt.Elem()), canonFieldName(namedOf(pt.Elem()), st, fa.Field)}, true
	}
	return structField{}, false
}

// loadedField: v is `*(&base.f)` or `base.f` (Field on a struct value).
func loadedField(v ssa.Value) (structField, bool) {
	switch x := v.(type) {
	case *ssa.UnOp:
		if x.Op == token.MUL {
			return fieldOfAddr(x.X)
		}
	case *ssa.Field:
		st, ok := x.X.Type().Underlying().(*types.Struct)
		if !ok {
			return structField{}, false
		}
		return structField{x.X, namedOf(x.X.Type()), canonFieldName(namedOf(x.X.Type()), st, x.Field)}, true
	}
	return structField{}, false
}

func (sf structField) Is(structName, field string) bool {
	return sf.Struct != nil && canonTypeName(sf.Struct.Obj()) == structName && sf.Name == field
}

// storesToField lists all stores in fn (and optionally its closures) whose address is field
// `field` of a struct named structName.
func storesToField(fn *ssa.Function, structName, field string, withClosures bool) []*ssa.Store {
	var out []*ssa.Store
	allInstrs(fn, func(in ssa.Instruction) {
		if st, ok := in.(*ssa.Store); ok {
			if sf, ok := fieldOfAddr(st.Addr); ok && sf.Is(structName, field) {
				out = append(out, st)
			}
		}
	})
	if withClosures {
		for _, a := range fn.AnonFuncs {
			out = append(out, storesToField(a, structName, field, true)...)
		}
	}
	return out
}

// staticCalleeIs: the call statically targets the lang function / method with this short name
// (as printed by shortName, e.g. "(*lang.Evaluator).pushFrame", "lang.NewCell").
func staticCalleeIs(c ssa.CallInstruction, name string) bool {
	f := c.Common().StaticCallee()
	return f != nil && shortName(f) == name
}

// stripConv removes conversions / interface wrapping.
func stripConv(v ssa.Value) ssa.Value {
	for {
		switch x := v.(type) {
		case *ssa.ChangeType:
			v = x.X
		case *ssa.Convert:
			v = x.X
		case *ssa.MakeInterface:
			v = x.X
		case *ssa.ChangeInterface:
			v = x.X
		default:
			return v
		}
	}
}

// callOf: v is the result (or an Extract of the result) of a call; returns the call.
func callOf(v ssa.Value) (*ssa.Call, int) {
	switch x := v.(type) {
	case *ssa.Call:
		return x, 0
	case *ssa.Extract:
		if c, ok := x.Tuple.(*ssa.Call); ok {
			return c, x.Index
		}
	}
	return nil, -1
}

// referrersOf returns the non-debug referrers of v.
func referrersOf(v ssa.Value) []ssa.Instruction {
	refs := v.Referrers()
	if refs == nil {
		return nil
	}
	var out []ssa.Instruction
	for _, r := range *refs {
		if _, ok := r.(*ssa.DebugRef); ok {
			continue
		}
		out = append(out, r)
	}
	return out
}

// typeSwitchCases: in SSA a type switch `switch x := v.(type)` lowers to a chain of
// TypeAssert(commaok) + If. typeCaseBlocks maps each asserted type name to the blocks that are
// executed only under that case (dominated by the true edge of its test).
type typeCase struct {
	TypeName string
	Type     types.Type
	Assert   *ssa.TypeAssert
	Entry    *ssa.BasicBlock // first block of the case body
}

func typeCasesOn(fn *ssa.Function, subject ssa.Value) []typeCase {
	var out []typeCase
	allInstrs(fn, func(in ssa.Instruction) {
		ta, ok := in.(*ssa.TypeAssert)
		if !ok || !ta.CommaOk || ta.X != subject {
			return
		}
		// find Extract #1 used by an If
		for _, r := range referrersOf(ta) {
			ex, ok := r.(*ssa.Extract)
			if !ok || ex.Index != 1 {
				continue
			}
			for _, rr := range referrersOf(ex) {
				if ifi, ok := rr.(*ssa.If); ok {
					name := ""
					if n := namedOf(ta.AssertedType); n != nil {
						name = n.Obj().Name()
					}
					out = append(out, typeCase{name, ta.AssertedType, ta, ifi.Block().Succs[0]})
				}
			}
		}
	})
	return out
}

// blocksDominatedBy returns the blocks dominated by b (including b).
func blocksDominatedBy(b *ssa.BasicBlock) map[*ssa.BasicBlock]bool {
	out := map[*ssa.BasicBlock]bool{}
	for _, x := range b.Parent().Blocks {
		if b.Dominates(x) {
			out[x] = true
		}
	}
	return out
}

// caseRegion: the blocks executed only under a type-switch case: those dominated by the case
// entry, provided the entry has a single predecessor (the test); otherwise (several types in
// one case clause) the blocks dominated by entry are still the right region.
func caseRegion(tc typeCase) map[*ssa.BasicBlock]bool { return blocksDominatedBy(tc.Entry) }

// typeCaseExtract returns the typed value (Extract #0) of a comma-ok type assertion.
func typeCaseValue(tc typeCase) ssa.Value {
	for _, r := range referrersOf(tc.Assert) {
		if ex, ok := r.(*ssa.Extract); ok && ex.Index == 0 {
			return ex
		}
	}
	return nil
}

// derivesFrom: v is computed from root only through field selections, loads, index, phi and
// conversions (value provenance).
func derivesFrom(v ssa.Value, root func(ssa.Value) bool, depth int) bool {
	if depth > 12 {
		return false
	}
	if root(v) {
		return true
	}
	switch x := v.(type) {
	case *ssa.UnOp:
		return derivesFrom(x.X, root, depth+1)
	case *ssa.FieldAddr:
		return derivesFrom(x.X, root, depth+1)
	case *ssa.Field:
		return derivesFrom(x.X, root, depth+1)
	case *ssa.IndexAddr:
		return derivesFrom(x.X, root, depth+1)
	case *ssa.Index:
		return derivesFrom(x.X, root, depth+1)
	case *ssa.Extract:
		return derivesFrom(x.Tuple, root, depth+1)
	case *ssa.TypeAssert:
		return derivesFrom(x.X, root, depth+1)
	case *ssa.ChangeType:
		return derivesFrom(x.X, root, depth+1)
	case *ssa.ChangeInterface:
		return derivesFrom(x.X, root, depth+1)
	case *ssa.MakeInterface:
		return derivesFrom(x.X, root, depth+1)
	case *ssa.Convert:
		return derivesFrom(x.X, root, depth+1)
	case *ssa.Slice:
		return derivesFrom(x.X, root, depth+1)
	case *ssa.Phi:
		for _, e := range x.Edges {
			if !derivesFrom(e, root, depth+1) {
				return false
			}
		}
		return len(x.Edges) > 0
	case *ssa.Next:
		return derivesFrom(x.Iter, root, depth+1)
	case *ssa.Range:
		return derivesFrom(x.X, root, depth+1)
	case *ssa.Lookup:
		return derivesFrom(x.X, root, depth+1)
	}
	return false
}

// canSkip: from block `from`, block `target` can be reached without executing block `via`.
func canSkip(from, via, target *ssa.BasicBlock) bool {
	if from == via {
		return false
	}
	return reachableFrom([]*ssa.BasicBlock{from}, map[*ssa.BasicBlock]bool{via: true})[target]
}

// isFrameLocals: the field is the variable table of a frame — the map[string]*Cell field of the frame
// struct (named `locals` today; recognised by its type, not its name).
func isFrameLocals(sf structField) bool {
	if sf.Struct == nil || sf.Struct.Obj().Name() != "stackFrame" {
		return false
	}
	st, ok := sf.Struct.Underlying().(*types.Struct)
	if !ok {
		return false
	}
	for i := 0; i < st.NumFields(); i++ {
		if canonFieldName(sf.Struct, st, i) != sf.Name {
			continue
		}
		m, ok := st.Field(i).Type().Underlying().(*types.Map)
		if !ok {
			return false
		}
		pt, ok := m.Elem().(*types.Pointer)
		return ok && isLangNamed(pt.Elem(), "Cell")
	}
	return false
}

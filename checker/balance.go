package main

// S5: frame typestate. Abstract state = frame-depth delta relative to function entry, decided
// modularly: every function of package lang is verified against the contract "delta 0 on every
// return after which the run can continue", assuming its callees meet the same contract; the
// push/pop primitives are discovered from their stores to Evaluator.stackTop.

import (
	"fmt"
	"sort"
	"strings"

	"golang.org/x/tools/go/ssa"
)

type frameModel struct {
	P         *Program
	push, pop *ssa.Function
	newEval   *ssa.Function
	storers   map[*ssa.Function][]*ssa.Store // all functions storing Evaluator.stackTop
	problems  []string
}

// discoverFrameModel finds the functions that store Evaluator.stackTop and classifies them.
func discoverFrameModel(p *Program) *frameModel {
	m := &frameModel{P: p, storers: map[*ssa.Function][]*ssa.Store{}}
	for _, f := range p.Funcs {
		if !p.InLang(f) {
			continue
		}
		for _, st := range storesToField(f, "Evaluator", "stackTop", false) {
			m.storers[f] = append(m.storers[f], st)
		}
	}
	for f, sts := range m.storers {
		for _, st := range sts {
			switch v := st.Val.(type) {
			case *ssa.Alloc:
				// push-like: a freshly allocated stackFrame
				if isLangNamed(v.Type(), "stackFrame") {
					if m.push != nil && m.push != f {
						m.problems = append(m.problems, "more than one function pushes a frame: "+shortName(m.push)+", "+shortName(f))
					}
					m.push = f
					continue
				}
			case *ssa.UnOp:
				// pop-like: e.stackTop = e.stackTop.parent
				if sf, ok := loadedField(v); ok && sf.Is("stackFrame", "parent") {
					if sf2, ok := loadedField(sf.Base); ok && sf2.Is("Evaluator", "stackTop") {
						if m.pop != nil && m.pop != f {
							m.problems = append(m.problems, "more than one function pops a frame: "+shortName(m.pop)+", "+shortName(f))
						}
						m.pop = f
						continue
					}
				}
			}
			m.problems = append(m.problems, fmt.Sprintf("%s stores Evaluator.stackTop at %s with a value that is neither a new frame nor the parent of the current one", shortName(f), p.InstrPos(st)))
		}
	}
	m.newEval = p.LangFunc("NewEvaluator")
	return m
}

type balState struct {
	delta    int
	deferred int
	pushes   string // "name=status;..." for push results: p pending, n nil (pushed), f failed
}

type balFinding struct {
	Kind  string // "return-unbalanced" | "negative" | "unbounded"
	Pos   string
	Delta int
	Text  string
	Instr ssa.Instruction
}

func setPush(s string, name string, status byte) string {
	m := parsePushes(s)
	m[name] = status
	return fmtPushes(m)
}

func parsePushes(s string) map[string]byte {
	m := map[string]byte{}
	if s == "" {
		return m
	}
	for _, kv := range strings.Split(s, ";") {
		i := strings.Index(kv, "=")
		m[kv[:i]] = kv[i+1]
	}
	return m
}

func fmtPushes(m map[string]byte) string {
	var ks []string
	for k := range m {
		ks = append(ks, k)
	}
	sort.Strings(ks)
	var parts []string
	for _, k := range ks {
		parts = append(parts, k+"="+string(m[k]))
	}
	return strings.Join(parts, ";")
}

// contractDelta: the delta a call to callee contributes under the contract.
func (m *frameModel) contractDelta(callee *ssa.Function) int {
	switch callee {
	case m.push:
		return +1
	case m.pop:
		return -1
	}
	return 0
}

// deferredPops: how many pops a deferred call performs (direct pop, or a closure whose body
// pops on every path).
func (m *frameModel) deferredPops(d *ssa.Defer) int {
	if f := d.Call.StaticCallee(); f != nil {
		if f == m.pop {
			return 1
		}
		if f.Parent() != nil {
			// closure: count pops (straight-line closures only)
			n := 0
			for _, c := range callsIn(f) {
				if c.Common().StaticCallee() == m.pop {
					n++
				}
			}
			if n > 0 && len(f.Blocks) <= 3 {
				return n
			}
		}
	}
	if mc, ok := d.Call.Value.(*ssa.MakeClosure); ok {
		if f, ok := mc.Fn.(*ssa.Function); ok {
			n := 0
			for _, c := range callsIn(f) {
				if c.Common().StaticCallee() == m.pop {
					n++
				}
			}
			return n
		}
	}
	return 0
}

// terminalKinds: error kinds after which nothing resumes (the run is over).
func terminalKinds(ek *EK) Kinds {
	return KSyntax | KRuntime | KJson | ek.Sentinel("errExit")
}

// checkBalance analyses one function; returns the set of deltas at continuing returns and findings.
func (m *frameModel) checkBalance(fn *ssa.Function) (map[int]bool, []balFinding, int) {
	ek := EKOf(m.P)
	F := FactsOf(fn)
	term := terminalKinds(ek)
	errIdx := errResultIndex(fn.Signature)
	in := map[*ssa.BasicBlock]map[balState]bool{}
	var work []*ssa.BasicBlock
	add := func(b *ssa.BasicBlock, s balState) {
		if in[b] == nil {
			in[b] = map[balState]bool{}
		}
		if !in[b][s] {
			in[b][s] = true
			work = append(work, b)
		}
	}
	deltas := map[int]bool{}
	var findings []balFinding
	seenFinding := map[string]bool{}
	report := func(f balFinding) {
		k := f.Kind + f.Pos + fmt.Sprint(f.Delta)
		if !seenFinding[k] {
			seenFinding[k] = true
			findings = append(findings, f)
		}
	}
	pathsSeen := 0
	if len(fn.Blocks) == 0 {
		return deltas, nil, 0
	}
	add(fn.Blocks[0], balState{})
	for len(work) > 0 {
		b := work[len(work)-1]
		work = work[:len(work)-1]
		states := make([]balState, 0, len(in[b]))
		for s := range in[b] {
			states = append(states, s)
		}
		for _, s0 := range states {
			s := s0
			dead := false
			for _, instr := range b.Instrs {
				switch x := instr.(type) {
				case *ssa.Call:
					for _, callee := range m.P.Callees(x) {
						d := m.contractDelta(callee)
						if d == 0 {
							continue
						}
						s.delta += d
						if callee == m.push {
							s.pushes = setPush(s.pushes, x.Name(), 'p')
						}
						if s.delta < 0 {
							report(balFinding{"negative", m.P.InstrPos(x), s.delta, "a frame is popped that this function (and its callees, by contract) did not push", x})
							dead = true
						}
						break
					}
				case *ssa.Defer:
					s.deferred += m.deferredPops(x)
				case *ssa.RunDefers:
					s.delta -= s.deferred
					s.deferred = 0
					if s.delta < 0 {
						report(balFinding{"negative", m.P.InstrPos(x), s.delta, "deferred pops exceed the frames pushed on this path", x})
						dead = true
					}
				case *ssa.Return:
					pathsSeen++
					continuing := true
					var k Kinds
					if errIdx >= 0 {
						rv := effectiveResults(x)[errIdx]
						k = ek.KindsAt(rv, F.At(b))
						// the run can continue after nil, after a sentinel other than errExit, or
						// after something the inference could not classify
						cont := KNil | KUnknown | (ek.AllSentinels() &^ term)
						continuing = k&cont != 0 || k == 0
					}
					if continuing {
						deltas[s.delta] = true
						if s.delta != m.expectedDelta(fn) {
							what := "nil"
							if errIdx >= 0 {
								what = ek.kindNames(k)
							}
							report(balFinding{"return-unbalanced", m.P.InstrPos(x), s.delta, fmt.Sprintf("return with frame delta %+d (expected %+d) while the returned error may be %s: the run can continue with a leftover frame", s.delta, m.expectedDelta(fn), what), x})
						}
					}
					dead = true
				}
				if dead {
					break
				}
			}
			if dead {
				continue
			}
			for _, succ := range b.Succs {
				ns := s
				feasible := true
				if ef, ok := edgeFact(b, succ); ok {
					if r, ok := relsOf(ef); ok && (r.op == relEQ || r.op == relNE) {
						var other ssa.Value
						var subj ssa.Value
						if isNilConst(r.y) {
							subj, other = r.x, r.y
						} else if isNilConst(r.x) {
							subj, other = r.y, r.x
						}
						_ = other
						if subj != nil {
							pm := parsePushes(ns.pushes)
							if st, ok := pm[subj.Name()]; ok {
								isNil := r.op == relEQ
								switch st {
								case 'p':
									if isNil {
										pm[subj.Name()] = 'n'
									} else {
										pm[subj.Name()] = 'f'
										ns.delta--
									}
									ns.pushes = fmtPushes(pm)
								case 'n':
									feasible = isNil
								case 'f':
									feasible = !isNil
								}
							}
						}
					}
				}
				if !feasible {
					continue
				}
				if ns.delta > 4 || ns.delta < -4 {
					report(balFinding{"unbounded", m.P.InstrPos(b.Instrs[len(b.Instrs)-1]), ns.delta, "frame delta grows along a cycle", b.Instrs[len(b.Instrs)-1]})
					continue
				}
				add(succ, ns)
			}
		}
	}
	return deltas, findings, pathsSeen
}

// expectedDelta: the contract of fn itself.
func (m *frameModel) expectedDelta(fn *ssa.Function) int {
	switch fn {
	case m.push:
		return +1
	case m.pop:
		return -1
	case m.newEval:
		return +1 // the root frame
	}
	return 0
}

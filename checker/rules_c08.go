package main

import (
	"fmt"
	"go/token"
	"go/types"
	"sort"
	"strings"

	"golang.org/x/tools/go/ssa"
)

func init() {
	register(&ruleSet{
		id:    "C08",
		title: "calls and matches leave no residue",
		run:   runC08,
		decided: "frames are balanced on every path after which the run can continue (frame typestate over all functions of package lang, push/pop primitives discovered from their stores to Evaluator.stackTop); only the two primitives store stackTop; unknown names are created in the innermost frame and globals in the root frame; the depth test precedes the push; parameters are bound by position to fresh cells, missing ones to null." +
			" setGlobal is only used for the interpreter's $-names; every pushed frame is one deeper than its parent; control-flow signals are never rebuilt into other errors; the return slot is written by the return arm and read by callFunction only." +
			" The list of evaluated argument expressions is made per call and not kept." +
			" The program's functions are installed after the runtime functions; loops pass a return signal through." +
			" The bindings of a match case are stored into the frame pushed for that match. A name is looked up in the current frame first and then in each enclosing frame in turn, whatever the name looks like.",
		notDecided: "value semantics of return beyond the binding rule, behaviour of recursion as such.",
	})
}

func runC08(c *Ctx) {
	m := discoverFrameModel(c.P)
	c08R1(c, m)
	c08R2(c, m)
	c08R3(c, m, "R3")
	c08R4(c)
	exprListFresh(c, "R4")
	parameterListKeepsEveryName(c, "R4")
	statementsLeaveOperandsAlone(c, "R17")
	c.shared("R9", "C14/R6", "a call to a user function runs that function: the program's functions are installed into the root frame after the runtime functions, so a user function named like a builtin is the one that is called", keyHas("program-functions-after-runtime-functions", "installed-by-constructor program functions"), func(s *Ctx) { evaluatorConstruction(s, "R6") })
	if es := c.P.LangFunc("(*Evaluator).evalStatement"); es != nil {
		c.shared("R10", "C07/R1", "a return inside a loop ends the call with that value: every loop consumes break and continue only and passes every other outcome of its body (the return signal included) on unchanged", keyHas("loop-bod"), func(s *Ctx) { c07LoopConsumption(s, es) })
	}
	c.shared("R16", "C07/R2", "a call yields the value of the return statement that ended it: once the body of a loop raises anything but continue nothing else of the loop runs — a post expression evaluated after a `return` assigns to the cell the return slot points into", keyHas("post-not-after-break", "post-on-every"), func(s *Ctx) {
		if es := s.P.LangFunc("(*Evaluator).evalStatement"); es != nil {
			c07ForOrder(s, es)
		}
	})
	if eu := c.P.LangFunc("(*Evaluator).evalUnaryExpr"); eu != nil {
		c.shared("R18", "C09/R5", "a call result is a value of its own: numbers are never stepped in place — ++ / -- assign a new number through evalAssignment, so the shallow copy a call returns does not share a number with the variable the callee returned", keyHas("incdec"), func(s *Ctx) { incdecTable(s, "R5", eu) })
	}
	c.shared("R15", "C07/R10", "a call yields the value of the executed return statement, or null if it has none: the parser gives a return a value exactly where the statement has not ended (a newline after `return` ends it; the next line is a statement of its own)", keyHas("return-node"), func(s *Ctx) { returnValuePresence(s, "R10") })
	c.shared("R13", "C02/R3", "`next` executed inside a function ends the current element wherever the call is written, a rule pattern included: evalRules returns at once on the next signal from a pattern as from a body", keyHas("errNext-test"), c02R3)
	c.shared("R14", "C02/R4", "`next` raised while a rule's pattern is evaluated is not read as `no match`: the pattern gate passes every error of the pattern on", keyHas("pattern-gate"), c02R4)
	c.shared("R12", "C10/R6", "a finished call or match leaves nothing behind: evaluation writes only the documented interpreter state (frames, return slot, roots); nothing is kept in other evaluator fields or in the nodes of the syntax tree", keyHas("evaluator-state", "syntax-tree-store", "interpreter-state"), func(s *Ctx) { interpreterState(s, "R6") })
	c.shared("R11", "C19/R3", "a finished match leaves nothing behind: the bindings of a case are stored into a frame pushed for that match (never into the enclosing frame, where they would overwrite and then delete a variable of the same name)", keyHas("bindings-before-body", "body-in-"), runC19)
	c.shared("R8", "C19/R4", "names bound by a match pattern are those of the alternative that matched: the binding map is made per alternative, so a name bound by a failed alternative neither shadows nor overwrites an outer variable", keyHas("bindings-per-alternative"), runC19)
	c.shared("R7", "C09/R3", "arguments are passed by value: the copy of a null argument is a plain null without the link to the object it was read from (through which an assignment to the parameter would create a member in the caller's object)", keyHas("copy Value", "copy-on-insert ExprCall.Args", "copy-flag-"), c09R3)
	sentinelIdentity(c, "R6")
	if es := c.P.LangFunc("(*Evaluator).evalStatement"); es != nil {
		c.shared("R5", "C07/R4", "a call yields the value of the executed return statement: the return arm stores the value in the slot and raises errReturn, only callFunction reads the slot", keyHas("return-"), func(s *Ctx) { c07Return(s, es) })
	}
}

func c08R1(c *Ctx, m *frameModel) {
	p := c.P
	c.note("R1 frame-balance: per function of package lang, abstract state = frame-depth delta; push primitive +1 on the edge where its result is nil, 0 on the non-nil edge; pop primitive -1; deferred pops applied at returns; callees assumed to meet the contract delta=0 (they are verified in turn). A return with delta != 0 is a finding unless the returned error can only be terminal (SyntaxError, RuntimeError, JsonError, raw/foreign errors, errExit).")
	if m.push == nil || m.pop == nil {
		c.undecided("R1", "primitives", "", fmt.Sprintf("could not discover the push/pop primitives from stores to Evaluator.stackTop (push=%v pop=%v)", m.push, m.pop))
		return
	}
	c.ok("R1", "primitives discovered", p.Pos(m.push.Pos()), "push = "+shortName(m.push)+", pop = "+shortName(m.pop))
	for _, pr := range m.problems {
		c.violated("R1", "frame-model", "", pr)
	}
	if len(m.problems) > 0 {
		return // the typestate below presupposes one push and one pop primitive
	}
	// push primitive asymmetry: the store happens only on paths that return nil
	{
		st := m.storers[m.push][0]
		F := FactsOf(m.push)
		ek := EKOf(p)
		okAll := true
		for _, r := range returnsOf(m.push) {
			k := ek.KindsAt(effectiveResults(r)[0], F.At(r.Block()))
			after := dominatesInstr(st, r)
			reach := canReach(st, r)
			if after && k != KNil {
				okAll = false
				c.violated("R1", "push-asymmetry return "+p.InstrPos(r), p.InstrPos(r), "push primitive returns "+ek.kindNames(k)+" after having pushed the frame: callers treat a non-nil result as 'not pushed'")
			} else if !after && reach {
				okAll = false
				c.undecided("R1", "push-asymmetry return "+p.InstrPos(r), p.InstrPos(r), "return is reachable from the stackTop store but not dominated by it")
			} else if !reach && k.Has(KNil) {
				okAll = false
				c.violated("R1", "push-asymmetry return "+p.InstrPos(r), p.InstrPos(r), "push primitive returns nil without having pushed a frame")
			}
		}
		if okAll {
			c.ok("R1", "push-asymmetry", p.InstrPos(st), "stackTop is stored exactly on the paths that return nil")
		}
		// pop: exactly one store on every path, returns nil
		pst := m.storers[m.pop]
		okPop := len(pst) == 1
		for _, r := range returnsOf(m.pop) {
			if !dominatesInstr(pst[0], r) {
				okPop = false
			}
		}
		c.check(okPop, "R1", "pop-primitive", p.Pos(m.pop.Pos()), "the pop primitive pops exactly one frame on every returning path", "the pop primitive does not pop exactly once on every returning path")
	}
	var fns []*ssa.Function
	for _, f := range p.Funcs {
		if p.InLang(f) && f != m.push && f != m.pop {
			fns = append(fns, f)
		}
	}
	direct := 0
	for _, f := range fns {
		hasDirect := false
		for _, call := range callsIn(f) {
			for _, callee := range p.Callees(call) {
				if callee == m.push || callee == m.pop {
					hasDirect = true
				}
			}
		}
		_, findings, paths := m.checkBalance(f)
		c.Analysed["balance_return_paths"] += paths
		if !hasDirect {
			if len(findings) > 0 {
				c.undecided("R1", "balance "+shortName(f), p.Pos(f.Pos()), "findings in a function without push/pop calls: "+findings[0].Text)
			}
			continue
		}
		direct++
		if len(findings) == 0 {
			c.ok("R1", "balance "+shortName(f), p.Pos(f.Pos()), fmt.Sprintf("every continuing return has delta %+d", m.expectedDelta(f)))
			continue
		}
		sort.Slice(findings, func(i, j int) bool { return findings[i].Pos < findings[j].Pos })
		for _, fd := range findings {
			c.violated("R1", fmt.Sprintf("balance %s %s delta%+d at %s", shortName(f), fd.Kind, fd.Delta, describeExit(p, fd.Instr)), fd.Pos, fd.Text)
		}
	}
	c.Analysed["functions_with_direct_push_pop"] = direct
	c.Analysed["functions_checked_for_balance"] = len(fns)
	if direct < 3 {
		c.undecided("R1", "instance-floor", "", fmt.Sprintf("%d functions call the push/pop primitives directly; 3 confirmed by hand (NewEvaluator, callFunction, evalExpr)", direct))
	}
}

// describeExit gives a line-independent description of a return: its index among the function's
// returns in source order and what it returns.
func describeExit(p *Program, in ssa.Instruction) string {
	r, ok := in.(*ssa.Return)
	if !ok {
		return fmt.Sprintf("%T", in)
	}
	rets := returnsOf(in.Parent())
	sort.Slice(rets, func(i, j int) bool { return rets[i].Pos() < rets[j].Pos() })
	for i, x := range rets {
		if x == r {
			return fmt.Sprintf("return#%d/%d", i+1, len(rets))
		}
	}
	return "return"
}

func c08R2(c *Ctx, m *frameModel) {
	p := c.P
	c.note("R2 frame-ownership: only the push/pop primitives store Evaluator.stackTop; the function that creates unknown variables stores into the locals of the frame loaded from Evaluator.stackTop (innermost frame); setGlobal stores into the frame whose parent is nil.")
	for f := range m.storers {
		if f != m.push && f != m.pop {
			c.violated("R2", "stackTop-writer "+shortName(f), p.Pos(f.Pos()), "stores Evaluator.stackTop but is not a push/pop primitive")
		}
	}
	c.ok("R2", "stackTop-writers", "", fmt.Sprintf("%d functions store Evaluator.stackTop", len(m.storers)))
	// map updates into stackFrame.locals
	n := 0
	for _, f := range p.Funcs {
		if !p.InLang(f) {
			continue
		}
		allInstrs(f, func(in ssa.Instruction) {
			mu, ok := in.(*ssa.MapUpdate)
			if !ok {
				return
			}
			sf, ok := loadedField(mu.Map)
			if !ok || !isFrameLocals(sf) {
				return
			}
			n++
			key := fmt.Sprintf("locals-store %s key=%s", shortName(f), describeVal(mu.Key))
			// which frame?
			if sf2, ok := loadedField(sf.Base); ok && sf2.Is("Evaluator", "stackTop") {
				c.ok("R2", key, p.InstrPos(mu), "stores into the innermost frame (Evaluator.stackTop.locals)")
				return
			}
			// root frame: the frame variable must satisfy frame.parent == nil at the store
			facts := FactsOf(f).At(mu.Block())
			rootOK := false
			for _, r := range facts.Rels() {
				if r.op != relEQ {
					continue
				}
				for _, side := range []ssa.Value{r.x, r.y} {
					if psf, ok := loadedField(side); ok && psf.Is("stackFrame", "parent") && psf.Base == sf.Base {
						rootOK = true
					}
					// the walk keeps `parent` in a variable of its own: P and the frame F are merged in the
					// same block and on every incoming edge P is the parent of F's value on that edge, so
					// P == F.parent holds there by induction
					if P, ok := side.(*ssa.Phi); ok {
						if Fr, ok := sf.Base.(*ssa.Phi); ok && P.Block() == Fr.Block() && len(P.Edges) == len(Fr.Edges) {
							lock := true
							for i := range P.Edges {
								esf, ok := loadedField(P.Edges[i])
								if !ok || !esf.Is("stackFrame", "parent") || esf.Base != Fr.Edges[i] {
									lock = false
								}
							}
							if lock {
								rootOK = true
							}
						}
					}
				}
			}
			if rootOK {
				c.ok("R2", key, p.InstrPos(mu), "stores into the frame whose parent is nil (root frame)")
				return
			}
			c.violated("R2", key, p.InstrPos(mu), "stores a variable into a frame that is neither the innermost frame nor (provably) the root frame")
		})
	}
	if n < 6 {
		c.undecided("R2", "instance-floor", "", fmt.Sprintf("%d stores into stackFrame.locals found, 6 confirmed by hand", n))
	}
	// setGlobal is only used for the interpreter's own $-variables
	if sg := p.LangFunc("(*Evaluator).setGlobal"); sg != nil {
		k := 0
		for _, cs := range p.CallSitesOf(sg) {
			k++
			name, isConst := constString(cs.Common().Args[1])
			c.check(isConst && strings.HasPrefix(name, "$"), "R2", fmt.Sprintf("root-frame-store #%d in %s", k, shortName(cs.Parent())), p.InstrPos(cs), "setGlobal("+name+")", "a name that is not one of the interpreter's $-variables ("+p.Render(cs.Common().Args[1])+") is created in the root frame: a variable first used inside a call or a match body outlives it")
		}
		if k == 0 {
			c.undecided("R2", "root-frame-store", "", "no caller of setGlobal found")
		}
	}
	// getVariable: the creation of unknown names happens only after the walk found nothing
	gv := p.LangFunc("(*Evaluator).getVariable")
	if gv == nil {
		c.undecided("R2", "getVariable", "", "anchor (*Evaluator).getVariable not found")
		return
	}
	variableLookupWalk(c, "R2", gv)
	frameTableFresh(c, "R2", m)
}

// frameTableFresh: every frame has a variable table of its own. In the push primitive the table
// stored into the new frame is a map made in that very call, on every way it is computed: a frame
// that borrows another frame's table (the caller's, for a function without parameters, say) makes
// the names a call creates outlive the call.
func frameTableFresh(c *Ctx, rule string, m *frameModel) {
	p := c.P
	if m.push == nil {
		c.undecided(rule, "frame-table-fresh", "", "push primitive not discovered")
		return
	}
	n := 0
	allInstrs(m.push, func(in ssa.Instruction) {
		st, ok := in.(*ssa.Store)
		if !ok {
			return
		}
		sf, ok := fieldOfAddr(st.Addr)
		if !ok || !isFrameLocals(sf) {
			return
		}
		n++
		var bad []string
		seen := map[ssa.Value]bool{}
		var leaves func(v ssa.Value)
		leaves = func(v ssa.Value) {
			if seen[v] {
				return
			}
			seen[v] = true
			switch x := v.(type) {
			case *ssa.Phi:
				for _, e := range x.Edges {
					leaves(e)
				}
				return
			case *ssa.MakeMap:
				return
			}
			bad = append(bad, p.RenderShort(v))
		}
		leaves(st.Val)
		sort.Strings(bad)
		c.check(len(bad) == 0, rule, "frame-table-fresh", p.InstrPos(st), "the new frame's variable table is a map made in this push", "the new frame's variable table can be "+strings.Join(bad, " / ")+", a table that exists already: the frame shares its variables with whoever owns that table, so names created during the call are still there after it")
	})
	if n == 0 {
		c.undecided(rule, "frame-table-fresh", p.Pos(m.push.Pos()), "no store of a frame's variable table found in the push primitive")
	}
}

// variableLookupWalk: a name is looked up in the current frame first and then in each enclosing
// frame in turn, whatever the name looks like: every frame whose variable table getVariable reads is
// Evaluator.stackTop or the parent of the frame read before it. A walk that starts somewhere else for
// some names (at the root frame for names with a `$` prefix, say) does not see a binding of that name
// in a match scope or a call frame.
func variableLookupWalk(c *Ctx, rule string, gv *ssa.Function) {
	p := c.P
	n := 0
	allInstrs(gv, func(in ssa.Instruction) {
		lk, ok := in.(*ssa.Lookup)
		if !ok {
			return
		}
		sf, ok := loadedField(lk.X)
		if !ok || !isFrameLocals(sf) {
			return
		}
		n++
		base := stripLoads(sf.Base)
		var bad []string
		seen := map[ssa.Value]bool{}
		var leaves func(v ssa.Value)
		leaves = func(v ssa.Value) {
			v = stripLoads(v)
			if seen[v] {
				return
			}
			seen[v] = true
			if ph, ok := v.(*ssa.Phi); ok {
				for _, e := range ph.Edges {
					leaves(e)
				}
				return
			}
			if fa, ok := v.(*ssa.FieldAddr); ok {
				if f, ok := fieldOfAddr(fa); ok {
					if f.Is("Evaluator", "stackTop") {
						return
					}
					if f.Is("stackFrame", "parent") && stripLoads(f.Base) == base {
						return
					}
				}
			}
			bad = append(bad, p.RenderShort(v))
		}
		leaves(base)
		sort.Strings(bad)
		c.check(len(bad) == 0, rule, "lookup-walk "+p.RenderShort(lk.Index), p.InstrPos(in), "the frames searched are stackTop and, in turn, the parent of the frame searched before", "getVariable also searches the variable table of "+strings.Join(bad, " / ")+": for some names the walk does not start at the current frame or skips frames, so a binding in a match scope or call frame is not seen (and an outer variable of that name is read instead)")
	})
	if n == 0 {
		c.undecided(rule, "lookup-walk", p.Pos(gv.Pos()), "no lookup in a frame's variable table found in getVariable")
	}
}

func describeVal(v ssa.Value) string {
	if s, ok := constString(v); ok {
		return fmt.Sprintf("%q", s)
	}
	if p, ok := v.(*ssa.Parameter); ok {
		return "param " + p.Name()
	}
	return "dynamic"
}

// R3 depth-accounting: the limit comparison dominates the store to stackTop and its true edge
// returns an error (shared with C20/R1).
func c08R3(c *Ctx, m *frameModel, rule string) {
	p := c.P
	if m.push == nil {
		c.undecided(rule, "push primitive", "", "not discovered")
		return
	}
	st := m.storers[m.push][0]
	lim := limitGlobal(p, "callDepthLimit")
	if lim == nil {
		c.undecided(rule, "callDepthLimit", "", "package-level variable callDepthLimit not found")
		return
	}
	// find the comparison depth > limit
	var cmp *ssa.BinOp
	allInstrs(m.push, func(in ssa.Instruction) {
		b, ok := in.(*ssa.BinOp)
		if !ok {
			return
		}
		if (globalLoaded(b.Y) == lim && (b.Op == token.GTR || b.Op == token.GEQ)) || (globalLoaded(b.X) == lim && (b.Op == token.LSS || b.Op == token.LEQ)) {
			cmp = b
		}
	})
	if cmp == nil {
		c.violated(rule, "depth-test", p.Pos(m.push.Pos()), "the push primitive does not compare the new frame's depth with callDepthLimit")
		return
	}
	// the If using cmp
	var ifi *ssa.If
	for _, r := range referrersOf(cmp) {
		if x, ok := r.(*ssa.If); ok {
			ifi = x
		}
	}
	if ifi == nil {
		c.undecided(rule, "depth-test", p.InstrPos(cmp), "comparison with callDepthLimit is not used as a branch condition")
		return
	}
	c.check(dominatesInstr(ifi, st), rule, "depth-test-before-push", p.InstrPos(cmp), "the depth test dominates the store to stackTop", "the store to stackTop is not dominated by the depth test: the limit is checked after (or not on every path before) the push")
	// true edge returns a non-nil error without storing
	trueB := ifi.Block().Succs[0]
	reach := reachableFrom([]*ssa.BasicBlock{trueB}, nil)
	good := !reach[st.Block()]
	ek := EKOf(p)
	for b := range reach {
		if r, ok := b.Instrs[len(b.Instrs)-1].(*ssa.Return); ok {
			if ek.KindsAt(effectiveResults(r)[0], FactsOf(m.push).At(b)).Has(KNil) {
				good = false
			}
		}
	}
	c.check(good, rule, "depth-limit-edge", p.InstrPos(ifi), "when the limit is exceeded the primitive returns an error without pushing", "the limit-exceeded edge can push the frame or return nil")
	// the compared depth is parent.depth + 1 for every frame pushed on another one (0 for the root frame)
	var depthVal ssa.Value = cmp.X
	if globalLoaded(cmp.X) == lim {
		depthVal = cmp.Y
	}
	isParentDepthPlusOne := func(v ssa.Value) bool {
		b, ok := v.(*ssa.BinOp)
		if !ok || b.Op != token.ADD {
			return false
		}
		one, ok := constInt(b.Y)
		if !ok || one != 1 {
			return false
		}
		psf, ok := loadedField(b.X)
		if !ok || !psf.Is("stackFrame", "depth") {
			return false
		}
		tsf, ok := loadedField(psf.Base)
		return ok && tsf.Is("Evaluator", "stackTop")
	}
	onlyStackTopNonNil := func(fs factSet) []string {
		var extra []string
		for _, rl := range fs.Rels() {
			if sf, ok := loadedField(rl.x); ok && sf.Is("Evaluator", "stackTop") && isNilConst(rl.y) && rl.op == relNE {
				continue
			}
			extra = append(extra, p.RenderShort(rl.x)+" "+rl.op.String()+" "+p.RenderShort(rl.y))
		}
		return extra
	}
	depthOK := false
	var extra []string
	everyFramePos := p.InstrPos(cmp)
	if sf, ok := loadedField(depthVal); ok && sf.Is("stackFrame", "depth") {
		// form 1: the new frame's depth field, set by a conditional store
		for _, s := range storesToField(m.push, "stackFrame", "depth", false) {
			if isParentDepthPlusOne(s.Val) {
				depthOK = true
				extra = onlyStackTopNonNil(FactsOf(m.push).At(s.Block()))
				everyFramePos = p.InstrPos(s)
			}
		}
	} else if phi, ok := depthVal.(*ssa.Phi); ok {
		// form 2: a local `depth` = 0, or parent.depth + 1 when there is a parent; stored into the new frame
		okForm := len(phi.Edges) == 2
		for i, e := range phi.Edges {
			switch {
			case isParentDepthPlusOne(e):
				extra = append(extra, onlyStackTopNonNil(FactsOf(m.push).OnEdge(phi.Block().Preds[i], phi.Block()))...)
			default:
				if k, isC := constInt(e); !isC || k != 0 {
					okForm = false
				}
			}
		}
		stored := false
		for _, s := range storesToField(m.push, "stackFrame", "depth", false) {
			if s.Val == ssa.Value(phi) {
				stored = true
			}
		}
		depthOK = okForm && stored
	}
	c.check(depthOK, rule, "depth-is-parent-plus-one", p.InstrPos(cmp), "the tested depth is stackTop.depth + 1", "the tested value is not provably parent depth + 1")
	c.check(depthOK && len(extra) == 0, rule, "depth-for-every-frame", everyFramePos, "every frame pushed on top of another one is one deeper than it", "the depth of a new frame is only set under {"+strings.Join(extra, " ; ")+"}: frames of the other kind restart at depth 0, so recursion through them is never stopped by the limit (the Go stack overflows instead)")
}

func limitGlobal(p *Program, name string) *ssa.Global {
	sp := p.SSAPkgs[p.Lang.ID]
	g, _ := sp.Members[name].(*ssa.Global)
	return g
}

// globalInit returns the constant a package-level variable is initialised with, and the number of
// stores to it anywhere in the module.
func globalInit(p *Program, g *ssa.Global) (ssa.Value, int) {
	var val ssa.Value
	n := 0
	sp := p.SSAPkgs[p.Lang.ID]
	fns := append([]*ssa.Function{}, p.Funcs...)
	if ini := sp.Func("init"); ini != nil {
		dup := false
		for _, f := range fns {
			if f == ini {
				dup = true
			}
		}
		if !dup {
			fns = append(fns, ini)
		}
	}
	for _, f := range fns {
		allInstrs(f, func(in ssa.Instruction) {
			if st, ok := in.(*ssa.Store); ok && st.Addr == g {
				n++
				if f.Name() == "init" && f.Parent() == nil {
					val = st.Val
				}
			}
		})
	}
	return val, n
}

// R4 positional-binding
func c08R4(c *Ctx) {
	p := c.P
	c.note("R4 positional-binding: in the user-function arm of callFunction every parameter cell stored into the new frame is a fresh cell (NewCell of the argument value or of null); the null arm is taken exactly when the parameter index is beyond the last argument; call arguments are evaluated with copy=true.")
	cf := p.LangFunc("(*Evaluator).callFunction")
	if cf == nil {
		c.undecided("R4", "callFunction", "", "anchor (*Evaluator).callFunction not found")
		return
	}
	n := 0
	// the binding loop may sit in a helper that only callFunction uses (bindParameters(params, args))
	cfOrig := cf
	for _, cf := range p.privateCluster(cfOrig) {
		allInstrs(cf, func(in ssa.Instruction) {
			mu, ok := in.(*ssa.MapUpdate)
			if !ok {
				return
			}
			sf, ok := loadedField(mu.Map)
			if !ok || !isFrameLocals(sf) {
				return
			}
			n++
			call, _ := callOf(mu.Value)
			key := fmt.Sprintf("param-binding #%d", n)
			if call == nil || !staticCalleeIs(call, "lang.NewCell") {
				c.violated("R4", key, p.InstrPos(mu), "a parameter is bound to a cell that is not freshly created by NewCell: the callee could rebind the caller's cell")
				return
			}
			// the cell is created in the same iteration as the binding (one cell per parameter)
			if !(call.Block() == mu.Block() || reachableFrom(call.Block().Succs, nil)[call.Block()] && call.Block().Dominates(mu.Block()) && inSameLoop(call.Block(), mu.Block())) {
				c.violated("R4", key+" per-parameter", p.InstrPos(call), "the cell bound to the parameter is created outside the parameter loop: every parameter that takes this arm shares one cell, so assigning to one missing parameter changes the others")
				return
			}
			// key must be the ranged parameter name
			arg := call.Call.Args[0]
			// either NewValue(nil) or *args[index]
			if ac, _ := callOf(arg); ac != nil && staticCalleeIs(ac, "lang.NewValue") {
				if isNilConst(stripConv(ac.Call.Args[0])) || isNilIface(ac.Call.Args[0]) {
					// must be under index > len(args)-1
					facts := FactsOf(cf).At(mu.Block())
					okGuard := false
					for _, r := range facts.Rels() {
						if (r.op == relGT || r.op == relGE) && isLenMinusOne(r.y) {
							okGuard = r.op == relGT
						}
						if (r.op == relLT || r.op == relLE) && isLenMinusOne(r.x) {
							okGuard = r.op == relLT
						}
						// index >= len(args)
						if r.op == relGE && isLenCall(r.y) || r.op == relLE && isLenCall(r.x) {
							okGuard = true
						}
					}
					c.check(okGuard, "R4", key+" null-arm", p.InstrPos(mu), "missing arguments are bound to null under index > len(args)-1", "the null binding is not guarded by index > len(args)-1")
					return
				}
			}
			// *args[index]
			if u, ok := arg.(*ssa.UnOp); ok && u.Op == token.MUL {
				if l, ok := u.X.(*ssa.UnOp); ok && l.Op == token.MUL {
					if ia, ok := l.X.(*ssa.IndexAddr); ok {
						if _, isParam := ia.X.(*ssa.Parameter); isParam {
							c.ok("R4", key+" value-arm", p.InstrPos(mu), "parameter bound to a fresh cell holding a copy of args[index]")
							return
						}
					}
				}
			}
			c.undecided("R4", key, p.InstrPos(mu), "parameter binding has an unrecognised shape")
		})
	}
	if n < 2 {
		c.undecided("R4", "instance-floor", "", fmt.Sprintf("%d parameter bindings found in callFunction, 2 confirmed by hand", n))
	}
	// call arguments evaluated with copy = true
	ee := p.LangFunc("(*Evaluator).evalExpr")
	if ee == nil {
		c.undecided("R4", "evalExpr", "", "anchor not found")
		return
	}
	found := false
	for _, call := range callsIn(ee) {
		if !staticCalleeIs(call, "(*lang.Evaluator).evalExprList") {
			continue
		}
		if argDesc(call) != "ExprCall.Args" {
			continue
		}
		found = true
		b, ok := constBool(call.Common().Args[2])
		c.check(ok && b, "R4", "call-arguments-copied", p.InstrPos(call), "evalExprList(exp.Args, true)", "call arguments are not evaluated with copy=true: scalars would be passed by reference")
	}
	if !found {
		c.undecided("R4", "call-arguments-copied", "", "no evalExprList(ExprCall.Args, …) call found in evalExpr")
	}
	_ = types.Typ
}

func isNilIface(v ssa.Value) bool {
	c, ok := v.(*ssa.Const)
	return ok && c.Value == nil
}

// isLenMinusOne: v is len(x) - 1
func isLenMinusOne(v ssa.Value) bool {
	b, ok := v.(*ssa.BinOp)
	if !ok || b.Op != token.SUB {
		return false
	}
	if one, ok := constInt(b.Y); !ok || one != 1 {
		return false
	}
	call, ok := b.X.(*ssa.Call)
	if !ok {
		return false
	}
	bi, ok := call.Call.Value.(*ssa.Builtin)
	return ok && bi.Name() == "len"
}

// inSameLoop: a and b lie on a common cycle (b can reach a again).
func inSameLoop(a, b *ssa.BasicBlock) bool {
	return reachableFrom(b.Succs, nil)[a]
}

func isLenCall(v ssa.Value) bool {
	call, ok := v.(*ssa.Call)
	if !ok {
		return false
	}
	bi, ok := call.Call.Value.(*ssa.Builtin)
	return ok && bi.Name() == "len"
}

// exprListFresh: the list of evaluated cells handed to print / call / array construction is the
// caller's own
func exprListFresh(c *Ctx, rule string) {
	p := c.P
	c.note("%s expression-list-fresh: evalExprList returns a slice made in that call (every success result is rooted in a make inside the function) and does not keep it anywhere: an evaluation nested in one of the list's expressions (a call that prints, a match body) cannot overwrite cells the outer statement has already collected.", rule)
	el := p.LangFunc("(*Evaluator).evalExprList")
	if el == nil {
		c.undecided(rule, "evalExprList", "", "anchor not found")
		return
	}
	n := 0
	for _, r := range returnsOf(el) {
		res := effectiveResults(r)
		if !EKOf(p).KindsAt(res[len(res)-1], FactsOf(el).At(r.Block())).Has(KNil) {
			continue
		}
		n++
		var bad []string
		for _, root := range sliceRoots(res[0], map[ssa.Value]bool{}) {
			switch x := root.(type) {
			case *ssa.MakeSlice:
			case *ssa.Slice:
				if _, isAlloc := x.X.(*ssa.Alloc); !isAlloc {
					bad = append(bad, p.RenderShort(root))
				}
			default:
				bad = append(bad, p.RenderShort(root))
			}
		}
		c.check(len(bad) == 0, rule, fmt.Sprintf("expression-list-fresh return#%d", n), p.InstrPos(r), "the returned list is made in this call", "the list of evaluated expressions can be {"+strings.Join(bad, ", ")+"}, storage that outlives the call: a nested evaluation of another list overwrites what the outer statement has collected (print 1, 2, f() prints f's own print arguments)")
	}
	// and it is not kept
	allInstrs(el, func(in ssa.Instruction) {
		st, ok := in.(*ssa.Store)
		if !ok || isLocalAddr(st.Addr) {
			return
		}
		if strings.HasPrefix(st.Val.Type().String(), "[]*") && strings.HasSuffix(st.Val.Type().String(), ".Cell") {
			c.violated(rule, "expression-list-kept", p.InstrPos(st), "evalExprList stores the list it returns into "+p.RenderShort(st.Addr)+": the next call reuses storage the previous caller may still be reading")
		}
	})
	if n == 0 {
		c.undecided(rule, "expression-list-fresh", p.Pos(el.Pos()), "no successful return found")
	}
}

// parameterListKeepsEveryName (R4): arguments bind to parameters by position, and ExprFunction.Args
// is the positional table the call uses. In parseFunction every parameter name that was consumed is
// appended to the list before the next one is read — nothing (a name seen before, say) decides whether
// a position is kept.
func parameterListKeepsEveryName(c *Ctx, rule string) {
	p := c.P
	pf := p.LangFunc("(*Parser).parseFunction")
	if pf == nil {
		c.undecided(rule, "parameter-list-keeps-every-name", "", "anchor (*Parser).parseFunction not found")
		return
	}
	c.note("%s parameter-list-keeps-every-name: in parseFunction, inside the loop over the parameter list, the text of every consumed identifier is appended to the function's parameter list on every path to the next iteration (ExprFunction.Args is the positional table callFunction binds the arguments with).", rule)
	n := 0
	// the parameter list may be parsed by a helper that only parseFunction uses
	pfOrig := pf
	for _, pf := range p.privateCluster(pfOrig) {
		allInstrs(pf, func(in ssa.Instruction) {
			app, ok := in.(*ssa.Call)
			if !ok {
				return
			}
			bi, ok := app.Call.Value.(*ssa.Builtin)
			if !ok || bi.Name() != "append" || len(app.Call.Args) < 2 {
				return
			}
			if sl, isSl := app.Call.Args[0].Type().Underlying().(*types.Slice); !isSl || !isBasicType(sl.Elem()) || !(strings.Contains(p.Render(app.Call.Args[1]), "GetString(") || strings.Contains(p.Render(app.Call.Args[1]), ".previous.Pos")) {
				return
			}
			for _, call := range callsIn(pf) {
				cv, isCall := call.(*ssa.Call)
				if !isCall || !staticCalleeIs(cv, "(*lang.Parser).consume") || !cv.Block().Dominates(app.Block()) || !reachableFrom(cv.Block().Succs, nil)[cv.Block()] {
					continue
				}
				if !strings.HasPrefix(p.Render(cv.Call.Args[len(cv.Call.Args)-1]), "[Ident]") {
					continue
				}
				n++
				okEdge := cv.Block()
				for _, sc := range cv.Block().Succs {
					if FactsOf(pf).At(sc).KnownNil(cv) {
						okEdge = sc
					}
				}
				c.check(!canSkip(okEdge, app.Block(), cv.Block()), rule, "parameter-list-keeps-every-name", p.InstrPos(app), "every parameter name read is appended before the next one is read", "after a parameter name was read the next one can be reached without the append: a parameter (a name listed twice, say) takes no position, every later parameter moves one slot to the left and receives the wrong argument")
			}
		})
	}
	if n == 0 {
		c.undecided(rule, "parameter-list-keeps-every-name", p.Pos(pf.Pos()), "no append of a consumed identifier's text inside a loop found in parseFunction")
	}
}

// statementsLeaveOperandsAlone (R17): a statement reads the cells its expressions evaluate to; the
// only stores statement evaluation makes go to cells it looked up as variables (the for-in variables)
// and to interpreter state. No statement arm stores through the cell an evalExpr call returned — a
// `return name` that "normalises" the returned cell rewrites the caller's variable.
func statementsLeaveOperandsAlone(c *Ctx, rule string) {
	p := c.P
	es := p.LangFunc("(*Evaluator).evalStatement")
	if es == nil {
		c.undecided(rule, "statements-leave-operands-alone", "", "anchor (*Evaluator).evalStatement not found")
		return
	}
	c.note("%s statements-leave-operands-alone: in evalStatement (and the helpers only it uses) no store goes through the cell that an evalExpr call returned (its Value or a field of it); a finished call or statement then leaves the variables it only read as they were.", rule)
	nCalls, nBad := 0, 0
	for _, fn := range p.privateCluster(es) {
		var viaExpr func(v ssa.Value, depth int) bool
		viaExpr = func(v ssa.Value, depth int) bool {
			if depth > 6 {
				return false
			}
			switch x := v.(type) {
			case *ssa.FieldAddr:
				return viaExpr(x.X, depth+1)
			case *ssa.IndexAddr:
				return viaExpr(x.X, depth+1)
			case *ssa.UnOp:
				return viaExpr(x.X, depth+1)
			case *ssa.Extract:
				if call, ok := x.Tuple.(*ssa.Call); ok && x.Index == 0 {
					return staticCalleeIs(call, "(*lang.Evaluator).evalExpr")
				}
			case *ssa.Phi:
				for _, e := range x.Edges {
					if viaExpr(e, depth+1) {
						return true
					}
				}
			}
			return false
		}
		for _, call := range callsIn(fn) {
			if staticCalleeIs(call, "(*lang.Evaluator).evalExpr") {
				nCalls++
			}
		}
		allInstrs(fn, func(in ssa.Instruction) {
			st, ok := in.(*ssa.Store)
			if !ok || isLocalAddr(st.Addr) {
				return
			}
			if viaExpr(st.Addr, 0) {
				nBad++
				c.violated(rule, fmt.Sprintf("statements-leave-operands-alone %s #%d", shortName(fn), nBad), p.InstrPos(st), "a statement stores "+p.RenderShort(st.Val)+" through the cell its expression evaluated to ("+p.RenderShort(st.Addr)+"): the variable, member or element the expression named is changed by a statement that only reads it")
			}
		})
	}
	if nCalls < 6 {
		c.undecided(rule, "statements-leave-operands-alone", p.Pos(es.Pos()), fmt.Sprintf("%d evalExpr calls found in evalStatement, more than 6 confirmed", nCalls))
	} else if nBad == 0 {
		c.ok(rule, "statements-leave-operands-alone", p.Pos(es.Pos()), fmt.Sprintf("%d expression evaluations, no store through their results", nCalls))
	}
}

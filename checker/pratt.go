package main

// S6 for the parser: extraction of the Pratt model (table, loop condition, right binding powers)

import (
	"fmt"
	"go/ast"
	"go/constant"
	"go/token"
	"go/types"
	"sort"

	"golang.org/x/tools/go/ssa"
)

type prattRow struct {
	Tag      string // TokenTag constant name
	TagVal   int64
	Prec     int64
	PrecName string
	Prefix   *ssa.Function
	Infix    *ssa.Function
	Pos      token.Pos
}

type rbpKind int

const (
	rbpNone      rbpKind = iota // the parselet does not parse an expression as right operand
	rbpOwn                      // own + K
	rbpConst                    // constant
	rbpDelimited                // full expression() closed by a required token
)

type rbp struct {
	Kind rbpKind
	K    int64 // offset for rbpOwn, value for rbpConst
	Call *ssa.Call
	Why  string
}

type prattModel struct {
	Rows      []prattRow
	ByTag     map[string]*prattRow
	Climb     *ssa.Function // expressionWithPrec
	LoopOp    token.Token   // LEQ or LSS: minPrec OP prec(current)
	LoopPos   token.Pos
	LoopIf    *ssa.If
	LoopBody  *ssa.BasicBlock // the successor of the loop test that stays in the loop
	Rbp       map[*ssa.Function]rbp
	Problems  []string
	PrecNames map[int64]string
	TagNames  map[int64]string
}

// constNames maps the values of the package-level constants of a named type to their names.
func constNames(pkg *types.Package, typeName string) map[int64]string {
	out := map[int64]string{}
	scope := pkg.Scope()
	for _, n := range scope.Names() {
		c, ok := scope.Lookup(n).(*types.Const)
		if !ok {
			continue
		}
		if nt := namedOf(c.Type()); nt == nil || nt.Obj().Name() != typeName {
			continue
		}
		if v, ok := constant.Int64Val(c.Val()); ok {
			if _, dup := out[v]; !dup {
				out[v] = n
			}
		}
	}
	return out
}

func extractPratt(p *Program) *prattModel {
	m := &prattModel{ByTag: map[string]*prattRow{}, Rbp: map[*ssa.Function]rbp{}}
	m.PrecNames = constNames(p.Lang.Types, "Precedence")
	m.TagNames = constNames(p.Lang.Types, "TokenTag")
	info := p.Lang.TypesInfo
	// the table: a composite literal of type map[TokenTag]parseRule
	var tables []*ast.CompositeLit
	for _, f := range p.Lang.Syntax {
		ast.Inspect(f, func(n ast.Node) bool {
			cl, ok := n.(*ast.CompositeLit)
			if !ok {
				return true
			}
			mt, ok := info.TypeOf(cl).Underlying().(*types.Map)
			if !ok {
				return true
			}
			if isLangNamed(mt.Key(), "TokenTag") && isLangNamed(mt.Elem(), "parseRule") {
				tables = append(tables, cl)
			}
			return true
		})
	}
	if len(tables) != 1 {
		m.Problems = append(m.Problems, fmt.Sprintf("expected exactly one map[TokenTag]parseRule literal, found %d", len(tables)))
		return m
	}
	fnOf := func(e ast.Expr) (*ssa.Function, bool) {
		e = ast.Unparen(e)
		if id, ok := e.(*ast.Ident); ok {
			if id.Name == "nil" && info.Types[e].IsNil() {
				return nil, true
			}
			if fo, ok := info.Uses[id].(*types.Func); ok {
				return p.FuncOfObj(fo), p.FuncOfObj(fo) != nil
			}
		}
		if fl, ok := e.(*ast.FuncLit); ok {
			return p.FuncOfLit(fl), true
		}
		return nil, false
	}
	for _, el := range tables[0].Elts {
		kv, ok := el.(*ast.KeyValueExpr)
		if !ok {
			m.Problems = append(m.Problems, "table element is not key: value at "+p.Pos(el.Pos()))
			continue
		}
		tv := info.Types[kv.Key]
		if tv.Value == nil {
			m.Problems = append(m.Problems, "table key is not a constant at "+p.Pos(kv.Key.Pos()))
			continue
		}
		tagVal, _ := constant.Int64Val(tv.Value)
		row := prattRow{Tag: m.TagNames[tagVal], TagVal: tagVal, Pos: kv.Pos()}
		val, ok := ast.Unparen(kv.Value).(*ast.CompositeLit)
		if !ok {
			m.Problems = append(m.Problems, "table value is not a composite literal at "+p.Pos(kv.Value.Pos()))
			continue
		}
		fields := map[string]ast.Expr{}
		names := []string{"prec", "prefix", "infix"}
		for i, fe := range val.Elts {
			if fkv, ok := fe.(*ast.KeyValueExpr); ok {
				if id, ok := fkv.Key.(*ast.Ident); ok {
					fields[id.Name] = fkv.Value
				}
			} else if i < len(names) {
				fields[names[i]] = fe
			}
		}
		if pe := fields["prec"]; pe != nil {
			ptv := info.Types[pe]
			if ptv.Value == nil {
				m.Problems = append(m.Problems, "precedence is not a constant at "+p.Pos(pe.Pos()))
				continue
			}
			row.Prec, _ = constant.Int64Val(ptv.Value)
			row.PrecName = m.PrecNames[row.Prec]
		}
		okFns := true
		if e := fields["prefix"]; e != nil {
			row.Prefix, okFns = fnOf(e)
		}
		if e := fields["infix"]; e != nil && okFns {
			row.Infix, okFns = fnOf(e)
		}
		if !okFns {
			m.Problems = append(m.Problems, "parselet is not a resolvable function at "+p.Pos(kv.Value.Pos()))
			continue
		}
		if _, dup := m.ByTag[row.Tag]; dup {
			m.Problems = append(m.Problems, "duplicate table key "+row.Tag)
		}
		m.Rows = append(m.Rows, row)
	}
	sort.Slice(m.Rows, func(i, j int) bool { return m.Rows[i].TagVal < m.Rows[j].TagVal })
	for i := range m.Rows {
		m.ByTag[m.Rows[i].Tag] = &m.Rows[i]
	}
	// the table must be what Parser.rule consults: it is stored into Parser.rules
	// (checked: the literal is assigned to a field named rules of Parser)

	// the climbing function: the one that calls a value loaded from parseRule.infix
	for _, f := range p.Funcs {
		if !p.InLang(f) {
			continue
		}
		for _, call := range callsIn(f) {
			if call.Common().StaticCallee() != nil || call.Common().IsInvoke() {
				continue
			}
			if sf, ok := loadedField(call.Common().Value); ok && sf.Is("parseRule", "infix") {
				if m.Climb != nil && m.Climb != f {
					m.Problems = append(m.Problems, "more than one function invokes infix parselets")
				}
				m.Climb = f
			}
		}
	}
	if m.Climb == nil {
		m.Problems = append(m.Problems, "no function invokes parseRule.infix")
		return m
	}
	// loop condition: If on BinOp(param prec, Field prec of rule(current.Tag)) whose true branch
	// leads to the infix call and which is in a cycle
	var minPrec *ssa.Parameter
	for _, prm := range m.Climb.Params {
		if isLangNamed(prm.Type(), "Precedence") {
			minPrec = prm
		}
	}
	if minPrec == nil {
		m.Problems = append(m.Problems, "climbing function has no Precedence parameter")
		return m
	}
	isCurPrec := func(v ssa.Value) bool {
		sf, ok := loadedField(v)
		if !ok || !sf.Is("parseRule", "prec") {
			return false
		}
		base := sf.Base
		// the rule may have been copied into a local first (`r := p.rule(tag); … r.prec`)
		if al, ok := base.(*ssa.Alloc); ok {
			if w := uniqueWholeStore(al); w != nil {
				base = w
			}
		}
		key, okKey := ruleLookupKey(base)
		if !okKey {
			return false
		}
		return derivesFrom(key, func(x ssa.Value) bool {
			lf, ok := loadedField(x)
			return ok && lf.Is("Parser", "current")
		}, 0)
	}
	found := 0
	allInstrs(m.Climb, func(in ssa.Instruction) {
		ifi, ok := in.(*ssa.If)
		if !ok {
			return
		}
		b, ok := ifi.Cond.(*ssa.BinOp)
		if !ok {
			return
		}
		var op token.Token
		switch {
		case b.X == minPrec && isCurPrec(b.Y):
			op = b.Op
		case b.Y == minPrec && isCurPrec(b.X):
			switch b.Op { // flip
			case token.GEQ:
				op = token.LEQ
			case token.GTR:
				op = token.LSS
			case token.LEQ:
				op = token.GEQ
			case token.LSS:
				op = token.GTR
			default:
				op = b.Op
			}
		default:
			return
		}
		// must be the loop test: the block is reachable from one of its successors (the body) and
		// not from the other (the exit). When the body is the false successor (`if minPrec > prec { break }`)
		// the loop continues under the negated comparison.
		inCycle := func(s *ssa.BasicBlock) bool {
			return reachableFrom([]*ssa.BasicBlock{s}, nil)[ifi.Block()]
		}
		t, f := inCycle(ifi.Block().Succs[0]), inCycle(ifi.Block().Succs[1])
		switch {
		case t && !f:
			m.LoopBody = ifi.Block().Succs[0]
		case f && !t:
			m.LoopBody = ifi.Block().Succs[1]
			switch op {
			case token.GTR:
				op = token.LEQ
			case token.GEQ:
				op = token.LSS
			case token.LSS:
				op = token.GEQ
			case token.LEQ:
				op = token.GTR
			}
		default:
			return
		}
		found++
		m.LoopOp = op
		m.LoopPos = b.Pos()
		m.LoopIf = ifi
	})
	if found != 1 {
		m.Problems = append(m.Problems, fmt.Sprintf("expected exactly one loop test `minPrec OP prec(current)` in %s, found %d", shortName(m.Climb), found))
	} else if m.LoopOp != token.LEQ && m.LoopOp != token.LSS {
		m.Problems = append(m.Problems, "loop test uses operator "+m.LoopOp.String()+"; only <= and < are modelled")
	}
	// right binding powers
	seen := map[*ssa.Function]bool{}
	for _, r := range m.Rows {
		for _, f := range []*ssa.Function{r.Prefix, r.Infix} {
			if f != nil && !seen[f] {
				seen[f] = true
				m.Rbp[f] = m.extractRbp(p, f)
			}
		}
	}
	return m
}

// extractRbp classifies how a parselet parses its right operand.
func (m *prattModel) extractRbp(p *Program, f *ssa.Function) rbp {
	var climbs, exprs []*ssa.Call
	for _, c := range callsIn(f) {
		cv, ok := c.(*ssa.Call)
		if !ok {
			continue
		}
		if cv.Call.StaticCallee() == m.Climb {
			climbs = append(climbs, cv)
		}
		if staticCalleeIs(cv, "(*lang.Parser).expression") || staticCalleeIs(cv, "(*lang.Parser).evalExprList") || staticCalleeIs(cv, "(*lang.Parser).statement") {
			exprs = append(exprs, cv)
		}
	}
	if len(climbs) == 0 {
		if len(exprs) > 0 {
			return rbp{Kind: rbpDelimited, Why: "operands parsed by full expression()/list calls"}
		}
		return rbp{Kind: rbpNone, Why: "no expression parse"}
	}
	if len(climbs) > 1 {
		return rbp{Kind: rbpNone, Why: "UNDECIDED: more than one call to the climbing function"}
	}
	call := climbs[0]
	arg := call.Call.Args[1]
	if k, ok := constInt(arg); ok {
		return rbp{Kind: rbpConst, K: k, Call: call}
	}
	off := int64(0)
	for {
		if cv, ok := arg.(*ssa.Convert); ok {
			arg = cv.X
			continue
		}
		if ct, ok := arg.(*ssa.ChangeType); ok {
			arg = ct.X
			continue
		}
		if b, ok := arg.(*ssa.BinOp); ok && (b.Op == token.ADD || b.Op == token.SUB) {
			if k, ok := constInt(b.Y); ok {
				if b.Op == token.ADD {
					off += k
				} else {
					off -= k
				}
				arg = b.X
				continue
			}
		}
		break
	}
	sf, ok := loadedField(arg)
	if !ok || !sf.Is("parseRule", "prec") {
		return rbp{Kind: rbpNone, Call: call, Why: "UNDECIDED: the minimum precedence passed is not a constant or own-precedence expression"}
	}
	ruleKey, okKey := ruleLookupKey(sf.Base)
	if !okKey {
		return rbp{Kind: rbpNone, Call: call, Why: "UNDECIDED: precedence not obtained from Parser.rule"}
	}
	// the tag must come from *p.previous (the operator just consumed), and an advance/consume
	// must precede
	viaHelper := false
	fromPrev := derivesFromLocal(ruleKey, func(x ssa.Value) bool {
		lf, ok := loadedField(x)
		if ok && lf.Is("Parser", "previous") {
			return true
		}
		// or from *p.current read before the parselet's first cursor move (the same token)
		if ok && lf.Is("Parser", "current") {
			if ld, isI := x.(ssa.Instruction); isI && beforeAnyCursorMove(f, ld) {
				return true
			}
		}
		// or the token handed back by a helper that advances once and returns *p.previous
		if ex, ok := x.(*ssa.Extract); ok && ex.Index == 0 {
			if hc, ok := ex.Tuple.(*ssa.Call); ok && isConsumedTokenHelper(hc.Call.StaticCallee()) {
				viaHelper = true
				return true
			}
		}
		return false
	})
	if !fromPrev {
		return rbp{Kind: rbpNone, Call: call, Why: "UNDECIDED: the operator tag used for the own precedence is not read from Parser.previous"}
	}
	adv := false
	for _, c := range callsIn(f) {
		if (staticCalleeIs(c, "(*lang.Parser).advance") || staticCalleeIs(c, "(*lang.Parser).consume")) && dominatesInstr(c, call) {
			adv = true
		}
		if viaHelper && isConsumedTokenHelper(c.Common().StaticCallee()) && dominatesInstr(c, call) {
			adv = true
		}
	}
	if !adv {
		return rbp{Kind: rbpNone, Call: call, Why: "UNDECIDED: no advance()/consume() dominates the right-operand parse"}
	}
	return rbp{Kind: rbpOwn, K: off, Call: call}
}

// operandBypass: returns of the parselet that yield a node (nil error) without being dominated
// by its call to the climbing function: the operand was obtained some other way.
func (m *prattModel) operandBypass(p *Program, f *ssa.Function, r rbp) []*ssa.Return {
	if r.Call == nil {
		return nil
	}
	ek := EKOf(p)
	var out []*ssa.Return
	for _, ret := range returnsOf(f) {
		res := effectiveResults(ret)
		if len(res) < 2 || !ek.KindsAt(res[1], FactsOf(f).At(ret.Block())).Has(KNil) {
			continue
		}
		if !dominatesInstr(r.Call, ret) {
			out = append(out, ret)
		}
	}
	return out
}

// derivesFromLocal is derivesFrom extended through local struct variables: a load from (a field
// of) a local Alloc derives from root if every whole-value store to that Alloc does.
func derivesFromLocal(v ssa.Value, root func(ssa.Value) bool) bool {
	var rec func(v ssa.Value, depth int) bool
	rec = func(v ssa.Value, depth int) bool {
		if depth > 14 {
			return false
		}
		if root(v) {
			return true
		}
		switch x := v.(type) {
		case *ssa.UnOp:
			if x.Op != token.MUL {
				return false
			}
			return rec(x.X, depth+1)
		case *ssa.FieldAddr:
			return rec(x.X, depth+1)
		case *ssa.Field:
			return rec(x.X, depth+1)
		case *ssa.Alloc:
			n := 0
			ok := true
			for _, r := range referrersOf(x) {
				if st, isStore := r.(*ssa.Store); isStore && st.Addr == x {
					n++
					if !rec(st.Val, depth+1) {
						ok = false
					}
				}
			}
			return n > 0 && ok
		case *ssa.Phi:
			for _, e := range x.Edges {
				if !rec(e, depth+1) {
					return false
				}
			}
			return len(x.Edges) > 0
		case *ssa.Convert:
			return rec(x.X, depth+1)
		case *ssa.ChangeType:
			return rec(x.X, depth+1)
		case *ssa.Extract:
			return false
		}
		return false
	}
	return rec(v, 0)
}

// absorbs: does op2 (with precedence p2) get absorbed into a right operand parsed at minimum r?
func (m *prattModel) absorbs(r int64, p2 int64) bool {
	if m.LoopOp == token.LSS {
		return r < p2
	}
	return r <= p2
}

// isConsumedTokenHelper: a Parser method (Token, error) whose only cursor move is one advance() and
// whose successful result is *p.previous — "consume the operator and hand it back".
func isConsumedTokenHelper(h *ssa.Function) bool {
	if h == nil || len(h.Blocks) == 0 || h.Signature.Results().Len() != 2 || !isLangNamed(h.Signature.Results().At(0).Type(), "Token") || !isErrorType(h.Signature.Results().At(1).Type()) {
		return false
	}
	var adv ssa.CallInstruction
	for _, c := range callsIn(h) {
		for _, a := range c.Common().Args {
			if pt, ok := a.Type().(*types.Pointer); ok && isLangNamed(pt.Elem(), "Parser") {
				if !staticCalleeIs(c, "(*lang.Parser).advance") || adv != nil {
					return false
				}
				adv = c
			}
		}
	}
	if adv == nil {
		return false
	}
	n := 0
	for _, r := range returnsOf(h) {
		res := effectiveResults(r)
		if !isNilConst(res[1]) {
			continue
		}
		n++
		ld, ok := res[0].(*ssa.UnOp)
		if !ok || !dominatesInstr(adv, r) {
			return false
		}
		sf, ok := loadedField(ld.X)
		if !ok || !sf.Is("Parser", "previous") {
			return false
		}
	}
	return n > 0
}

// ruleLookupKey: v is the operator-table entry of a token tag — the result of Parser.rule(tag), or the
// table read directly (`p.rules[tag]`: a missing key yields the zero entry, which is what rule()
// returns for it). The tag is returned.
func ruleLookupKey(v ssa.Value) (ssa.Value, bool) {
	if ex, ok := v.(*ssa.Extract); ok && ex.Index == 0 {
		if lk, ok := ex.Tuple.(*ssa.Lookup); ok {
			v = lk
		}
	}
	if lk, ok := v.(*ssa.Lookup); ok {
		if sf, ok := loadedField(lk.X); ok && sf.Is("Parser", "rules") {
			return lk.Index, true
		}
		return nil, false
	}
	call, _ := callOf(v)
	if call != nil && staticCalleeIs(call, "(*lang.Parser).rule") && len(call.Call.Args) > 1 {
		return call.Call.Args[1], true
	}
	return nil, false
}

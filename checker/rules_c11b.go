package main

import (
	"fmt"
	"strings"

	"golang.org/x/tools/go/ssa"
)

// R3 assignment-target-validation
func c11R3(c *Ctx, rule string) {
	p := c.P
	m := extractPratt(p)
	c.note("%s assignment-target-validation: every token that builds an assignment node (= += -= *= /=) is routed to an infix parselet that, before consuming the operator, lets through only *ExprIdentifier and *ExprBinary with operator `.` or `[` (allow-list over all node types implementing Expr); every construction of an ExprBinary labelled Equal happens in such a parselet or in the compound-assignment helper it calls.", rule)
	for _, pr := range m.Problems {
		c.undecided(rule, "model: "+pr, "", pr)
	}
	validating := map[*ssa.Function]bool{}
	for _, tag := range assignTokens {
		r := m.ByTag[tag]
		if r == nil || r.Infix == nil {
			c.violated(rule, "assign-token "+tag, "", "no infix parselet")
			continue
		}
		acc := assignTargetAcceptance(p, r.Infix)
		bad := acc.bad()
		switch {
		case acc.undecided != "":
			c.undecided(rule, "target-validation "+tag, p.Pos(r.Infix.Pos()), acc.undecided)
		case len(bad) > 0:
			c.violated(rule, "target-validation "+tag, p.Pos(r.Pos), fmt.Sprintf("`x %s y` is parsed by %s, which accepts as assignment target: %s — such a program is not rejected as a syntax error (it runs, and the assignment silently does nothing or fails later)", tag, shortName(r.Infix), strings.Join(bad, ", ")))
		default:
			validating[r.Infix] = true
			c.ok(rule, "target-validation "+tag, p.Pos(r.Pos), shortName(r.Infix)+" accepts only identifiers and member / index expressions")
		}
	}
	// who builds Equal-labelled nodes
	uni, _ := binaryOperatorUniverse(p, m)
	if where, ok := uni["Equal"]; ok {
		okWhere := false
		for f := range validating {
			if strings.HasPrefix(where, shortName(f)+" at ") {
				okWhere = true
			}
		}
		if rw := findCompoundRewriter(p, m); rw != nil && strings.HasPrefix(where, shortName(rw)+" at ") {
			// the helper is only called from validating parselets
			okWhere = rw != nil
			if rw != nil {
				for _, cs := range p.CallSitesOf(rw) {
					if !validating[cs.Parent()] {
						okWhere = false
					}
				}
			}
		}
		c.check(okWhere, rule, "assignment-node-builders", where, "assignment nodes are only built behind the target validation", "an ExprBinary labelled `=` is built in "+where+", which does not validate the target")
	}
}

// callNonFunction: only function values can be called
func callNonFunction(c *Ctx, rule string) {
	p := c.P
	c.note("%s call-non-function-is-error: callFunction returns successfully only for callees tagged function or native function (may-set of the callee's tag at every successful return); every other kind — null, a missing member included — is the runtime error `attempted to call …`.", rule)
	cf := p.LangFunc("(*Evaluator).callFunction")
	if cf == nil {
		c.undecided(rule, "callFunction", "", "anchor not found")
		return
	}
	loc := ""
	for _, b := range cf.Blocks {
		for _, rl := range FactsOf(cf).At(b).Rels() {
			if _, isC := rl.y.(*ssa.Const); isC {
				if name, _ := enumOf(p, rl.x); name == "ValueTag" && strings.Contains(p.Render(rl.x), "fn.Value.Tag") {
					loc = p.Render(rl.x)
				}
			}
		}
	}
	if loc == "" {
		c.undecided(rule, "callee-kind-test", p.Pos(cf.Pos()), "callFunction does not test the callee's tag")
		return
	}
	ms := p.maySetOf(cf, loc, valueTagNames(p))
	n := 0
	for _, r := range returnsOf(cf) {
		res := effectiveResults(r)
		if !EKOf(p).KindsAt(res[len(res)-1], FactsOf(cf).At(r.Block())).Has(KNil) {
			continue
		}
		n++
		var bad []string
		for _, t := range ms.At(r.Block()) {
			if t != "ValueFn" && t != "ValueNativeFn" {
				bad = append(bad, t)
			}
		}
		c.check(len(bad) == 0, rule, fmt.Sprintf("call-succeeds-only-for-functions return#%d", n), p.InstrPos(r), "callee is a function or a native function", "a call can return successfully although the callee's kind may be {"+strings.Join(bad, ", ")+"}: calling a non-function (e.g. a misspelt method) is silently ignored and the run continues")
	}
	if n < 2 {
		c.undecided(rule, "call-succeeds-only-for-functions", p.Pos(cf.Pos()), "fewer than two successful returns found in callFunction")
	}
}

// R5 parse-before-run
func c11R5(c *Ctx, rule string) {
	p := c.P
	c.note("%s parse-before-run: in EvalProgram the Parse() call and the return on its error dominate the construction of the evaluator and every evaluation call; in EvalExpression likewise for ParseExpression; the parser and lexer never write to an io.Writer (no output can precede a syntax error).", rule)
	for _, x := range []struct{ fn, parse string }{{"EvalProgram", "(*lang.Parser).Parse"}, {"EvalExpression", "(*lang.Parser).ParseExpression"}} {
		fn := p.LangFunc(x.fn)
		if fn == nil {
			c.undecided(rule, x.fn, "", "anchor not found")
			continue
		}
		var parse *ssa.Call
		for _, call := range callsIn(fn) {
			if cv, ok := call.(*ssa.Call); ok && staticCalleeIs(cv, x.parse) {
				parse = cv
			}
		}
		if parse == nil {
			c.violated(rule, "parse-call "+x.fn, p.Pos(fn.Pos()), x.fn+" does not call "+x.parse)
			continue
		}
		var perr ssa.Value
		for _, r := range referrersOf(parse) {
			if ex, ok := r.(*ssa.Extract); ok && ex.Index == 1 {
				perr = ex
			}
		}
		bad := 0
		n := 0
		for _, call := range callsIn(fn) {
			name := calleeName(call.Common())
			split := call.Common().StaticCallee() != nil && call.Common().StaticCallee() != fn && p.inClusterOf(fn, call.Common().StaticCallee()) // a part of fn split off it
			if !(split || strings.Contains(name, "NewEvaluator") || strings.Contains(name, ").eval") || name == "lang.EvalExpression" || strings.Contains(name, "Decode") || strings.Contains(name, "setGlobal")) {
				continue
			}
			n++
			if !dominatesInstr(parse, call) || perr == nil || !FactsOf(fn).At(call.Block()).KnownNil(perr) {
				bad++
				c.violated(rule, fmt.Sprintf("run-before-parse %s #%d %s", x.fn, n, name), p.InstrPos(call), name+" is reachable before the whole program was parsed successfully: a syntax error later in the text would not pre-empt this execution")
			}
		}
		if bad == 0 {
			c.ok(rule, "parse-dominates-run "+x.fn, p.InstrPos(parse), fmt.Sprintf("%d construction / evaluation / input calls all follow a successful parse", n))
		}
		if n < 2 {
			c.undecided(rule, "parse-dominates-run-floor "+x.fn, "", fmt.Sprintf("%d evaluation calls found in %s", n, x.fn))
		}
		// a parse error is returned as is
		okRet := false
		for _, r := range returnsOf(fn) {
			if perr != nil && effectiveResults(r)[1] == perr && FactsOf(fn).At(r.Block()).KnownNonNil(perr) {
				okRet = true
			}
		}
		c.check(okRet, rule, "parse-error-returned "+x.fn, p.InstrPos(parse), "the parser's error is returned unchanged", "the parser's error is not returned as is")
	}
	// parser / lexer functions do not write
	n := 0
	for _, fn := range p.Funcs {
		if !p.InLang(fn) {
			continue
		}
		name := shortName(fn)
		if !(strings.Contains(name, "Parser") || strings.Contains(name, "Lexer") || (fn.Parent() == nil && isParselet(fn))) {
			continue
		}
		n++
		for _, call := range callsIn(fn) {
			if f := call.Common().StaticCallee(); f != nil {
				s := f.String()
				if strings.HasPrefix(s, "fmt.Fp") || strings.HasPrefix(s, "fmt.Print") || strings.HasPrefix(s, "(*os.File).Write") || s == "io.WriteString" {
					c.violated(rule, "parser-writes "+name, p.InstrPos(call), "a parser / lexer function calls "+s+": output can be produced although the program has a syntax error")
				}
			}
		}
	}
	c.ok(rule, "parser-does-not-write", "", fmt.Sprintf("%d parser / lexer functions checked", n))
}

// R6 unbuffered-output
func c11R6(c *Ctx, rule string) {
	unbufferedOutput(c, rule)
}

// everyArgumentEvaluated: a fault in any argument of a call stops the run, whatever the callee does
// with its arguments.
func everyArgumentEvaluated(c *Ctx, rule string) {
	p := c.P
	c.note("%s every-argument-evaluated: the call arm of evalExpr hands the node's whole argument list (ExprCall.Args itself, not a prefix or a selection of it) to evalExprList: arguments beyond the callee's parameters are evaluated too, so a fault in them is reported.", rule)
	ee := p.LangFunc("(*Evaluator).evalExpr")
	if ee == nil {
		c.undecided(rule, "evalExpr", "", "anchor not found")
		return
	}
	n := 0
	for _, fn := range p.privateCluster(ee) {
		for _, call := range callsIn(fn) {
			if !staticCalleeIs(call, "(*lang.Evaluator).evalExprList") {
				continue
			}
			r := p.Render(call.Common().Args[1])
			if !strings.Contains(r, "ExprCall") {
				continue
			}
			n++
			c.check(strings.HasSuffix(r, ".(*lang.ExprCall)#0.Args") && !strings.Contains(r, "["), rule, "every-argument-evaluated", p.InstrPos(call), "evalExprList(exp.Args, …)", "the call arm evaluates "+abbrev(r, 120)+" instead of the whole argument list: the other arguments are never evaluated, so a fault in them (1/0, an unknown method) is silently ignored")
		}
	}
	if n == 0 {
		c.undecided(rule, "every-argument-evaluated", p.Pos(ee.Pos()), "no evalExprList call on the arguments of an ExprCall found")
	}
}

// objectKeyKindFirst: the key-kind fault of object indexing is detected before the object is looked at.
func objectKeyKindFirst(c *Ctx, rule string) {
	p := c.P
	c.note("%s object-key-kind-first: in GetMember every lookup in the object's map happens where the key's tag is known to be string or number (the `objects can only be indexed with numbers or strings` error is raised first): a key of another kind never resolves to a member, whatever members the object has.", rule)
	n := 0
	// (SetMember has no test of its own: every caller reads the member through GetMember with the same
	// key first — evalBinaryExpr's index arm, pluck — or passes a key it made itself)
	gmRoot := p.LangFunc("(*Value).GetMember")
	if gmRoot == nil {
		c.undecided(rule, "(*Value).GetMember", "", "anchor not found")
		return
	}
	for _, fn := range p.privateCluster(gmRoot) {
		ms := p.maySetOf(fn, "member.Tag", valueTagNames(p))
		allInstrs(fn, func(in ssa.Instruction) {
			var m ssa.Value
			switch x := in.(type) {
			case *ssa.Lookup:
				m = x.X
			case *ssa.MapUpdate:
				m = x.Map
			default:
				return
			}
			if !strings.Contains(p.Render(m), "v.Obj") {
				return
			}
			n++
			var other []string
			for _, t := range ms.At(in.Block()) {
				if t != "ValueStr" && t != "ValueNum" {
					other = append(other, t)
				}
			}
			c.check(len(other) == 0, rule, fmt.Sprintf("object-key-kind-first #%d in %s", n, shortName(fn)), p.InstrPos(in), "the key is a string or a number here", "the object's map is consulted where the key may still be of kind {"+strings.Join(other, ", ")+"}: such a key renders as \"\" and silently resolves to the member named \"\" instead of raising the indexing error")
		})
	}
	if n < 1 {
		c.undecided(rule, "object-key-kind-first instance-floor", "", fmt.Sprintf("%d map accesses found, 1 expected", n))
	}
}

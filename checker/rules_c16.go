package main

import (
	"fmt"
	"strings"

	"golang.org/x/tools/go/ssa"
)

func init() {
	register(&ruleSet{
		id:    "C16",
		title: "string/number/object methods, num(), json()",
		run:   runC16,
		decided: "each documented method / builtin is dispatched to the library operation that has the documented contract, on the receiver's payload and the checked argument in the documented order, guarded by a receiver-kind test, returning the documented neutral value otherwise (method table extracted from the prototype literals, compared as normalised dataflow); pluck builds a fresh object, stores one fresh cell per requested key and does not write through its receiver; method names of each prototype are exactly the documented ones." +
			" The argument helper tests the index against the argument count before indexing." +
			" Indexing a string yields string(byte); method lookup binds a fresh cell per receiver; numbers are never updated in place. pluck stores a member for every requested key (no key is passed over).",
		notDecided: "the algebraic laws themselves (split/join, rounding of every double): library semantics, trusted.",
	})
}

func methodByName(ms []nativeMethod, proto, name string) *nativeMethod {
	for i := range ms {
		if ms[i].Proto == proto && ms[i].Name == name {
			return &ms[i]
		}
	}
	return nil
}

var documentedMethods = map[string][]string{
	"array":  {"contains", "length", "pop", "popfirst", "push", "sort"},
	"object": {"length", "pluck"},
	"string": {"length", "lower", "split", "upper"},
	"number": {"ceil", "floor", "round"},
}

// methodTableComplete: the prototype literals define exactly the documented method names.
func methodTableComplete(c *Ctx, rule string, ms []nativeMethod, protos ...string) {
	for _, proto := range protos {
		var got []string
		for _, m := range ms {
			if m.Proto == proto {
				got = append(got, m.Name)
			}
		}
		missing, extra := diffSets(setOf(got), setOf(documentedMethods[proto]))
		key := "method-names " + proto
		if len(missing)+len(extra) > 0 {
			c.violated(rule, key, "", fmt.Sprintf("prototype %s defines {%s}; documented: {%s}", proto, strings.Join(got, ", "), strings.Join(documentedMethods[proto], ", ")))
		} else {
			c.ok(rule, key, "", strings.Join(got, ", "))
		}
	}
}

func runC16(c *Ctx) {
	defer stringIndexArm(c, "R5")
	defer c.shared("R10", "C10/R2", "num and json are what a program finds under those names in every evaluator: the runtime functions are installed in cells of the evaluator's own, not in cells of a package-level table that every evaluator (the one made per input value for a root selector included) shares and any program can assign to", keyHas("shared-reference"), c10R2)
	defer c.shared("R11", "C04/R6", "json() called with unexpected arguments is an error, not a crash: it takes its one argument through the argument-count check and returns the encoder's text for it (no optional indent turned into a Repeat count)", keyHas("builtin json"), runC04)
	defer c.shared("R9", "C17/R2", "pluck names a key given as a number by the number's text: numbers are turned into text by FormatFloat(x, 'f', -1, 64) only (no integer fast path that misspells huge or fractional keys)", ruleIs("R2"), runC17)
	defer c.shared("R8", "C01/R7", "methods are available on every value of their kind: every string / number / object value is built with its prototype (a piece returned by split without it cannot be asked for its length)", keyHas(" prototype"), func(s *Ctx) { payloadUnderTag(s, "R7") })
	defer c.shared("R6", "C15/R1", "a method acts on its own receiver: the lookup returns a cell bound to that receiver, never the shared prototype cell (which a lookup inside the argument list would rebind)", nil, func(s *Ctx) { receiverPerCall(s, "R1") })
	defer func() {
		if eu := c.P.LangFunc("(*Evaluator).evalUnaryExpr"); eu != nil {
			c.shared("R7", "C09/R5", "pluck leaves the original unchanged although the plucked cell shares the number's storage: numbers are never updated in place (++ / -- assign a new value through evalAssignment)", func(o Obligation) bool { return !strings.HasSuffix(o.Key, "-result") }, func(s *Ctx) { incdecTable(s, "R5", eu) })
		}
	}()
	defer c.shared("R4", "C01/R6", "a builtin or method called with missing arguments reports it: the argument helper tests the index against the argument count before it indexes", keyHas("checkArg"), func(s *Ctx) { indexGuards(s, "R6") })
	p := c.P
	ms := nativeMethods(p)
	c.Analysed["native_methods"] = len(ms)
	if len(ms) < 15 {
		c.undecided("R1", "method-extraction", "", fmt.Sprintf("%d native methods extracted from the prototype literals, 15 confirmed by hand", len(ms)))
		return
	}
	c.note("R1 method-to-library-table: per method closure, the set of distinct success results and the guards under which the payload result is returned, rendered as normalised dataflow (variable names, temporaries and statement order abstracted) and compared with the documented contract.")
	methodTableComplete(c, "R1", ms, "object", "string", "number")
	neutral0, neutralNull := "&lang.NewValue(0)", "&lang.NewValue(nil)"
	strGuard := []string{"this != nil", "this.Tag == ValueStr"}
	numGuard := []string{"this != nil", "this.Tag == ValueNum"}
	objGuard := []string{"this != nil", "this.Tag == ValueObj"}
	type row struct {
		proto, name string
		spec        armSpec
	}
	rows := []row{
		{"string", "length", armSpec{Results: []string{neutral0, "&lang.NewValue(len(*this.Str))"}, Effects: []string{}, Guards: map[string][]string{"&lang.NewValue(len(*this.Str))": strGuard}, Source: "string length counts bytes"}},
		{"string", "upper", armSpec{Results: []string{neutral0, "&lang.NewValue(strings.ToUpper(*this.Str))"}, Effects: []string{}, Guards: map[string][]string{"&lang.NewValue(strings.ToUpper(*this.Str))": strGuard}, Source: "upper returns a case-mapped copy"}},
		{"string", "lower", armSpec{Results: []string{neutral0, "&lang.NewValue(strings.ToLower(*this.Str))"}, Effects: []string{}, Guards: map[string][]string{"&lang.NewValue(strings.ToLower(*this.Str))": strGuard}, Source: "lower returns a case-mapped copy"}},
		{"string", "split", armSpec{Results: []string{"&EMPTYARRAY", "&lang.NewValue(strings.Split(*this.Str, *lang.checkArg(v, 0, ValueStr)#0.Str))"}, Effects: []string{},
			Guards: map[string][]string{"&lang.NewValue(strings.Split(*this.Str, *lang.checkArg(v, 0, ValueStr)#0.Str))": append([]string{"lang.checkArg(v, 0, ValueStr)#1 == nil"}, strGuard...)}, Source: "s.split(sep): strings.Split(receiver, separator), empty array for a non-string receiver"}},
		{"object", "length", armSpec{Results: []string{neutral0, "&lang.NewValue(len(*this.Obj))"}, Effects: []string{}, Guards: map[string][]string{"&lang.NewValue(len(*this.Obj))": objGuard}, Source: "object length counts keys"}},
		{"number", "floor", armSpec{Results: []string{neutralNull, "&lang.NewValue(math.Floor(*this.Num))"}, Effects: []string{}, Guards: map[string][]string{"&lang.NewValue(math.Floor(*this.Num))": numGuard}, Source: "floor: mathematical floor"}},
		{"number", "ceil", armSpec{Results: []string{neutralNull, "&lang.NewValue(math.Ceil(*this.Num))"}, Effects: []string{}, Guards: map[string][]string{"&lang.NewValue(math.Ceil(*this.Num))": numGuard}, Source: "ceil: mathematical ceiling"}},
		{"number", "round", armSpec{Results: []string{neutralNull, "&lang.NewValue(math.Round(*this.Num))"}, Effects: []string{}, Guards: map[string][]string{"&lang.NewValue(math.Round(*this.Num))": numGuard}, Source: "round: nearest integer, halves away from zero = math.Round (RoundToEven, Trunc, Floor(x+.5) are not)"}},
	}
	for _, r := range rows {
		m := methodByName(ms, r.proto, r.name)
		if m == nil || m.Fn == nil {
			c.violated("R1", r.proto+"."+r.name, "", "documented method is not defined in the prototype literal")
			continue
		}
		c.checkArm("R1", r.proto+"."+r.name, m.Fn, r.spec)
	}
	// num()
	numFn := p.LangFunc("nativeNum")
	parsed := "&lang.NewValue(strconv.ParseFloat(*args[0].Str, 64)#0)"
	// the arity test: through the helper, or written out
	numArity := "lang.checkArgCount(args, 1) == nil"
	if numFn != nil {
		for _, rc := range p.successResults(numFn) {
			if rc.Value == parsed && setOf(rc.Guards)["len(args) == 1"] {
				numArity = "len(args) == 1"
			}
		}
	}
	c.checkArm("R1", "builtin num", numFn, armSpec{
		Results: []string{"&lang.NewValue(int(*args[0].Num))", neutralNull, parsed},
		Effects: []string{},
		Guards:  map[string][]string{parsed: {"strconv.ParseFloat(*args[0].Str, 64)#1 == nil", "args[0].Tag == ValueStr", numArity}},
		Source:  "num(s): strconv.ParseFloat(s, 64), null on its error and for non-string non-number arguments",
	})
	if numFn != nil {
		for _, rc := range p.successResults(numFn) {
			if canonConstructors(rc.Value) != neutralNull {
				continue
			}
			g := setOf(rc.Guards)
			if g["args[0].Tag == ValueStr"] {
				c.check(g["strconv.ParseFloat(*args[0].Str, 64)#1 != nil"], "R1", "builtin num null-for-strings", p.InstrPos(rc.Ret), "a string gives null only when ParseFloat rejects it", "num(s) returns null for a string on a path where strconv.ParseFloat did not fail: some numeric strings (a signed exponent, a hex float) are screened out before or after the conversion")
			}
		}
	}
	// the builtins are registered under their documented names
	reg := p.LangFunc("addRuntimeFunctions")
	if reg == nil {
		c.undecided("R1", "builtin-registration", "", "anchor addRuntimeFunctions not found")
	} else {
		want := map[string]string{"printf": "lang.nativePrintf", "json": "lang.nativeJson", "num": "lang.nativeNum"}
		got := map[string]string{}
		for _, ev := range builtinRegistrations(p) {
			got[ev.name] = ev.fn
		}
		for name, fn := range want {
			c.check(got[name] == fn, "R1", "builtin-registration "+name, p.Pos(reg.Pos()), name+" -> "+fn, fmt.Sprintf("builtin %q is registered as %q, expected %s with tag ValueNativeFn", name, got[name], fn))
		}
	}

	// R3 pluck
	c.note("R3 pluck-purity: pluck's result is a freshly built object; for each argument it reads the receiver through GetMember (the pure read accessor, C09/R1) and stores a fresh cell (a copy of the member's value, or null when absent) into the new object; it performs no store through the receiver.")
	pl := methodByName(ms, "object", "pluck")
	if pl == nil || pl.Fn == nil {
		c.violated("R3", "pluck", "", "pluck is not defined")
		return
	}
	c.checkArm("R3", "object.pluck", pl.Fn, armSpec{
		Results: []string{"&lang.Value{Tag: ValueObj, Obj: &make(map[string]*lang.Cell), Proto: lang.getObjPrototype()}"},
		Effects: []string{},
		Source:  "o.pluck(k1, ...) returns a new object",
	})
	var gets, sets []*ssa.Call
	for _, call := range callsIn(pl.Fn) {
		cv, ok := call.(*ssa.Call)
		if !ok {
			continue
		}
		if staticCalleeIs(cv, "(*lang.Value).GetMember") {
			gets = append(gets, cv)
		}
		if staticCalleeIs(cv, "(*lang.Value).SetMember") {
			sets = append(sets, cv)
		}
	}
	// exactly the requested keys: every argument reaches a store — in the loop over the arguments no
	// way leads from one argument to the next without a SetMember call (or an error return)
	{
		via := map[*ssa.BasicBlock]bool{}
		for _, sc := range sets {
			via[sc.Block()] = true
		}
		nLoops := 0
		for _, l := range rangeLoops(pl.Fn, func(v ssa.Value) bool { return v == ssa.Value(pl.Fn.Params[1]) }) {
			nLoops++
			skip := !via[l.Body] && reachableFrom([]*ssa.BasicBlock{l.Body}, via)[l.Header]
			c.check(!skip, "R3", "pluck-every-key", p.Pos(pl.Fn.Pos()), "no argument is passed over: every iteration stores the key", "an iteration of pluck's loop over the requested keys can go on to the next key without storing this one: the result lacks requested keys (those for which the skipping condition holds)")
		}
		if nLoops == 0 {
			c.undecided("R3", "pluck-every-key", p.Pos(pl.Fn.Pos()), "no loop over the arguments found in pluck")
		}
	}
	this := pl.Fn.Params[2]
	okGet := len(gets) == 1 && gets[0].Call.Args[0] == ssa.Value(this) && p.Render(gets[0].Call.Args[1]) == "*v[i@v]"
	c.check(okGet, "R3", "pluck-reads", p.Pos(pl.Fn.Pos()), "this.GetMember(v[i]) for each argument in order", "pluck does not read exactly this.GetMember(argument i) for each argument")
	// one store event per way a value reaches SetMember: a call with a literal cell argument is one
	// event; `picked := null; if found != nil { picked = found.Value }; SetMember(k, NewCell(picked))`
	// is two, one per incoming edge of the merged value, each with the facts of its edge
	type storeEvent struct {
		at    *ssa.Call
		text  string
		facts factSet
	}
	var events []storeEvent
	var setR []string
	goodSets := true
	PF := FactsOf(pl.Fn)
	for _, s := range sets {
		head := p.Render(s.Call.Args[0]) + ".SetMember(" + p.Render(s.Call.Args[1]) + ", "
		if _, isLocal := s.Call.Args[0].(*ssa.Alloc); !isLocal {
			goodSets = false
		}
		if nc, ok := s.Call.Args[2].(*ssa.Call); ok && staticCalleeIs(nc, "lang.NewCell") {
			if ph, ok := nc.Call.Args[0].(*ssa.Phi); ok && !loopCarried(ph) {
				for i, e := range ph.Edges {
					events = append(events, storeEvent{s, head + "&lang.Cell{Value: " + p.Render(e) + "})", PF.OnEdge(ph.Block().Preds[i], ph.Block())})
				}
				continue
			}
		}
		events = append(events, storeEvent{s, head + p.Render(s.Call.Args[2]) + ")", PF.At(s.Block())})
	}
	if len(events) != 2 {
		goodSets = false
	}
	for _, ev := range events {
		setR = append(setR, ev.text)
	}
	wantSets := setOf([]string{
		"&lang.Value{Tag: ValueObj, Obj: &make(map[string]*lang.Cell), Proto: lang.getObjPrototype()}.SetMember(*v[i@v], &lang.Cell{Value: lang.NewValue(nil)})",
		"&lang.Value{Tag: ValueObj, Obj: &make(map[string]*lang.Cell), Proto: lang.getObjPrototype()}.SetMember(*v[i@v], &lang.Cell{Value: (*lang.Value).GetMember(this, *v[i@v])#0.Value})",
	})
	miss, extra := diffSets(setOf(setR), wantSets)
	c.check(goodSets && len(miss)+len(extra) == 0, "R3", "pluck-stores", p.Pos(pl.Fn.Pos()), "stores a fresh null cell for absent keys and a fresh copy of the member's value otherwise, into the new object", fmt.Sprintf("pluck's stores differ: unexpected {%s}; missing {%s}", strings.Join(extra, " ; "), strings.Join(miss, " ; ")))
	// the null arm is taken exactly when GetMember returned no cell
	for _, ev := range events {
		cellV := extractOf(gets, 0)
		if strings.Contains(ev.text, "NewValue(nil)") {
			c.check(cellV != nil && ev.facts.KnownNil(cellV), "R3", "pluck-absent-key", p.InstrPos(ev.at), "null is stored exactly when the receiver has no such member", "the null store is not guarded by `member == nil`")
		} else {
			c.check(cellV != nil && ev.facts.KnownNonNil(cellV), "R3", "pluck-present-key", p.InstrPos(ev.at), "the member's value is copied only when the member exists", "the member's value is read without establishing `member != nil`")
		}
	}
}

func extractOf(calls []*ssa.Call, idx int) ssa.Value {
	if len(calls) == 0 {
		return nil
	}
	for _, r := range referrersOf(calls[0]) {
		if ex, ok := r.(*ssa.Extract); ok && ex.Index == idx {
			return ex
		}
	}
	return nil
}

// stringIndexArm: s[i] is the i-th byte as a one-character string built by conversion
func stringIndexArm(c *Ctx, rule string) {
	p := c.P
	c.note("%s string-element: in GetMember, for a string receiver and a numeric member, the result is a fresh null cell when the index is outside [0, len) and otherwise a fresh cell holding NewString(string(byte i)) — the byte converted to a string (always valid UTF-8), never a sub-slice of the receiver's text (which can cut a multi-byte character in two and yields a string that encoding/json cannot represent).", rule)
	gm := p.LangFunc("(*Value).GetMember")
	if gm == nil {
		c.undecided(rule, "GetMember", "", "anchor not found")
		return
	}
	got := map[string]bool{}
	for _, rc := range p.successResults(gm) {
		g := setOf(rc.Guards)
		if g["v.Tag == ValueStr"] && g["member.Tag == ValueNum"] {
			got[rc.Value] = true
		}
	}
	want := setOf([]string{
		"&lang.Cell{Value: lang.NewValue(nil)}",
		"&lang.Cell{Value: lang.Value{Tag: ValueStr, Str: &string(*v.Str[int(*member.Num)]), Proto: lang.getStrPrototype()}}",
	})
	miss, extra := diffSets(got, want)
	c.check(len(miss)+len(extra) == 0, rule, "string-element", p.Pos(gm.Pos()), "s[i] = string(byte i) in a fresh cell, null outside the string", fmt.Sprintf("indexing a string yields {%s}; documented: a fresh null cell, or a fresh cell with NewString(string(s[i]))", keysOf(got)))
}

// builtinRegistration: one store `frame[name] = cell of Value{Tag: ValueNativeFn, NativeFn: fn}` with a
// constant name — written out, or made by a helper `define(e, name, fn)` whose name and function are
// the arguments of a call.
type builtinRegistration struct {
	name, fn string
	at       ssa.Instruction // the store, or the call of the helper
}

func builtinRegistrations(p *Program) []builtinRegistration {
	var out []builtinRegistration
	for _, fn := range p.Funcs {
		if !p.InLang(fn) || p.inTestFile(fn) {
			continue
		}
		allInstrs(fn, func(in ssa.Instruction) {
			mu, ok := in.(*ssa.MapUpdate)
			if !ok {
				return
			}
			r := p.Render(mu.Value)
			if !strings.Contains(r, "Tag: ValueNativeFn") || !strings.Contains(r, "NativeFn: ") {
				return
			}
			if name, ok := constString(mu.Key); ok {
				for _, nf := range []string{"lang.nativePrintf", "lang.nativeJson", "lang.nativeNum"} {
					if strings.Contains(r, "NativeFn: "+nf+",") || strings.Contains(r, "NativeFn: "+nf+"}") {
						out = append(out, builtinRegistration{name, nf, mu})
					}
				}
				return
			}
			// name and function are parameters of a helper: one event per call site
			kp, isKP := mu.Key.(*ssa.Parameter)
			if !isKP {
				return
			}
			ki, fi := -1, -1
			for i, prm := range fn.Params {
				if prm == kp {
					ki = i
				}
				if strings.Contains(r, "NativeFn: "+p.Render(prm)+",") || strings.Contains(r, "NativeFn: "+p.Render(prm)+"}") {
					fi = i
				}
			}
			if ki < 0 || fi < 0 {
				return
			}
			for _, cs := range p.CallSitesOf(fn) {
				if p.inTestFile(cs.Parent()) {
					continue
				}
				if name, ok := constString(cs.Common().Args[ki]); ok {
					out = append(out, builtinRegistration{name, p.Render(cs.Common().Args[fi]), cs})
				}
			}
		})
	}
	return out
}

package main

import (
	"fmt"
	"strings"
)

func init() {
	register(&ruleSet{
		id:    "C11",
		title: "syntax errors pre-empt execution; runtime faults stop the run",
		run:   runC11,
		decided: "no error result of an interpreter function (or of the listed library calls) is dropped; on the non-nil edge of every such result no path returns a nil error or re-executes the call, except the designed sentinel consumers (table); " +
			"assignment nodes are only built behind an allow-list target test; break/continue/return nodes only behind their context guard; the program is parsed completely before the evaluator is built; output is written unbuffered." +
			" The assignment-target validation dominates every successful return of the assignment parselet; divisions are dominated by the zero test; the lexer produces EOF only at the real end of the text." +
			" The regex of ~ / !~ is compiled at every evaluation and its error returned; Compare rejects containers whatever the other operand." +
			" The call arm evaluates the node's whole argument list." +
			" GetMember consults an object's map only for string / number keys; only blanks and comments are skipped between tokens.",
		notDecided: "that each kind of fault is detected in the first place (operator tables: C05/C09/C16).",
	})
}

func runC11(c *Ctx) {
	c11R1(c, "R1")
	c11R2(c, "R2")
	c11R3(c, "R3")
	scopeAgreement(c, "R4")
	c11R5(c, "R5")
	c11R6(c, "R6")
	callNonFunction(c, "R11")
	everyArgumentEvaluated(c, "R13")
	objectKeyKindFirst(c, "R14")
	c.shared("R22", "C08/R3", "exceeding the call depth limit is a fault that stops the run wherever the call is written, a match body included: every frame that is installed is installed by the push primitive, behind its depth test", keyHas("depth"), func(s *Ctx) { c08R3(s, discoverFrameModel(s.P), "R3") })
	c.shared("R23", "C06/R1", "a stray operator is a syntax error that pre-empts execution: the operator loop of the expression parser is left successfully only when the next token binds too loosely — a token that has a precedence but no infix parselet (`!`) is reported, not taken as the end of the expression", keyHas("loop-exits"), runC06)
	if es := c.P.LangFunc("(*Evaluator).evalStatement"); es != nil {
		c.shared("R24", "C07/R7", "an unknown $-variable is a fault in the position of a for-in variable as well: the loop variables are obtained through getVariable, which refuses unknown $-names (not through a helper that declares whatever name it is given)", keyHas("for-in ", "binding-before-body"), func(s *Ctx) { c07ForIn(s, es) })
	}
	c.shared("R25", "C13/R3", "a lone backslash at the end of a string literal is a fault wherever it stands: the escape scanner reports it on every path (an earlier escape in the same literal does not disarm the test)", keyHas("trailing-backslash-is-error", "escape "), runC13)
	c.shared("R26", "C18/R2", "a printf argument of the wrong kind is a fault: %s and %f obtain their argument through the argument check with the kind they need", keyHas("directive lang.checkArg", "argument-check"), runC18)
	c.shared("R16", "C13/R6", "a missing statement separator is a syntax error: a statement end is recorded only where a separator, a newline or the closing brace of a block was consumed, and the answer of the statement-end test is never dropped", keyHas("statement-end", "newline-ends", "advance-clears"), c13NewlineFlag)
	c.shared("R18", "C15/R2", "comparing containers is a fault that contains does not ignore: it returns a verdict only where the comparison of every element looked at succeeded, and the first comparison error is returned at once", keyHas("array.contains", "every-element-compared"), func(s *Ctx) { c15R2(s, nativeMethods(s.P)); c15NestedCalls(s) })
	c.shared("R21", "C13/R5", "a stray `&` or `|` is a syntax error: the operator tokens are exactly the documented spellings, a single `&` / `|` is not one of them and falls through to the illegal-character error", keyHas("spelling"), c13Operators)
	c.shared("R20", "C09/R15", "storing a member on a scalar (or a named member on an array) is a fault, never silently ignored: the target cell of such an assignment is not one made for the occasion, into which the store would quietly succeed", func(o Obligation) bool {
		return strings.Contains(o.Key, "assignment-target-location") && !strings.Contains(o.Key, "ValueObj")
	}, func(s *Ctx) { assignmentTargetLocation(s, "R15") })
	c.shared("R19", "C09/R3", "storing a member on null is a fault: a copied null is a plain null — it does not keep the link to the object it was read from, through which the store would quietly succeed", keyHas("copy ValueNil"), c09R3)
	c.shared("R17", "C05/R2", "comparing containers is a fault in every position: each comparison operator's result comes from Compare (which rejects containers), not from a shortcut that bypasses it for some operands", ruleIs("R2"), runC05)
	c.shared("R15", "C13/R4", "an illegal character anywhere in the program is a syntax error: between tokens the lexer skips exactly ' ', '\\r', '\\t' and comments, every other byte reaches Next and is rejected there", keyHas("blank-class", "comment-stops"), c13Blanks)
	c.shared("R12", "C14/R1", "nothing is written after a fault: the command-line tool returns at once with a non-zero status on every error, and the JSON output is produced only after EvalProgram succeeded", keyHas("error-source", "json-after-successful-run", "success-exit"), func(s *Ctx) {
		cliExitDiscipline(s, "R1")
		jsonTextAsData(s, "R1")
	})
	if eb := c.P.LangFunc("(*Evaluator).evalBinaryExpr"); eb != nil {
		c.shared("R7", "C05/R4", "division by zero is a fault that stops the run: every float division / integer remainder in the evaluator is dominated by the zero test and the error return", nil, func(s *Ctx) { c05ZeroGuard(s, eb) })
	}
	if eb := c.P.LangFunc("(*Evaluator).evalBinaryExpr"); eb != nil {
		c.shared("R9", "C05/R7", "an invalid regex is a fault at every evaluation: the pattern is compiled in this evaluation and the compile error is returned (a compiled regex remembered from an earlier evaluation would hide it)", ruleIs("R7"), func(s *Ctx) { c05Regex(s, eb) })
	}
	c.shared("R10", "C05/R8", "comparing containers is a fault whatever the other operand is: Compare rejects arrays and objects before any comparison", keyHas("Compare containers"), c05Coercions)
	c.shared("R8", "C13/R5", "a syntax error anywhere pre-empts execution only if the lexer reads the whole text: EOF is produced only at the real end of the text, never on a byte value", keyHas("eof-at-end-only"), c13Operators)
}

// frozen exceptions of the dropped-error rule: (caller, callee) -> reason
var dropExceptions = map[string]string{
	"lang.NewEvaluator -> (*lang.Evaluator).pushFrame": "the evaluator was just built: the stack is empty, depth 0 cannot exceed the limit, so pushFrame cannot fail here",
	"lang.getArrayPrototype$6 -> lang.copyValue":       "sort clones elements with copyValue, which only fails for function-tagged values; array elements are only ever written by copyValue / NewValue of decoded JSON / NewCell of an already-copied argument, none of which can hold a function",
}

func isDropException(s *ErrSite) (string, bool) {
	callee := calleeName(s.Call.Common())
	k := shortName(s.Fn) + " -> " + callee
	if r, ok := dropExceptions[k]; ok {
		return r, true
	}
	// the sort closure is identified structurally as well (closure numbering may change):
	// a closure of getArrayPrototype calling copyValue into a freshly made clone slice
	if callee == "lang.copyValue" && s.Fn.Parent() != nil && shortName(s.Fn.Parent()) == "lang.getArrayPrototype" {
		return dropExceptions["lang.getArrayPrototype$6 -> lang.copyValue"], true
	}
	return "", false
}

// R1 no-dropped-error (S4)
func c11R1(c *Ctx, rule string) {
	p := c.P
	sites := ErrSites(p)
	c.note("%s no-dropped-error: every call in lang+cli whose callee is a module function with an error result, or one of %d listed library calls, must have that result read. Exceptions (argued by reading, not re-derived):", rule, len(foreignErrCallees))
	for k, v := range dropExceptions {
		c.note("  exception %s: %s", k, v)
	}
	n := 0
	for _, s := range sites {
		if strings.HasPrefix(shortName(s.Fn), "cli.debug") {
			continue // -dbg-ast / -dbg-lex developer flags are out of scope
		}
		if shortName(s.Fn) == "cli.Run" && calleeName(s.Call.Common()) == "os.Create" {
			if str, ok := constString(s.Call.Common().Args[0]); ok && str == "jqawk.prof" {
				continue // the -profile developer flag's output file: not part of any property
			}
		}
		n++
		if !s.Dropped {
			c.ok(rule, s.Key, p.InstrPos(s.Call), "error result is read")
			continue
		}
		if why, ok := isDropException(s); ok {
			c.ok(rule, s.Key, p.InstrPos(s.Call), "dropped, frozen exception: "+why)
			continue
		}
		c.violated(rule, s.Key, p.InstrPos(s.Call), "error result dropped: "+s.DropWhy+"; a failure signalled by the callee is silently ignored and evaluation/parsing carries on")
	}
	c.Analysed["error_valued_call_sites"] = n
	c.floor(rule, 150)
}

// the designed consumers of control-flow sentinels
type consumption struct {
	fn, callee, arg string
	kinds           []string
	why             string
}

var consumptionOracle = []consumption{
	{"(*lang.Evaluator).evalStatement", "(*lang.Evaluator).evalStatement", "StatementWhile.Body", []string{"errBreak", "errContinue"}, "while consumes break/continue raised in its body"},
	{"(*lang.Evaluator).evalStatement", "(*lang.Evaluator).evalStatement", "StatementFor.Body", []string{"errBreak", "errContinue"}, "for consumes break/continue raised in its body"},
	{"(*lang.Evaluator).evalStatement", "(*lang.Evaluator).evalStatement", "StatementForIn.Body", []string{"errBreak", "errContinue"}, "for-in consumes break/continue raised in its body"},
	{"(*lang.Evaluator).callFunction", "(*lang.Evaluator).evalStatement", "ExprFunction.Body", []string{"errReturn"}, "a call consumes return raised in the function body"},
	{"(*lang.Evaluator).evalRules", "(*lang.Evaluator).evalStatement", "Rule.Body", []string{"errNext"}, "next abandons the remaining rules for this element"},
	{"(*lang.Evaluator).evalRules", "(*lang.Evaluator).evalExpr", "Rule.Pattern", []string{"errNext"}, "next raised while a pattern is evaluated abandons the remaining rules for this element"},
	{"lang.EvalProgram", "(*lang.Evaluator).evalStatement", "Rule.Body", []string{"errExit", "errNext"}, "BEGIN/END/BEGINFILE/ENDFILE drivers: exit ends the run successfully, next ends that rule only"},
	{"lang.EvalProgram", "(*lang.Evaluator).evalPatternRules", "Evaluator.patternRules", []string{"errExit"}, "exit ends the run successfully"},
}

// R2 no-swallowed-error (S2/S3)
func c11R2(c *Ctx, rule string) {
	p := c.P
	ek := EKOf(p)
	c.note("%s no-swallowed-error: for every error result of a module callee inside a function of package lang that itself returns an error, the non-nil kinds are followed along all paths; reaching `return …, nil`, or the same call again, with kinds still pending is a swallow. Allowed swallows (designed consumers):", rule)
	matched := make([]int, len(consumptionOracle))
	for i, co := range consumptionOracle {
		c.note("  consumer %s: %s(%s) may consume %v — %s", co.fn, co.callee, co.arg, co.kinds, co.why)
		_ = i
	}
	for _, s := range ErrSites(p) {
		if !s.Module || !p.InLang(s.Fn) || s.Swallow == nil || s.Dropped {
			continue
		}
		if errResultIndex(s.Fn.Signature) < 0 {
			continue
		}
		var allowed Kinds
		for i, co := range consumptionOracle {
			viaHelper := false
			if h := s.Call.Common().StaticCallee(); h != nil && co.fn == shortName(s.Fn) && h != s.Fn && p.inClusterOf(s.Fn, h) {
				// the consumed call sits in a helper split off the consumer, which hands its error back
				for _, hs := range ErrSites(p) {
					if hs.Fn == h && calleeName(hs.Call.Common()) == co.callee && hs.ArgDesc == co.arg {
						viaHelper = true
					}
				}
			}
			if viaHelper || (co.fn == shortName(s.Fn) || p.inClusterOf(p.funcByShortName(co.fn), s.Fn)) && co.callee == calleeName(s.Call.Common()) && (co.arg == s.ArgDesc || s.ArgDesc == "" && co.arg == "Evaluator.patternRules") {
				matched[i]++
				for _, k := range co.kinds {
					allowed |= ek.Sentinel(k)
				}
			}
		}
		bad := s.Swallow.Swallowed &^ allowed
		if bad == 0 {
			d := "every non-nil kind " + ek.kindNames(s.Swallow.Kinds) + " is returned or converted"
			if s.Swallow.Swallowed != 0 {
				d += "; consumes " + ek.kindNames(s.Swallow.Swallowed) + " (designed consumer)"
			}
			c.ok(rule, s.Key, p.InstrPos(s.Call), d)
			continue
		}
		var where []string
		for k, w := range s.Swallow.Where {
			if k&bad != 0 {
				where = append(where, ek.kindNames(k&bad)+": "+w)
			}
		}
		c.violated(rule, s.Key, p.InstrPos(s.Call), fmt.Sprintf("a non-nil error of kind %s from this call can be swallowed (%s); allowed here: %s", ek.kindNames(bad), strings.Join(where, "; "), ek.kindNames(allowed)))
	}
	for i, co := range consumptionOracle {
		if matched[i] == 0 {
			c.undecided(rule, fmt.Sprintf("consumer-row %s -> %s(%s)", co.fn, co.callee, co.arg), "", "no call site matches this row of the consumption table: the anchor moved or was renamed")
		}
	}
	c.floor(rule, 80)
}

package main

import (
	"fmt"
	"go/ast"
	"go/token"
	"go/types"
	"sort"
	"strings"

	"golang.org/x/tools/go/ssa"
)

func init() {
	register(&ruleSet{
		id:    "C12",
		title: "reported error positions are consistent with, and point into, the program text",
		run:   runC12,
		decided: "every SyntaxError / RuntimeError value is built in one of three funnel functions, each of which fills Line, Col and SrcLine from the three results of one GetLineAndCol call on the lexer that owns the program text, unmodified; the offset / token handed to a funnel is derived from the node being evaluated, the parser's current token or the lexer's cursor — never a constant or a zero token; synthetic tokens copy the position of the real operator; no lexical error is dropped by the parser (a dropped one is reported later from a stale cursor); the CLI renders exactly the fields of the error it was given." +
			" No err.Error() is applied to an error that already carries a position (no re-positioning at another node); on every path to the `unexpected character` error exactly one byte has been consumed since the token start, so cursor-1 is that byte." +
			" GetLineAndCol compares the position with every byte offset of the text (not with rune starts)." +
			" A lexical error is positioned at the token's first byte or the byte just consumed; a parser error whose test looks only at the consumed token is not positioned at the cursor." +
			" The parser's cursor points to freshly allocated tokens only. A statement-context error (break / continue / return out of place) positioned at the cursor is raised before the cursor has moved past the keyword; the parser hands every sub-parser error on unchanged (no rewind-and-retry that reports a different token).",
		notDecided: "that GetLineAndCol returns the right line / column / text for every byte offset is decided only as a shape oracle of its one-scan algorithm (R7: every byte offset is compared with the position, which is what the defect named in the property's why_tests_cant violated; R8: line counter, line start, column and quoted text are updated as the oracle says); a different algorithm is UNDECIDED. Which token a node's representative token is (ast.go Token methods) is not decided.",
	})
}

func runC12(c *Ctx) {
	defer c12IllegalChar(c)
	defer c12OffsetScan(c)
	tokenStorageFresh(c, "R10")
	eofTokenPosition(c, "R14")
	unterminatedLiteralPosition(c, "R14")
	defer c.shared("R13", "C06/R9", "a node's position is that of the token it was parsed from: the parser keeps no node or token beyond the cursor, so nothing parsed earlier is handed out again for a later occurrence", keyHas("parser-state"), runC06)
	defer c.shared("R12", "C11/R2", "the error reported is the first fault met: the parser hands every error of a sub-parser on unchanged — it does not discard it, rewind and report what a second attempt at the same text finds (a different token, possibly on another line)", func(o Obligation) bool {
		return !strings.HasPrefix(o.Key, "(*lang.Evaluator)") && !strings.HasPrefix(o.Key, "cli.")
	}, func(s *Ctx) { c11R2(s, "R2") })
	defer c.shared("R15", "C13/R6", "an `expected X` error points at the token that was found: the layout flag is read by the statement-end test only — not to move the error to the end of the previous token, which is the newline byte itself when that token ends its line", keyHas("flag-read"), c13NewlineFlag)
	defer c.shared("R11", "C13/R3", "line N of an error is line N of the program: the lexer scans the text it was given, unchanged (not a trimmed or normalised copy whose offsets differ)", keyHas("lexer-source-unmodified"), runC13)
	defer c.shared("R9", "C01/R1", "every runtime error carries a position: the errors that leave the interpreter's entry points are SyntaxError / RuntimeError / JsonError values only — a raw error (an unwrapped `unknown variable`) has no line at all", keyHas("entry "), func(s *Ctx) { c01R1(s, scopeAgreement(s, "R2")) })
	defer c12LineColArithmetic(c)
	p := c.P
	c.note("R1 position-funnel: Lexer.error, Parser.error and Evaluator.error each return {Message: msg, Line: G#1, Col: G#2, SrcLine: G#0} with G = one GetLineAndCol(lexer, offset) call; no other function of package lang allocates or stores into a SyntaxError / RuntimeError.")
	type funnel struct{ name, want string }
	funnels := []funnel{
		{"(*Lexer).error", "lang.SyntaxError{Message: msg, Line: (*lang.Lexer).GetLineAndCol(l, pos)#1, Col: (*lang.Lexer).GetLineAndCol(l, pos)#2, SrcLine: (*lang.Lexer).GetLineAndCol(l, pos)#0}"},
		{"(*Parser).error", "lang.SyntaxError{Message: msg, Line: (*lang.Lexer).GetLineAndCol(p.lexer, pos)#1, Col: (*lang.Lexer).GetLineAndCol(p.lexer, pos)#2, SrcLine: (*lang.Lexer).GetLineAndCol(p.lexer, pos)#0}"},
		{"(*Evaluator).error", "lang.RuntimeError{Message: msg, Line: (*lang.Lexer).GetLineAndCol(e.lexer, token.Pos)#1, Col: (*lang.Lexer).GetLineAndCol(e.lexer, token.Pos)#2, SrcLine: (*lang.Lexer).GetLineAndCol(e.lexer, token.Pos)#0}"},
	}
	isFunnel := map[*ssa.Function]bool{}
	for _, f := range funnels {
		fn := p.LangFunc(f.name)
		if fn == nil {
			c.undecided("R1", "funnel "+f.name, "", "anchor not found")
			continue
		}
		isFunnel[fn] = true
		c.checkArm("R1", "funnel "+f.name, fn, armSpec{Results: []string{f.want}, Effects: []string{}, Source: "error constructors attach the position of a chosen token"})
		// exactly one GetLineAndCol call
		n := 0
		for _, call := range callsIn(fn) {
			if staticCalleeIs(call, "(*lang.Lexer).GetLineAndCol") {
				n++
			}
			// a funnel may hand over to another funnel (Parser.error = p.lexer.error): that one scans
			for _, g := range funnels {
				if g.name != f.name && call.Common().StaticCallee() != nil && call.Common().StaticCallee() == p.LangFunc(g.name) {
					n++
				}
			}
		}
		c.check(n == 1, "R1", "funnel-single-scan "+f.name, p.Pos(fn.Pos()), "one GetLineAndCol call supplies line, column and text", fmt.Sprintf("%d GetLineAndCol calls: line, column and text may come from different scans", n))
	}
	// no other construction
	for _, fn := range p.Funcs {
		if !p.InLang(fn) || isFunnel[fn] {
			continue
		}
		allInstrs(fn, func(in ssa.Instruction) {
			switch x := in.(type) {
			case *ssa.Alloc:
				if isLangNamed(x.Type(), "SyntaxError") || isLangNamed(x.Type(), "RuntimeError") {
					// a local that receives the whole value of a funnel call is fine
					if w := uniqueWholeStore(x); w != nil {
						if call, _ := callOf(w); call != nil && isFunnel[call.Call.StaticCallee()] {
							return
						}
						if _, isParam := w.(*ssa.Parameter); isParam {
							return // spilled value receiver / parameter
						}
					}
					c.violated("R1", "error-built-outside-funnel in "+shortName(fn), p.InstrPos(x), "a syntax / runtime error value is built outside the three funnel functions: its Line / Col / SrcLine do not come from the position scan")
				}
			case *ssa.Store:
				if sf, ok := fieldOfAddr(x.Addr); ok && sf.Struct != nil && (sf.Struct.Obj().Name() == "SyntaxError" || sf.Struct.Obj().Name() == "RuntimeError") {
					c.violated("R1", "error-field-store in "+shortName(fn), p.InstrPos(x), "field "+sf.Name+" of an error value is overwritten outside the funnel functions")
				}
			}
		})
	}
	// the lexer the evaluator / parser scan with is the one that owns the program text:
	// NewParser(&lex) and NewEvaluator(prog, &lex, ...) get the same lexer in both entry points
	for _, name := range []string{"EvalProgram", "EvalExpression"} {
		fn := p.LangFunc(name)
		if fn == nil {
			c.undecided("R1", "same-lexer "+name, "", "anchor not found")
			continue
		}
		var a, b string
		for _, call := range callsIn(fn) {
			if staticCalleeIs(call, "lang.NewParser") {
				a = p.Render(call.Common().Args[0])
			}
			if staticCalleeIs(call, "lang.NewEvaluator") {
				b = p.Render(call.Common().Args[1])
			}
		}
		c.check(a != "" && a == b, "R1", "same-lexer "+name, p.Pos(fn.Pos()), "parser and evaluator report positions against the same lexer (program text)", "the parser's lexer ("+a+") and the evaluator's lexer ("+b+") differ: runtime positions would be computed against another text")
	}

	// R2 position provenance
	c.note("R2 position-provenance: for every call of a funnel the position argument is derived (through field selections, Token() calls and +/-1) from a node parameter of the calling function, from Parser.current / a node's token, or from the lexer's cursor fields; it is never a constant or a zero Token{}.")
	n := 0
	// a private helper that hands one of its parameters to a funnel as the position (`fail(pos, msg)`)
	// forwards the obligation to its own call sites
	type posSite struct {
		cs  ssa.CallInstruction
		idx int
	}
	for fnl := range isFunnel {
		var work []posSite
		for _, cs := range p.CallSitesOf(fnl) {
			work = append(work, posSite{cs, 1})
		}
		forwarded := map[*ssa.Function]bool{}
		for len(work) > 0 {
			cs, argIdx := work[0].cs, work[0].idx
			work = work[1:]
			fn := cs.Parent()
			if !p.InLang(fn) || argIdx >= len(cs.Common().Args) {
				continue
			}
			arg := cs.Common().Args[argIdx]
			if prm, isPrm := arg.(*ssa.Parameter); isPrm && !isFunnel[fn] && fn.Parent() == nil && !ast.IsExported(fn.Name()) && !forwarded[fn] {
				k := -1
				for i, q := range fn.Params {
					if q == prm {
						k = i
					}
				}
				sites := p.CallSitesOf(fn)
				if k >= 0 && len(sites) > 0 {
					forwarded[fn] = true
					for _, s2 := range sites {
						work = append(work, posSite{s2, k})
					}
					c.ok("R2", "position-forwarded by "+shortName(fn), p.InstrPos(cs), fmt.Sprintf("the position is parameter %s of the helper: checked at its %d call sites", prm.Name(), len(sites)))
					continue
				}
			}
			n++
			r := p.Render(arg)
			key := fmt.Sprintf("position-of %s call #%d in %s", shortName(fnl), n, shortName(fn))
			okP := false
			switch shortName(fnl) {
			case "(*lang.Evaluator).error":
				okP = positionFromNode(p, fn, arg)
			case "(*lang.Parser).error":
				okP = strings.Contains(r, "p.current.Pos") || positionFromNode(p, fn, arg) || strings.Contains(r, ".Token().Pos")
			}
			if shortName(fnl) == "(*lang.Parser).error" && strings.Contains(r, "p.current.Pos") {
				// the error is about the token that was tested: a test that looks only at the token already
				// consumed (Parser.previous) must not be reported at the cursor, which is the token after it
				// (possibly on a later line)
				if cond := controllingCond(cs); cond != nil {
					prev, cur := readsParserToken(cond)
					c.check(!(prev && !cur), "R2", "tested-token-position in "+shortName(fn)+": "+p.RenderShort(cond), p.InstrPos(cs), "the error is positioned at the token its test looked at", "the test that leads to this error looks at the token already consumed (Parser.previous) but the error is positioned at Parser.current, the token after it: the line / column are those of the following token, not of the offending one")
				}
			}
			if shortName(fnl) == "(*lang.Parser).error" && strings.Contains(r, "p.current.Pos") {
				// a statement-context error (break outside a loop, return outside a function) is about the
				// keyword: it is raised while the keyword is still the cursor token, i.e. before this function
				// has moved the cursor
				if cond := controllingCond(cs); cond != nil {
					if flag := readsParserFlag(cond); flag != "" {
						moved := ""
						for _, call := range callsIn(fn) {
							if call == cs || isFunnel[call.Common().StaticCallee()] {
								continue
							}
							passes := false
							for _, a := range call.Common().Args {
								if pt, ok := a.Type().(*types.Pointer); ok && isLangNamed(pt.Elem(), "Parser") {
									passes = true
								}
							}
							if passes && (dominatesInstr(call, cs) || canReach(call, cs)) {
								moved = p.InstrPos(call)
								break
							}
						}
						c.check(moved == "", "R2", "context-error-position in "+shortName(fn)+": "+flag, p.InstrPos(cs), "the context error is raised at the cursor before the cursor moves: the position is the keyword's", "the error guarded by Parser."+flag+" is positioned at Parser.current after the parser has already moved on ("+moved+"): the keyword it complains about is consumed, so the line / column are those of the token after it (possibly on a later line)")
					}
				}
			}
			switch shortName(fnl) {
			case "(*lang.Lexer).error":
				okP = strings.Contains(r, "l.tokenStart") || strings.Contains(r, "l.pos") || r == "pos"
				// the position is that of a byte that exists and belongs to the token being read: its first
				// byte, or the byte just consumed. `tokenStart + k` may be the end of the text (no column is
				// found for it) or a newline that follows the token's first byte (reported on the next line).
				if okP {
					exists := r == "l.tokenStart" || r == "(l.pos - 1)" || r == "pos"
					c.check(exists, "R2", "lexer-position-exists "+r+" in "+shortName(fn), p.InstrPos(cs), "the first byte of the token or the byte just consumed", "a lexical error is positioned at "+r+", which need not be a byte of the offending token: at the end of the text no column is found for it (column 1 is reported), and when that byte is a newline the error is reported on the following line")
				}
			}
			if _, isConst := arg.(*ssa.Const); isConst {
				okP = false
			}
			if strings.HasPrefix(r, "lang.Token{}") || r == "lang.Token{}" {
				okP = false
			}
			c.check(okP, "R2", key, p.InstrPos(cs), "position "+r, "the position argument "+r+" is not derived from the failing construct (the node being evaluated, the parser's current token, or the lexer cursor)")
		}
	}
	if n < 35 {
		c.undecided("R2", "instance-floor", "", fmt.Sprintf("%d funnel calls found, 44 confirmed by hand", n))
	}
	// synthetic tokens keep the operator's position
	if rw := findCompoundRewriter(p, extractPratt(p)); rw != nil {
		cnt := 0
		allInstrs(rw, func(in ssa.Instruction) {
			st, ok := in.(*ssa.Store)
			if !ok {
				return
			}
			if sf, ok := fieldOfAddr(st.Addr); ok && sf.Is("Token", "Pos") {
				cnt++
				c.check(p.Render(st.Val) == "opToken.Pos", "R2", fmt.Sprintf("synthetic-token-position #%d", cnt), p.InstrPos(st), "Pos copied from the real operator token", "a synthetic token's Pos is "+p.Render(st.Val))
			}
		})
		if cnt < 2 {
			c.undecided("R2", "synthetic-token-position", p.Pos(rw.Pos()), fmt.Sprintf("%d synthetic token positions found, 2 expected", cnt))
		}
	} else {
		c.undecided("R2", "synthetic-token-position", "", "the compound-assignment rewriter was not found")
	}

	// R3 no-lost-lexical-error
	c.note("R3 no-lost-lexical-error: the parser subset of the dropped-error rule (C11/R1): every result of advance / consume / Lexer.Next / Lexer.Regex is read.")
	m := 0
	for _, s := range ErrSites(p) {
		if !strings.HasPrefix(shortName(s.Fn), "(*lang.Parser)") && !(s.Fn.Parent() == nil && isParselet(s.Fn)) {
			continue
		}
		m++
		if s.Dropped {
			c.violated("R3", s.Key, p.InstrPos(s.Call), "error result dropped ("+s.DropWhy+"): a lexical error met here is lost and a different error is reported later from a stale cursor, at a column that is not on the offending character")
		} else {
			c.ok("R3", s.Key, p.InstrPos(s.Call), "error result is read")
		}
	}
	if m < 80 {
		c.undecided("R3", "instance-floor", "", fmt.Sprintf("%d parser call sites with an error result, 100 confirmed by hand", m))
	}

	// R5 no re-positioning
	c.note("R5 no-repositioning: an error that already carries a position (SyntaxError, RuntimeError, JsonError) is never turned into text and re-created at another node: every err.Error() call in package lang is applied to an error whose kinds are raw / foreign (or a control-flow sentinel being named in a message).")
	{
		ek := EKOf(p)
		n := 0
		for _, fn := range p.Funcs {
			if !p.InLang(fn) || p.inTestFile(fn) {
				continue
			}
			for _, call := range callsIn(fn) {
				cc := call.Common()
				if !cc.IsInvoke() || cc.Method.Name() != "Error" || !isErrorType(cc.Value.Type()) {
					continue
				}
				n++
				k := ek.KindsPathwise(cc.Value, call.Block(), 6)
				bad := k & (KSyntax | KRuntime | KJson | KUnknown)
				key := fmt.Sprintf("error-text #%d in %s", n, shortName(fn))
				c.check(bad == 0, "R5", key, p.InstrPos(call), "text of a "+ek.kindNames(k)+" error", "the text of an error that may already be a positioned "+ek.kindNames(bad)+" is taken here to build a new error: the position the user sees is this node's, not the one where the fault is")
			}
		}
		if n < 12 {
			c.undecided("R5", "instance-floor", "", fmt.Sprintf("%d err.Error() sites in package lang, 18 confirmed by hand", n))
		}
	}

	// R4 cli rendering
	c.note("R4 cli-rendering: printError prints SrcLine, a caret at column Col+1, Line and Message of the error value it was given, for syntax and runtime errors alike.")
	pe := p.CliFunc("printError")
	if pe == nil {
		c.undecided("R4", "printError", "", "anchor cli.printError not found")
		return
	}
	var texts []string
	for _, rc := range p.renderedCallsDeep(pe) {
		if strings.HasPrefix(rc.Text, "fmt.Fprint") {
			texts = append(texts, rc.Text)
		}
	}
	got := setOf(texts)
	for _, kind := range []string{"SyntaxError", "RuntimeError"} {
		v := "err.(lang." + kind + ")#0"
		word := map[string]string{"SyntaxError": "syntax", "RuntimeError": "runtime"}[kind]
		want := []string{
			`fmt.Fprintf(Stderr, "  %s\n", [` + v + `.SrcLine][:])`,
			`fmt.Fprintf(Stderr, "  %*s\n", [(` + v + `.Col + 1), "^"][:])`,
			`fmt.Fprintf(Stderr, "` + word + ` error on line %d: %s\n", [` + v + `.Line, ` + v + `.Message][:])`,
		}
		// the kind word may be part of the format or its first argument
		alt := `fmt.Fprintf(Stderr, "%s error on line %d: %s\n", ["` + word + `", ` + v + `.Line, ` + v + `.Message][:])`
		for i, w := range want {
			c.check(got[w] || (i == 2 && got[alt]), "R4", fmt.Sprintf("render %s line %d", kind, i+1), p.Pos(pe.Pos()), w, "printError does not perform "+w)
		}
	}
}

// positionFromNode: the value derives from a parameter of fn that is an AST node (or from a
// type-switch binding of it), through Token() calls, field selections and conversions.
func positionFromNode(p *Program, fn *ssa.Function, v ssa.Value) bool {
	seen := map[ssa.Value]bool{}
	var rec func(v ssa.Value, d int) bool
	rec = func(v ssa.Value, d int) bool {
		if d > 14 || seen[v] {
			return false
		}
		seen[v] = true
		switch x := v.(type) {
		case *ssa.Parameter:
			return isNodeType(x.Type())
		case *ssa.Call:
			cc := x.Common()
			if isNodeType(x.Type()) {
				return true // a node produced by the parser (the selector's root expression)
			}
			if cc.IsInvoke() && cc.Method.Name() == "Token" {
				return rec(cc.Value, d+1)
			}
			if f := cc.StaticCallee(); f != nil && f.Name() == "Token" && len(cc.Args) == 1 {
				return rec(cc.Args[0], d+1)
			}
			return false
		case *ssa.UnOp:
			return rec(x.X, d+1)
		case *ssa.FieldAddr:
			return rec(x.X, d+1)
		case *ssa.Field:
			return rec(x.X, d+1)
		case *ssa.Extract:
			if isNodeType(x.Type()) {
				if call, ok := x.Tuple.(*ssa.Call); ok && strings.Contains(calleeName(call.Common()), "Parser") {
					return true
				}
			}
			return rec(x.Tuple, d+1)
		case *ssa.TypeAssert:
			return rec(x.X, d+1)
		case *ssa.IndexAddr:
			return rec(x.X, d+1)
		case *ssa.Index:
			return rec(x.X, d+1)
		case *ssa.MakeInterface:
			return rec(x.X, d+1)
		case *ssa.ChangeInterface:
			return rec(x.X, d+1)
		case *ssa.Phi:
			for _, e := range x.Edges {
				if !rec(e, d+1) {
					return false
				}
			}
			return len(x.Edges) > 0
		case *ssa.Alloc:
			if w := uniqueWholeStore(x); w != nil {
				return rec(w, d+1)
			}
		case *ssa.Next:
			return rec(x.Iter, d+1)
		case *ssa.Range:
			return rec(x.X, d+1)
		}
		return false
	}
	return rec(v, 0)
}

// R6 illegal-character-position
func c12IllegalChar(c *Ctx) {
	p := c.P
	c.note("R6 illegal-character-position: the `unexpected character` error of Lexer.Next is positioned at cursor-1; that is the offending byte exactly when one byte has been consumed since the token start was recorded. Obligation: on every path of Next from the store `tokenStart = pos` to that error return, exactly one call of Lexer.advance is executed (all paths enumerated; Next has no loop).")
	nx := p.LangFunc("(*Lexer).Next")
	if nx == nil {
		c.undecided("R6", "Next", "", "anchor (*Lexer).Next not found")
		return
	}
	var start *ssa.Store
	for _, st := range storesToField(nx, "Lexer", "tokenStart", false) {
		start = st
	}
	var target *ssa.Return
	for _, r := range returnsOf(nx) {
		if strings.Contains(p.Render(effectiveResults(r)[1]), "unexpected character") {
			target = r
		}
	}
	// the error may be raised in a helper of Next's own to which Next hands over in tail position
	// (`return l.operator(c)`): the paths are then those of Next up to the call followed by those of
	// the helper from its entry
	var handover ssa.CallInstruction
	errFn := nx
	if target == nil {
		for _, r := range returnsOf(nx) {
			ex, ok := effectiveResults(r)[0].(*ssa.Extract)
			if !ok {
				continue
			}
			hc, ok := ex.Tuple.(*ssa.Call)
			if !ok {
				continue
			}
			h := hc.Call.StaticCallee()
			if h == nil || !p.InLang(h) || h == nx || len(h.Blocks) == 0 || !isPrivateTo(p, h, nx) {
				continue
			}
			for _, hr := range returnsOf(h) {
				if strings.Contains(p.Render(effectiveResults(hr)[1]), "unexpected character") {
					target, handover, errFn = hr, hc, h
				}
			}
		}
	}
	if start == nil || target == nil {
		c.undecided("R6", "illegal-character-return", p.Pos(nx.Pos()), "the tokenStart store or the `unexpected character` return was not found in Next")
		return
	}
	// the reported offset is pos - 1
	pos := ""
	for _, call := range callsIn(errFn) {
		if staticCalleeIs(call, "(*lang.Lexer).error") && call.Block() == target.Block() {
			pos = p.RenderShort(call.Common().Args[1])
		}
	}
	if pos == "" {
		// or through a helper that hands its position parameter to the funnel (`l.fail(pos, msg)`)
		for _, call := range callsIn(errFn) {
			h := call.Common().StaticCallee()
			if h == nil || call.Block() != target.Block() || !p.InLang(h) {
				continue
			}
			for _, hc := range callsIn(h) {
				if !staticCalleeIs(hc, "(*lang.Lexer).error") {
					continue
				}
				for j, prm := range h.Params {
					if hc.Common().Args[1] == ssa.Value(prm) && j < len(call.Common().Args) {
						pos = p.RenderShort(call.Common().Args[j])
					}
				}
			}
		}
	}
	if pos == "" {
		// the funnel may be inlined by the renderer: take the offset from the rendered error
		r := p.Render(effectiveResults(target)[1])
		if strings.Contains(r, "GetLineAndCol(l, (l.pos - 1))") {
			pos = "(l.pos - 1)"
		} else if strings.Contains(r, "GetLineAndCol(l, l.tokenStart)") {
			pos = "l.tokenStart"
		}
	}
	advancesIn := func(b *ssa.BasicBlock, after, before ssa.Instruction) int {
		n := 0
		for _, in := range b.Instrs {
			if after != nil && in.Block() == after.Block() && instrIndex(in) <= instrIndex(after) {
				continue
			}
			if before != nil && in.Block() == before.Block() && instrIndex(in) >= instrIndex(before) {
				continue
			}
			if call, ok := in.(ssa.CallInstruction); ok && staticCalleeIs(call, "(*lang.Lexer).advance") {
				n++
			}
			// a direct cursor move counts as well
			if st, ok := in.(*ssa.Store); ok {
				if sf, ok := fieldOfAddr(st.Addr); ok && sf.Is("Lexer", "pos") {
					n++
				}
			}
		}
		return n
	}
	paths := 0
	overflow := false
	// enumerate: number of cursor steps on each path from (from, after) to (to, before)
	enumerate := func(from *ssa.BasicBlock, after ssa.Instruction, to *ssa.BasicBlock, before ssa.Instruction) map[int]int {
		out := map[int]int{}
		onPath := map[*ssa.BasicBlock]bool{}
		var dfs func(b *ssa.BasicBlock, n int)
		dfs = func(b *ssa.BasicBlock, n int) {
			if overflow {
				return
			}
			if onPath[b] {
				overflow = true // a cycle: not expected in Next
				return
			}
			var aft, bef ssa.Instruction
			if b == from {
				aft = after
			}
			if b == to {
				bef = before
			}
			n += advancesIn(b, aft, bef)
			if b == to {
				out[n]++
				paths++
				if paths > 20000 {
					overflow = true
				}
				return
			}
			onPath[b] = true
			for _, s := range b.Succs {
				dfs(s, n)
			}
			onPath[b] = false
		}
		dfs(from, 0)
		return out
	}
	counts := map[int]int{}
	if handover == nil {
		counts = enumerate(start.Block(), start, target.Block(), target)
	} else {
		first := enumerate(start.Block(), start, handover.Block(), handover)
		second := enumerate(errFn.Blocks[0], nil, target.Block(), target)
		for a, na := range first {
			for b, nb := range second {
				counts[a+b] += na * nb
			}
		}
	}
	if overflow || paths == 0 {
		c.undecided("R6", "illegal-character-position", p.InstrPos(target), "the paths from the token start to the `unexpected character` return could not be enumerated (cycle or too many paths)")
		return
	}
	c.Analysed["illegal_char_paths"] = paths
	want := map[string]int{"(l.pos - 1)": 1, "l.tokenStart": -1}
	w, known := want[pos]
	if !known {
		c.violated("R6", "illegal-character-position", p.InstrPos(target), "the `unexpected character` error is positioned at "+pos+", neither cursor-1 nor the token start")
		return
	}
	if w == -1 {
		c.ok("R6", "illegal-character-position", p.InstrPos(target), "positioned at the recorded token start")
		return
	}
	var bad []string
	for n, k := range counts {
		if n != 1 {
			bad = append(bad, fmt.Sprintf("%d path(s) with %d advance calls", k, n))
		}
	}
	sort.Strings(bad)
	c.check(len(bad) == 0, "R6", "illegal-character-position", p.InstrPos(target), fmt.Sprintf("exactly one byte consumed on each of the %d paths, so cursor-1 is the offending byte", paths), "the error is positioned at cursor-1 but "+strings.Join(bad, ", ")+" reach it: for those the reported column is not on the illegal character (and may fall on the next line)")
}

// R7 every-byte-offset-is-found
func c12OffsetScan(c *Ctx) {
	p := c.P
	c.note("R7 every-offset-is-found: error positions are byte offsets (the lexer's cursor, cursor-1, token starts), and the lexer advances byte by byte, so an offset can fall inside a multi-byte character. GetLineAndCol must therefore compare its position argument with every byte offset of the text: the value compared with the position parameter must not be the index of a `range` over the string (which only yields the offsets where a character starts — any other offset falls through to the last line).")
	gl := p.LangFunc("(*Lexer).GetLineAndCol")
	if gl == nil {
		c.undecided("R7", "GetLineAndCol", "", "anchor (*Lexer).GetLineAndCol not found")
		return
	}
	var pos *ssa.Parameter
	for _, prm := range gl.Params[1:] {
		if b, ok := prm.Type().Underlying().(*types.Basic); ok && b.Info()&types.IsInteger != 0 {
			pos = prm
		}
	}
	if pos == nil {
		c.undecided("R7", "position-parameter", p.Pos(gl.Pos()), "GetLineAndCol has no integer position parameter")
		return
	}
	n := 0
	allInstrs(gl, func(in ssa.Instruction) {
		b, ok := in.(*ssa.BinOp)
		if !ok || (b.X != ssa.Value(pos) && b.Y != ssa.Value(pos)) {
			return
		}
		other := b.X
		if other == ssa.Value(pos) {
			other = b.Y
		}
		n++
		runeIndex := false
		if ex, ok := other.(*ssa.Extract); ok {
			if nx, ok := ex.Tuple.(*ssa.Next); ok && nx.IsString {
				runeIndex = true
			}
		}
		c.check(!runeIndex, "R7", fmt.Sprintf("offset-comparison #%d", n), p.InstrPos(b), "the position is compared with a byte index", "the position is compared with the index of a range over the string, which skips the offsets inside multi-byte characters: an error at such an offset (an illegal character after a non-ASCII byte) is reported on the last line of the program with an unrelated source line")
	})
	if n == 0 {
		c.undecided("R7", "offset-comparison", p.Pos(gl.Pos()), "GetLineAndCol never compares its position parameter")
	}
}

// R8 line / column arithmetic of the position funnel (shape oracle)
func c12LineColArithmetic(c *Ctx) {
	p := c.P
	c.note("R8 line-column-arithmetic: GetLineAndCol is one scan over the byte offsets i of the text. Oracle for that scan: the line counter starts at 1 and `+ 1` happens exactly under src[i] == '\\n'; the line start becomes i + 1 under the same test; the column is i - lineStart, assigned under i == pos; the returned source line is src[lineStart:i] at the newline that follows the position, or src[lineStart:] at the end of the text. A different algorithm is not recognised (UNDECIDED), whatever it computes.")
	gl := p.LangFunc("(*Lexer).GetLineAndCol")
	if gl == nil {
		c.undecided("R8", "GetLineAndCol", "", "anchor not found")
		return
	}
	F := FactsOf(gl)
	var pos *ssa.Parameter
	for _, prm := range gl.Params[1:] {
		if b, ok := prm.Type().Underlying().(*types.Basic); ok && b.Info()&types.IsInteger != 0 {
			pos = prm
		}
	}
	// the index: the loop-carried integer compared with pos
	// (the index of an index loop, or of a range over the bytes: rangeindex phi + 1)
	var idx ssa.Value
	allInstrs(gl, func(in ssa.Instruction) {
		b, ok := in.(*ssa.BinOp)
		if !ok || (b.Op != token.EQL && b.Op != token.NEQ) {
			return
		}
		for _, pair := range [][2]ssa.Value{{b.X, b.Y}, {b.Y, b.X}} {
			if pair[1] == ssa.Value(pos) {
				if ph, ok := pair[0].(*ssa.Phi); ok && loopCarried(ph) {
					idx = ph
				}
				if bo, ok := pair[0].(*ssa.BinOp); ok && bo.Op == token.ADD {
					if ph, ok := bo.X.(*ssa.Phi); ok && ph.Comment == "rangeindex" {
						idx = bo
					}
				}
			}
		}
	})
	if idx == nil || pos == nil {
		c.undecided("R8", "scan-index", p.Pos(gl.Pos()), "no loop index compared with the position parameter: the line / column computation is not the recognised scan")
		return
	}
	atNewline := func(b *ssa.BasicBlock) bool {
		for _, rl := range F.At(b).Rels() {

			if k, ok := constInt(rl.y); ok && k == '\n' && rl.op == relEQ {
				if u, ok := rl.x.(*ssa.UnOp); ok {
					if ia, ok := u.X.(*ssa.IndexAddr); ok && ia.Index == ssa.Value(idx) {
						return true
					}
				}
				if lk, ok := rl.x.(*ssa.Lookup); ok && lk.Index == ssa.Value(idx) {
					return true
				}
				if ix, ok := rl.x.(*ssa.Index); ok && ix.Index == ssa.Value(idx) {
					return true
				}
			}
		}
		return false
	}
	atPos := func(b *ssa.BasicBlock) bool {
		for _, rl := range F.At(b).Rels() {
			if rl.op == relEQ && ((rl.x == ssa.Value(idx) && rl.y == ssa.Value(pos)) || (rl.y == ssa.Value(idx) && rl.x == ssa.Value(pos))) {
				return true
			}
		}
		return false
	}
	nLine, nStart, nCol := 0, 0, 0
	okLine, okStart, okCol := true, true, true
	allInstrs(gl, func(in ssa.Instruction) {
		b, ok := in.(*ssa.BinOp)
		if !ok {
			return
		}
		one, isOne := constInt(b.Y)
		switch {
		case ssa.Value(b) == idx:
			// the index of a range loop, itself `rangeindex + 1`
		case b.Op == token.ADD && isOne && one == 1 && b.X == ssa.Value(idx):
			// i + 1: the loop step (in the latch) or the new line start (under the newline test)
			if atNewline(b.Block()) {
				nStart++
			}
		case b.Op == token.ADD && isOne && one == 1:
			// some other counter + 1: the line counter
			if ph, ok := b.X.(*ssa.Phi); ok && loopCarried(ph) {
				nLine++
				if !atNewline(b.Block()) {
					okLine = false
				}
				init := false
				for _, e := range ph.Edges {
					if k, ok := constInt(e); ok && k == 1 {
						init = true
					}
				}
				if !init {
					okLine = false
				}
			}
		case b.Op == token.SUB && b.X == ssa.Value(idx):
			nCol++
			if !atPos(b.Block()) {
				okCol = false
			}
			// the subtrahend is the line start: a loop-carried value starting at 0, or i + 1
			okSub := false
			var walk func(v ssa.Value, d int) bool
			walk = func(v ssa.Value, d int) bool {
				if d > 4 {
					return false
				}
				switch x := v.(type) {
				case *ssa.Phi:
					for _, e := range x.Edges {
						if k, ok := constInt(e); ok && k == 0 {
							return true
						}
						if e != ssa.Value(x) && walk(e, d+1) {
							return true
						}
					}
				case *ssa.BinOp:
					o, isO := constInt(x.Y)
					return x.Op == token.ADD && isO && o == 1 && x.X == ssa.Value(idx)
				}
				return false
			}
			okSub = walk(b.Y, 0)
			if !okSub {
				okCol = false
			}
		}
	})
	_ = okStart
	c.check(nLine == 1 && okLine, "R8", "line-counter", p.Pos(gl.Pos()), "line = 1 + number of '\\n' bytes before the position", fmt.Sprintf("the line counter is not `starts at 1, + 1 exactly at a '\\n' byte` (%d increments found)", nLine))
	c.check(nStart >= 1, "R8", "line-start", p.Pos(gl.Pos()), "lineStart = i + 1 at a '\\n' byte", "no `i + 1` under the newline test: the start of the current line is not the byte after the last newline")
	c.check(nCol == 1 && okCol, "R8", "column", p.Pos(gl.Pos()), "col = i - lineStart where i == pos", fmt.Sprintf("the column is not `i - lineStart` assigned under i == pos (%d candidate subtractions)", nCol))
	// the returned line text
	var texts []string
	for _, r := range returnsOf(gl) {
		if sl, ok := effectiveResults(r)[0].(*ssa.Slice); ok {
			form := "src[lineStart:"
			switch {
			case sl.High == nil:
				form += "]"
			case sl.High == ssa.Value(idx) && atNewline(r.Block()):
				form += "i] at a newline"
			default:
				form += "?]"
			}
			texts = append(texts, form)
		} else {
			texts = append(texts, "?")
		}
	}
	sort.Strings(texts)
	c.check(strings.Join(texts, " ; ") == "src[lineStart:] ; src[lineStart:i] at a newline", "R8", "source-line", p.Pos(gl.Pos()), "the quoted line runs from the line start to the next newline (or the end of the text)", "the returned source line is {"+strings.Join(texts, " ; ")+"}")
}

// controllingCond: the condition of the nearest branch that decides whether the instruction is
// reached (the If of the closest dominator one of whose edges does not lead to it).
func controllingCond(in ssa.Instruction) ssa.Value {
	b := in.Block()
	for d := b.Idom(); d != nil; d = d.Idom() {
		ifi, ok := d.Instrs[len(d.Instrs)-1].(*ssa.If)
		if !ok {
			continue
		}
		r0 := d.Succs[0] == b || reachableFrom([]*ssa.BasicBlock{d.Succs[0]}, map[*ssa.BasicBlock]bool{d: true})[b]
		r1 := d.Succs[1] == b || reachableFrom([]*ssa.BasicBlock{d.Succs[1]}, map[*ssa.BasicBlock]bool{d: true})[b]
		if r0 != r1 {
			return ifi.Cond
		}
	}
	return nil
}

// readsParserToken: does the value depend on Parser.previous / Parser.current (through loads, field
// selections, operators, conversions and call arguments)?
func readsParserToken(v ssa.Value) (prev, cur bool) {
	seen := map[ssa.Value]bool{}
	var walk func(v ssa.Value, d int)
	walk = func(v ssa.Value, d int) {
		if v == nil || seen[v] || d > 10 {
			return
		}
		seen[v] = true
		if fa, ok := v.(*ssa.FieldAddr); ok {
			if sf, ok := fieldOfAddr(fa); ok && sf.Struct != nil && sf.Struct.Obj().Name() == "Parser" {
				switch sf.Name {
				case "previous":
					prev = true
				case "current":
					cur = true
				}
			}
		}
		in, ok := v.(ssa.Instruction)
		if !ok {
			return
		}
		if _, isPhi := v.(*ssa.Phi); isPhi {
			return
		}
		for _, op := range in.Operands(nil) {
			if *op != nil {
				walk(*op, d+1)
			}
		}
	}
	walk(v, 0)
	return
}

// readsParserFlag: the boolean context flag of the parser (inLoop, inFunction, ...) a condition reads,
// "" when none. The statement-end flag is cursor state, not context.
func readsParserFlag(v ssa.Value) string {
	seen := map[ssa.Value]bool{}
	out := ""
	var walk func(v ssa.Value, d int)
	walk = func(v ssa.Value, d int) {
		if v == nil || seen[v] || d > 10 {
			return
		}
		seen[v] = true
		if fa, ok := v.(*ssa.FieldAddr); ok {
			if sf, ok := fieldOfAddr(fa); ok && sf.Struct != nil && sf.Struct.Obj().Name() == "Parser" && sf.Name != "didEndStatement" {
				if pt, ok := fa.Type().(*types.Pointer); ok && isBoolType(pt.Elem()) {
					out = sf.Name
				}
			}
		}
		in, ok := v.(ssa.Instruction)
		if !ok {
			return
		}
		if _, isPhi := v.(*ssa.Phi); isPhi {
			return
		}
		for _, op := range in.Operands(nil) {
			if *op != nil {
				walk(*op, d+1)
			}
		}
	}
	walk(v, 0)
	return out
}

// tokenStorageFresh: a token keeps its storage. Parselets hold on to *Token pointers taken from the
// cursor while they parse on (array, member, index, is), and read them afterwards for the position
// of the node they build.
func tokenStorageFresh(c *Ctx, rule string) {
	p := c.P
	c.note("%s token-storage-fresh: every store to Parser.current / Parser.previous is the address of a token allocated in that call, or a copy of one of these two fields: the cursor never points into storage that a later advance overwrites, so a *Token kept by a parselet still denotes the token it was taken for (and the position of the node built from it is that token's).", rule)
	n := 0
	for _, fn := range p.Funcs {
		if !p.InLang(fn) || p.inTestFile(fn) {
			continue
		}
		for _, field := range []string{"current", "previous"} {
			for _, st := range storesToField(fn, "Parser", field, false) {
				n++
				var ok func(v ssa.Value, d int) bool
				ok = func(v ssa.Value, d int) bool {
					if d > 6 {
						return false
					}
					switch x := v.(type) {
					case *ssa.Alloc:
						return true
					case *ssa.UnOp:
						if x.Op != token.MUL {
							return false
						}
						if sf, isF := fieldOfAddr(x.X); isF && (sf.Is("Parser", "current") || sf.Is("Parser", "previous")) {
							return true
						}
						if a, isA := x.X.(*ssa.Alloc); isA {
							for _, r := range referrersOf(a) {
								if s2, isS := r.(*ssa.Store); isS && s2.Addr == ssa.Value(a) && !ok(s2.Val, d+1) {
									return false
								}
							}
							return true
						}
					case *ssa.Phi:
						for _, e := range x.Edges {
							if e != ssa.Value(x) && !ok(e, d+1) {
								return false
							}
						}
						return true
					case *ssa.Const:
						return x.IsNil()
					}
					return false
				}
				c.check(ok(st.Val, 0), rule, fmt.Sprintf("token-storage-fresh Parser.%s #%d in %s", field, n, shortName(fn)), p.InstrPos(st), "a freshly allocated token or the other cursor field", "Parser."+field+" is set to "+p.RenderShort(st.Val)+", storage that a later advance overwrites: a *Token a parselet kept (the `[` of an array literal, the `.` of a member access) then denotes a later token, and the node's error position moves past the construct")
			}
		}
	}
	if n < 3 {
		c.undecided(rule, "token-storage-fresh instance-floor", "", fmt.Sprintf("%d stores to the parser's cursor found, 4 expected", n))
	}
}

// eofTokenPosition (R14): a syntax error at the end of the program is positioned on the end-of-input
// token. GetLineAndCol's scan visits the offsets 0 … len(src)-1 only; the offset len(src) falls through
// to the last line with the column's initial value. The EOF token therefore carries the start of the
// token before it: Next returns it before it records a new token start.
func eofTokenPosition(c *Ctx, rule string) {
	p := c.P
	nx := p.LangFunc("(*Lexer).Next")
	if nx == nil {
		c.undecided(rule, "eof-token-position", "", "anchor (*Lexer).Next not found")
		return
	}
	c.note("%s eof-token-position: no store to Lexer.tokenStart in Next dominates the return of the EOF token (the token then carries the previous token's start, an offset the line/column scan visits; len(src) is not one).", rule)
	n := 0
	for _, rc := range p.successResults(nx) {
		if !strings.Contains(rc.Value, "Tag: EOF") {
			continue
		}
		n++
		moved := ""
		for _, st := range storesToField(nx, "Lexer", "tokenStart", false) {
			if dominatesInstr(st, rc.Ret) {
				moved = p.InstrPos(st)
			}
		}
		c.check(moved == "", rule, fmt.Sprintf("eof-token-position #%d", n), p.InstrPos(rc.Ret), "the EOF token keeps the last token's start", "Next records a new token start (at "+moved+") before it returns the EOF token: at the end of the text that offset is len(src), which the line/column scan never reaches — every error on the end of input is reported in column 1 of the last line")
	}
	if n == 0 {
		c.undecided(rule, "eof-token-position", p.Pos(nx.Pos()), "no EOF token result found in Next")
	}
}

// unterminatedLiteralPosition (R14): a string or regex literal may run over line breaks, so when the
// input ends inside one the only offset known to lie on the line of the fault is the opening
// delimiter's: the `unexpected EOF` errors of the lexer are positioned at the token start (the last
// byte consumed may be the newline that ends the program, whose "line" is the empty one after it).
func unterminatedLiteralPosition(c *Ctx, rule string) {
	p := c.P
	c.note("%s unterminated-literal-position: every call of Lexer.error whose message starts with `unexpected EOF` passes l.tokenStart as the position.", rule)
	n := 0
	for _, fn := range p.Funcs {
		if !p.InLang(fn) || p.inTestFile(fn) {
			continue
		}
		for _, call := range callsIn(fn) {
			// Lexer.error itself, or a helper of the lexer that hands position and message on to it
			// (l.fail(pos, msg)): the call that names the message names the position
			callee := call.Common().StaticCallee()
			if callee == nil || callee.Signature.Recv() == nil || !strings.HasPrefix(shortName(callee), "(*lang.Lexer).") {
				continue
			}
			msgAt, posAt := -1, -1
			for i, a := range call.Common().Args {
				if i == 0 {
					continue
				}
				if b, ok := a.Type().Underlying().(*types.Basic); ok && b.Kind() == types.Int && posAt < 0 {
					posAt = i
				}
				if b, ok := a.Type().Underlying().(*types.Basic); ok && b.Kind() == types.String && strings.Contains(p.Render(a), "unexpected EOF") {
					msgAt = i
				}
			}
			if msgAt < 0 || posAt < 0 {
				continue
			}
			n++
			pos := p.Render(call.Common().Args[posAt])
			c.check(pos == "l.tokenStart", rule, fmt.Sprintf("unterminated-literal-position %s #%d", shortName(fn), n), p.InstrPos(call), "positioned at the token start", "the `unexpected EOF` error of an unterminated literal is positioned at "+pos+", not at the opening delimiter: when the program ends in a newline that offset is the newline itself, and the error names the empty line after the program (column -1) instead of the line the literal starts on")
		}
	}
	if n < 1 {
		c.undecided(rule, "unterminated-literal-position", "", fmt.Sprintf("%d `unexpected EOF` errors found in the lexer (string and regex today)", n))
	}
}

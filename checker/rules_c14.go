package main

import (
	"fmt"
	"go/token"
	"go/types"
	"regexp"
	"sort"
	"strings"

	"golang.org/x/tools/go/ssa"
)

func init() {
	register(&ruleSet{
		id:    "C14",
		title: "the command line is a faithful wrapper",
		run:   runC14,
		decided: "exit discipline: every error source of cli.Run is tested, its failure edge writes a diagnostic to stderr and returns a non-zero constant, `return 0` is only reachable with every dominating error source known nil, and main passes Run's result to os.Exit unchanged; argument fidelity: the program text handed to the interpreter is the -f file's bytes or the first argument unchanged, the file list is the remaining arguments in order, each opened once and handed over as the reader itself (no read-ahead wrapper), stdin as os.Stdin under the name <stdin>, the selectors are the flag accumulator unchanged, output goes to os.Stdout; -o: one JSON string, obtained after a successful run, written as data to stdout or to a truncated file, refused for several inputs; inside the interpreter the roots selected for one JSON value are collected in a list created for that value." +
			" Every Evaluator is built by the one constructor, which itself installs the runtime and program functions (a selector's evaluator knows what the program's does); the decode loop ends on io.EOF alone; GetRootJson guards the nil root." +
			" Every successfully opened path and every successfully evaluated selector contributes an input / a root on every path (no way round the append)." +
			" What the constructor installs is recognised by effect (builtin names, the program's functions, the rule lists), each on every path and in that order; the stdin input is built only when no file was named." +
			" After a successful Decode the next one is reached only through the loop over the selected roots. The diagnostic printer writes to stderr on every path, for every error value.",
		notDecided: "the README's `-r E` ≡ `BEGINFILE { $ = E }` equivalence as such (a relation between two evaluator runs); stdin-vs-file equivalence beyond `the same reader interface is passed through`.",
	})
}

func runC14(c *Ctx) {
	cliExitDiscipline(c, "R1")
	c14R2(c)
	evaluatorConstruction(c, "R6")
	c.shared("R5", "C03/R1", "a malformed or unreadable input is an error the tool reports with a non-zero status only if the library detects it: the decode loop ends on io.EOF alone and every other decode error is returned", func(o Obligation) bool { return strings.HasSuffix(o.Rule, "/R1") }, runC03)
	c.note("R3 json-output-path: see json-text-as-data (one string from GetRootJson after a successful run, fmt.Print / WriteString, truncating open) plus the multi-input refusal.")
	jsonTextAsData(c, "R3")
	c14MultiRefusal(c)
	rootsPerValue(c, "R4")
	nilRoot(c, "R5")
	oneEntryIntoTheInterpreter(c, "R7")
}

// oneEntryIntoTheInterpreter (R7): what the tool prints and how it exits is what the library yields
// for the program, the selectors and the inputs. Outside the -dbg-* developer flags the command line
// enters the interpreter through EvalProgram alone (and reads the document through GetRootJson): it
// does not lex, parse or evaluate anything by itself — a selector checked up front is reported before
// the BEGIN rules have printed, which the library would not do.
func oneEntryIntoTheInterpreter(c *Ctx, rule string) {
	p := c.P
	run := p.CliFunc("Run")
	if run == nil {
		c.undecided(rule, "cli.Run", "", "anchor not found")
		return
	}
	c.note("%s one-entry-into-the-interpreter: over the functions of package cli reachable from Run by static calls, leaving out call sites dominated by the true edge of a test of a flag named dbg-*, the only functions of package lang that are called are EvalProgram and (*Evaluator).GetRootJson.", rule)
	allowed := map[string]bool{"lang.EvalProgram": true, "(*lang.Evaluator).GetRootJson": true}
	devOnly := func(fn *ssa.Function, b *ssa.BasicBlock) bool {
		for _, blk := range fn.Blocks {
			if len(blk.Instrs) == 0 || len(blk.Succs) != 2 {
				continue
			}
			ifi, ok := blk.Instrs[len(blk.Instrs)-1].(*ssa.If)
			if !ok {
				continue
			}
			ld, ok := ifi.Cond.(*ssa.UnOp)
			if !ok || ld.Op != token.MUL {
				continue
			}
			call, ok := ld.X.(*ssa.Call)
			if !ok || len(call.Call.Args) == 0 {
				continue
			}
			if name, isS := constString(call.Call.Args[0]); !isS || !strings.HasPrefix(name, "dbg-") {
				continue
			}
			if blk.Succs[0] != blk.Succs[1] && blk.Succs[0].Dominates(b) && len(blk.Succs[0].Preds) == 1 {
				return true
			}
		}
		return false
	}
	seen := map[*ssa.Function]bool{run: true}
	work := []*ssa.Function{run}
	nCalls := 0
	for len(work) > 0 {
		fn := work[0]
		work = work[1:]
		for _, call := range callsIn(fn) {
			g := call.Common().StaticCallee()
			if g == nil || devOnly(fn, call.Block()) {
				continue
			}
			if g.Pkg != nil && g.Pkg == run.Pkg && !seen[g] {
				seen[g] = true
				work = append(work, g)
			}
			if p.InLang(g) {
				nCalls++
				c.check(allowed[shortName(g)], rule, "one-entry-into-the-interpreter "+shortName(fn)+" -> "+shortName(g), p.InstrPos(call), "the interpreter is entered through EvalProgram", "the command line calls "+shortName(g)+" by itself (outside the -dbg-* flags): what it prints or how it exits then differs from what the library yields for the same program, selectors and inputs — a fault found this way is reported before the BEGIN rules have run")
			}
		}
		for _, a := range fn.AnonFuncs {
			if !seen[a] {
				seen[a] = true
				work = append(work, a)
			}
		}
	}
	c.check(nCalls >= 2, rule, "one-entry-into-the-interpreter", p.Pos(run.Pos()), "EvalProgram and GetRootJson are called", fmt.Sprintf("%d calls into package lang found from cli.Run (2 expected)", nCalls))
}

// cliExitDiscipline (C14/R1 = C01/R8)
func cliExitDiscipline(c *Ctx, rule string) {
	p := c.P
	c.note("%s cli-exit-discipline: error sources of cli.Run = calls to os.ReadFile, os.Open, lang.EvalProgram, GetRootJson, os.Create (not the -profile file), WriteString. For each: the error value is read; every Return in a block where `err != nil` holds returns a non-zero constant and is preceded, under that same fact, by a write to os.Stderr (printError or fmt.Fprint*(os.Stderr, …)); every `return 0` has `err == nil` for each source that dominates it. main calls os.Exit(cli.Run(version)).", rule)
	run := p.CliFunc("Run")
	if run == nil {
		c.undecided(rule, "cli.Run", "", "anchor not found")
		return
	}
	F := FactsOf(run)
	sources := map[string]bool{"os.ReadFile": true, "os.Open": true, "lang.EvalProgram": true, "(*lang.Evaluator).GetRootJson": true, "os.Create": true, "(*os.File).WriteString": true}
	isStderrWrite := func(call ssa.CallInstruction) bool {
		if staticCalleeIs(call, "cli.printError") {
			return true
		}
		f := call.Common().StaticCallee()
		if f != nil && strings.HasPrefix(f.String(), "fmt.Fp") && len(call.Common().Args) > 0 {
			return p.Render(call.Common().Args[0]) == "Stderr"
		}
		return false
	}
	// a failure helper of package cli: it writes a diagnostic to stderr on every path and all its
	// returns are one non-zero constant (`return failWritingJSON(reason)` is then a diagnostic plus
	// that status)
	failHelper := func(v ssa.Value) (int64, bool) {
		hc, ok := v.(*ssa.Call)
		if !ok {
			return 0, false
		}
		h := hc.Call.StaticCallee()
		if h == nil || h.Pkg != run.Pkg || h.Signature.Results().Len() != 1 || len(h.Blocks) == 0 {
			return 0, false
		}
		var status int64
		hrets := returnsOf(h)
		for i, r := range hrets {
			k, isC := constInt(effectiveResults(r)[0])
			if !isC || k == 0 || i > 0 && k != status {
				return 0, false
			}
			status = k
		}
		for _, call := range callsIn(h) {
			if !isStderrWrite(call) {
				continue
			}
			all := len(hrets) > 0
			for _, r := range hrets {
				if !(call.Block() == r.Block() || call.Block().Dominates(r.Block())) {
					all = false
				}
			}
			if all {
				return status, true
			}
		}
		return 0, false
	}
	type src struct {
		call *ssa.Call
		err  ssa.Value
		name string
	}
	var srcs []src
	for _, call := range callsIn(run) {
		cv, ok := call.(*ssa.Call)
		if !ok {
			continue
		}
		f := cv.Call.StaticCallee()
		if f == nil {
			continue
		}
		name := f.String()
		if p.InModule(f) {
			name = shortName(f)
		}
		if !sources[name] {
			continue
		}
		if name == "os.Create" {
			if s, ok := constString(cv.Call.Args[0]); ok && s == "jqawk.prof" {
				continue
			}
		}
		ev, _ := errValueOf(cv)
		srcs = append(srcs, src{cv, ev, name})
	}
	if len(srcs) < 6 {
		c.undecided(rule, "error-sources", p.Pos(run.Pos()), fmt.Sprintf("%d error sources found in cli.Run, 6 confirmed by hand", len(srcs)))
	}
	var rets []*ssa.Return
	for _, r := range returnsOf(run) {
		if run.Recover != nil && r.Block() == run.Recover {
			continue // synthetic return after a recovered panic: Run does not recover
		}
		rets = append(rets, r)
	}
	for i, s := range srcs {
		key := fmt.Sprintf("error-source #%d %s", i+1, s.name)
		if s.err == nil || len(referrersOf(s.err)) == 0 {
			c.violated(rule, key, p.InstrPos(s.call), "the error of "+s.name+" is not read: the failure is ignored and the exit status is 0")
			continue
		}
		failRets := 0
		good := true
		var why []string
		for _, r := range rets {
			if !F.At(r.Block()).KnownNonNil(s.err) {
				continue
			}
			failRets++
			k, isC := constInt(effectiveResults(r)[0])
			hk, viaHelper := failHelper(effectiveResults(r)[0])
			if viaHelper {
				k, isC = hk, true
			}
			if !isC || k == 0 {
				good = false
				why = append(why, "returns "+p.Render(effectiveResults(r)[0])+" at "+p.InstrPos(r))
			}
			// a stderr write under the same fact that precedes the return
			wrote := viaHelper
			for _, call := range callsIn(run) {
				if isStderrWrite(call) && F.At(call.Block()).KnownNonNil(s.err) && (call.Block() == r.Block() || call.Block().Dominates(r.Block())) {
					wrote = true
				}
			}
			if !wrote {
				good = false
				why = append(why, "no diagnostic on stderr before the return at "+p.InstrPos(r))
			}
		}
		if failRets == 0 {
			good = false
			why = append(why, "no return on the failure edge")
		}
		c.check(good, rule, key, p.InstrPos(s.call), "failure -> stderr diagnostic + non-zero exit", "failure of "+s.name+": "+strings.Join(why, "; "))
	}
	// return 0 only with all dominating sources nil
	for _, r := range rets {
		k, isC := constInt(effectiveResults(r)[0])
		if hk, viaHelper := failHelper(effectiveResults(r)[0]); viaHelper {
			k, isC = hk, true
		}
		if !isC {
			c.violated(rule, "exit-status-constant "+describeExit(p, r), p.InstrPos(r), "Run returns a non-constant exit status")
			continue
		}
		if k != 0 {
			continue
		}
		var missing []string
		for _, s := range srcs {
			if s.err == nil || !dominatesInstr(s.call, r) {
				continue
			}
			if !F.At(r.Block()).KnownNil(s.err) {
				missing = append(missing, s.name)
			}
		}
		// early exits before any work (-version, debug flags) have no dominating source
		c.check(len(missing) == 0, rule, "success-exit "+describeExit(p, r), p.InstrPos(r), "status 0 only after every preceding step succeeded", "`return 0` is reachable although {"+strings.Join(missing, ", ")+"} may have failed")
	}
	// the diagnostic printer writes something for every error value, on every path
	if pe := p.CliFunc("printError"); pe != nil {
		at := silentReturn(p, pe, 0)
		c.check(at == "", rule, "diagnostic-on-every-path", p.Pos(pe.Pos()), "every path through printError (and the helpers it delegates to) writes to stderr", "printError can return without having written anything to stderr ("+at+"): for such an error the tool exits non-zero with no diagnostic")
	} else {
		c.undecided(rule, "diagnostic-on-every-path", "", "anchor cli.printError not found")
	}
	// main
	if p.Main != nil {
		sp := p.SSAPkgs[p.Main.ID]
		if mf := sp.Func("main"); mf != nil {
			var texts []string
			for _, rc := range p.renderedCalls(mf) {
				texts = append(texts, rc.Text)
			}
			okMain := false
			for _, t := range texts {
				if t == "os.Exit(cli.Run(*version))" || t == "os.Exit(cli.Run(version))" {
					okMain = true
				}
			}
			c.check(okMain, rule, "main-exit", p.Pos(mf.Pos()), "os.Exit(cli.Run(version))", "main does not pass Run's result to os.Exit unchanged: "+strings.Join(texts, " ; "))
		} else {
			c.undecided(rule, "main-exit", "", "func main not found")
		}
	}
}

// R2 argument-fidelity
func c14R2(c *Ctx) {
	p := c.P
	c.note("R2 argument-fidelity: the arguments of the EvalProgram call in cli.Run: program = \"\" | args[0] | string(os.ReadFile(*f)) (nothing else touches the text); files = a slice built by appending, in the order of the path list, InputFile{Name: path, Reader: the *os.File returned by os.Open(path)} or InputFile{\"<stdin>\", os.Stdin}; selectors = the -r accumulator variable; stdout = os.Stdout; fuzzing = false. The path list is args (with -f) or args[1:], plus \"<stdin>\" when empty and stdin is not a terminal.")
	run := p.CliFunc("Run")
	if run == nil {
		c.undecided("R2", "cli.Run", "", "anchor not found")
		return
	}
	var ep *ssa.Call
	for _, call := range callsIn(run) {
		if staticCalleeIs(call, "lang.EvalProgram") {
			ep, _ = call.(*ssa.Call)
		}
	}
	if ep == nil {
		c.violated("R2", "EvalProgram-call", p.Pos(run.Pos()), "cli.Run does not call lang.EvalProgram")
		return
	}
	a := ep.Call.Args
	prog := p.Render(a[0])
	c.check(prog == `phi("" | flag.Args()[0] | string(os.ReadFile(*flag.String("f", "", "the program file to run"))#0))`, "R2", "program-text", p.InstrPos(ep), "program = -f file bytes | first argument | empty", "the program text passed to the interpreter is "+prog)
	files := p.Render(a[1])
	pathList := `phi(append(phi(flag.Args() | flag.Args()[1:] | nil), ["<stdin>"][:]) | phi(flag.Args() | flag.Args()[1:] | nil))`
	wantFiles := `φslice⟨[][:0] | append(φslice, [lang.InputFile{Name: "<stdin>", Reader: Stdin}][:]) | append(φslice, [lang.InputFile{Name: ` + pathList + `[i@` + pathList + `], Reader: os.Open(` + pathList + `[i@` + pathList + `])#0}][:])⟩`
	_ = wantFiles
	reFiles := regexp.MustCompile(`^φslice⟨\[\]\[:0\] \| append\(φslice, \[lang\.InputFile\{Name: "<stdin>", Reader: Stdin\}\]\[:\]\) \| append\(φslice, \[lang\.InputFile\{Name: (.+)\[i@(.+)\], Reader: os\.Open\((.+)\[i@(.+)\]\)#0\}\]\[:\]\)⟩$`)
	mm := reFiles.FindStringSubmatch(files)
	okFiles := mm != nil && mm[1] == mm[2] && mm[2] == mm[3] && mm[3] == mm[4] && strings.HasPrefix(mm[1], "phi(append(phi(flag.Args() | flag.Args()[1:] | nil), ")
	if !okFiles {
		// the same list built with the stdin entry outside the loop over the paths: decide on the
		// elements that are ever appended (the list starts empty; every element is the stdin entry or
		// {Name: paths[i], Reader: os.Open(paths[i])#0} for the index i of a range over the path list)
		elems := map[string]bool{}
		okBase := true
		seen := map[ssa.Value]bool{}
		var walk func(v ssa.Value, d int)
		walk = func(v ssa.Value, d int) {
			if seen[v] || d > 12 {
				return
			}
			seen[v] = true
			switch x := v.(type) {
			case *ssa.Phi:
				for _, e := range x.Edges {
					walk(e, d+1)
				}
			case *ssa.Call:
				if bi, ok := x.Call.Value.(*ssa.Builtin); ok && bi.Name() == "append" && len(x.Call.Args) == 2 {
					elems[p.Render(x.Call.Args[1])] = true
					walk(x.Call.Args[0], d+1)
					return
				}
				okBase = false
			case *ssa.MakeSlice:
				if k, ok := constInt(x.Len); !ok || k != 0 {
					okBase = false
				}
			case *ssa.Slice:
				if r := p.Render(x); r != "[][:0]" {
					okBase = false
				}
			default:
				okBase = false
			}
		}
		walk(a[1], 0)
		reOpened := regexp.MustCompile(`^\[lang\.InputFile\{Name: (.+)\[i@(.+)\], Reader: os\.Open\((.+)\[i@(.+)\]\)#0\}\]\[:\]$`)
		nOpened := 0
		okElems := okBase
		for e := range elems {
			if e == `[lang.InputFile{Name: "<stdin>", Reader: Stdin}][:]` {
				continue
			}
			// (the renderer elides a literal it has already printed once in the same term)
			m2 := reOpened.FindStringSubmatch(strings.ReplaceAll(e, `["<stdin>"][:]`, "…[:]"))
			// the path list is the positional arguments: all of them with -f, all but the first (the
			// program) without, none when there are none — plus the stdin placeholder
			if m2 != nil && m2[1] == m2[2] && m2[2] == m2[3] && m2[3] == m2[4] {
				leaves := map[string]bool{}
				for _, lf := range phiLeaves(m2[1]) {
					if strings.HasPrefix(lf, "append(") {
						inner := strings.TrimSuffix(strings.TrimPrefix(lf, "append("), ", …[:])")
						for _, l2 := range phiLeaves(inner) {
							leaves[l2] = true
						}
						continue
					}
					leaves[lf] = true
				}
				if len(leaves) == 3 && leaves["flag.Args()"] && leaves["flag.Args()[1:]"] && leaves["nil"] {
					nOpened++
					continue
				}
			}
			okElems = false
		}
		okFiles = okElems && nOpened == 1
		if !okFiles {
			files += fmt.Sprintf(" [elements: base ok=%v, %d opened forms, %v]", okBase, nOpened, keysOf(elems))
		}
	}
	// every path that was opened successfully becomes an input: the next path is not reached without the append
	{
		var open_ *ssa.Call
		for _, call := range callsIn(run) {
			if f := call.Common().StaticCallee(); f != nil && f.String() == "os.Open" {
				open_, _ = call.(*ssa.Call)
			}
		}
		var app *ssa.Call
		allInstrs(run, func(in ssa.Instruction) {
			call, ok := in.(*ssa.Call)
			if !ok {
				return
			}
			if bi, ok := call.Call.Value.(*ssa.Builtin); ok && bi.Name() == "append" && strings.Contains(call.Type().String(), "InputFile") && open_ != nil && dominatesInstr(open_, call) {
				app = call
			}
		})
		if open_ == nil || app == nil {
			c.undecided("R2", "input-file-not-skipped", p.Pos(run.Pos()), "the os.Open call or the append of the opened file was not found")
		} else {
			var hdr *ssa.BasicBlock
			for _, l := range rangeLoops(run, func(v ssa.Value) bool { return strings.HasPrefix(v.Type().String(), "[]string") }) {
				if l.Body.Dominates(open_.Block()) {
					hdr = l.Header
				}
			}
			okEdge := open_.Block()
			for _, s := range open_.Block().Succs {
				if FactsOf(run).At(s).KnownNil(errValOf(open_)) {
					okEdge = s
				}
			}
			c.check(hdr != nil && !canSkip(okEdge, app.Block(), hdr), "R2", "input-file-not-skipped", p.InstrPos(app), "every successfully opened path is passed to the interpreter", "after a path was opened successfully the next path can be reached without the file having been added to the inputs: that input is silently ignored (no output, no error, status 0)")
		}
	}
	// standard input is an input only when no file was named: the stdin entry is built under the
	// fact len(file arguments) == 0
	{
		n := 0
		allInstrs(run, func(in ssa.Instruction) {
			st, ok := in.(*ssa.Store)
			if !ok {
				return
			}
			sf, ok := fieldOfAddr(st.Addr)
			if !ok || !sf.Is("InputFile", "Reader") || !strings.Contains(p.Render(st.Val), "Stdin") {
				return
			}
			n++
			noFiles := false
			for _, rl := range FactsOf(run).At(st.Block()).Rels() {
				if rl.op == relEQ && isLenCall(rl.x) {
					if k, ok := constInt(rl.y); ok && k == 0 && strings.Contains(p.Render(rl.x), "flag.Args()") {
						noFiles = true
					}
				}
			}
			// and whenever no file was named and standard input is not a terminal: no further condition
			// (what kind of file stdin is, an environment variable, …) decides whether it is read
			{
				var extra []string
				for f := range FactsOf(run).At(st.Block()) {
					var g string
					if rl, ok := relsOf(f); ok {
						g = p.RenderShort(rl.x) + " " + rl.op.String() + " " + p.RenderShort(rl.y)
					} else {
						g = boolFactText(p, f)
					}
					if stdinGuardAllowed(g) {
						continue
					}
					extra = append(extra, g)
				}
				sort.Strings(extra)
				c.check(len(extra) == 0, "R2", "stdin-read-whenever-no-files", p.InstrPos(st), "nothing but `no file arguments` and `stdin is not a terminal` decides whether standard input is read", "standard input is read only under the additional condition {"+strings.Join(dedup(extra), " && ")+"}: input redirected from a file, a socket or whatever the condition excludes is silently not processed, although the same bytes in a named file are")
			}
			c.check(noFiles, "R2", "stdin-only-without-files", p.InstrPos(st), "standard input is read only when no input file was named", "the standard-input entry is built on a path where `no file arguments` is not established: with stdin redirected (cron, a pipe, /dev/null) the named files are never opened")
		})
		if n == 0 {
			c.undecided("R2", "stdin-only-without-files", p.Pos(run.Pos()), "no InputFile with Reader os.Stdin is built in Run")
		}
	}
	c.check(okFiles, "R2", "input-files", p.InstrPos(ep), "files in argument order, each the opened file itself", "the input list passed to the interpreter is not `for each path in order: {Name: path, Reader: os.Open(path)}` / `{<stdin>, os.Stdin}`: "+files)
	sel := p.Render(a[2])
	c.check(sel == "var:cli.multiFlag" || sel == "*var:cli.multiFlag", "R2", "selectors", p.InstrPos(ep), "the -r accumulator, unchanged", "the selector list passed is "+sel)
	c.check(p.Render(a[3]) == "Stdout", "R2", "stdout", p.InstrPos(ep), "os.Stdout", "output goes to "+p.Render(a[3]))
	fz, isC := constBool(a[4])
	c.check(isC && !fz, "R2", "fuzzing-off", p.InstrPos(ep), "fuzzing = false", "the CLI enables the fuzzing loop limit")
	// the -r accumulator appends in order
	if set := p.CliFunc("(*multiFlag).Set"); set != nil {
		effs := p.effects(set)
		c.check(len(effs) == 1 && effs[0] == "m = append(*m, [value][:])", "R2", "selector-accumulator", p.Pos(set.Pos()), "Set appends the value", "multiFlag.Set performs "+strings.Join(effs, " ; "))
	} else {
		c.undecided("R2", "selector-accumulator", "", "anchor (*multiFlag).Set not found")
	}
	// stdin is used exactly when no paths were given and stdin is not a terminal
	// each file is opened once: one os.Open call, inside the loop over the path list
	opens := 0
	for _, call := range callsIn(run) {
		if f := call.Common().StaticCallee(); f != nil && f.String() == "os.Open" {
			opens++
		}
	}
	c.check(opens == 1, "R2", "open-once", p.Pos(run.Pos()), "one os.Open site", fmt.Sprintf("%d os.Open sites", opens))
	// no reader wrappers in cli
	for _, fn := range p.Funcs {
		if !p.InCli(fn) {
			continue
		}
		for _, call := range callsIn(fn) {
			if f := call.Common().StaticCallee(); f != nil {
				n := f.String()
				if strings.HasPrefix(n, "bufio.") || n == "io.ReadAll" || n == "io/ioutil.ReadAll" || strings.HasPrefix(n, "(*bufio.") {
					c.violated("R2", "reader-wrapper in "+shortName(fn), p.InstrPos(call), "the CLI calls "+n+": input would be read ahead instead of being streamed value by value")
				}
			}
		}
	}
}

func c14MultiRefusal(c *Ctx) {
	p := c.P
	run := p.CliFunc("Run")
	if run == nil {
		return
	}
	var j *ssa.Call
	for _, call := range callsIn(run) {
		if staticCalleeIs(call, "(*lang.Evaluator).GetRootJson") {
			j, _ = call.(*ssa.Call)
		}
	}
	if j == nil {
		return
	}
	g := map[string]bool{}
	for _, rl := range FactsOf(run).At(j.Block()).Rels() {
		g[rl.op.String()+" "+p.Render(rl.y)+" len="+fmt.Sprint(strings.HasPrefix(p.Render(rl.x), "len("))] = true
	}
	c.check(g["<= 1 len=true"], "R3", "multi-input-refusal", p.InstrPos(j), "JSON is only produced when at most one input was given", "GetRootJson is reachable with more than one input file")
}

// rootsPerValue (C14/R4, C02/R2-vi): the list of selected roots is created for each decoded value.
func rootsPerValue(c *Ctx, rule string) {
	p := c.P
	c.note("%s roots-per-value: in EvalProgram the slice of root cells that the per-root loop ranges over is created (make) inside the decode loop, after the Decode call of the current value, and is filled by appending, in selector order, the result of EvalExpression(selector, the decoded value) — or the single cell of the decoded value when there are no selectors. A list that outlives the value re-processes roots of earlier values.", rule)
	ep := p.DriverFunc()
	if ep == nil {
		c.undecided(rule, "EvalProgram", "", "anchor not found")
		return
	}
	var dec *ssa.Call
	for _, call := range callsIn(ep) {
		if f := call.Common().StaticCallee(); f != nil && f.String() == "(*encoding/json.Decoder).Decode" {
			dec, _ = call.(*ssa.Call)
		}
	}
	if dec == nil {
		c.violated(rule, "decode-call", p.Pos(ep.Pos()), "no Decode call")
		return
	}
	// the loop over root cells: a range loop whose slice is []*Cell and whose body calls evalPatternRules
	var loop *rangeLoop
	for _, l := range rangeLoops(ep, func(v ssa.Value) bool {
		return strings.HasPrefix(v.Type().String(), "[]*") && strings.HasSuffix(v.Type().String(), ".Cell")
	}) {
		l := l
		loop = &l
	}
	if loop == nil {
		c.undecided(rule, "root-loop", p.Pos(ep.Pos()), "no loop over a []*Cell of roots found in EvalProgram")
		return
	}
	r := p.Render(loop.Slice)
	decoded := "*&rootValue"
	_ = decoded
	roots := sliceRoots(loop.Slice, map[ssa.Value]bool{})
	okFresh := len(roots) > 0
	for _, root := range roots {
		in, ok := root.(ssa.Instruction)
		if !ok {
			okFresh = false
			continue
		}
		fresh := false
		switch x := root.(type) {
		case *ssa.MakeSlice:
			fresh = true
		case *ssa.Slice:
			_, fresh = x.X.(*ssa.Alloc)
		}
		if !fresh || !dominatesInstr(dec, in) {
			okFresh = false
		}
	}
	// every decoded value goes through the root selection: from a successful Decode the next Decode
	// is not reached without the root loop (no fast path that skips the selectors for some programs)
	{
		skipped, seenOK := false, false
		for _, bb := range ep.Blocks {
			if bb == dec.Block() || !FactsOf(ep).At(bb).KnownNil(dec) {
				continue
			}
			seenOK = true
			if bb != loop.Header && canSkip(bb, loop.Header, dec.Block()) && !loop.Header.Dominates(bb) {
				skipped = true
			}
		}
		if !seenOK {
			skipped = true
		}
		c.check(!skipped, rule, "roots-selected-for-every-value", p.InstrPos(dec), "after a successful Decode the next one is reached only through the loop over the selected roots", "after a value was decoded the next value can be decoded without the root selectors having been applied and the roots processed: for some programs `-r E` is silently ignored (and a failing selector goes unreported)")
	}
	c.check(okFresh, rule, "root-list-created-per-value", p.InstrPos(loop.Header.Instrs[0]), "the root list is created after the value was decoded", "the root list ranged for a value is not created afresh after that value's Decode (roots: "+r+"): roots selected from earlier values are processed again")
	// what is appended
	var apps []string
	allInstrs(ep, func(in ssa.Instruction) {
		call, ok := in.(*ssa.Call)
		if !ok {
			return
		}
		if bi, ok := call.Call.Value.(*ssa.Builtin); ok && bi.Name() == "append" {
			if strings.Contains(call.Type().String(), "Cell") {
				apps = append(apps, p.RenderShort(call.Call.Args[1]))
				// every successfully evaluated selector contributes its root, whatever its value
				for _, sel := range callsIn(ep) {
					if staticCalleeIs(sel, "lang.EvalExpression") && dominatesInstr(sel, call) && strings.Contains(p.RenderShort(call.Call.Args[1]), "EvalExpression") {
						var extra []string
						for _, g := range extraGuardsBetween(p, ep, sel.Block(), call.Block()) {
							if !(strings.HasPrefix(g, "lang.EvalExpression(") && strings.HasSuffix(g, ")#1 == nil")) {
								extra = append(extra, g)
							}
						}
						c.check(len(extra) == 0, rule, "selector-root-unconditional", p.InstrPos(call), "the result of every selector is appended", "the root a selector yields is only processed under {"+strings.Join(extra, " ; ")+"}: a selector whose value is filtered out leaves $ (and what -o writes) at the previous root")
						// and no way round the append: once the selector evaluated without error, the next
						// selector is not reached without appending its result
						for _, l := range rangeLoops(ep, func(v ssa.Value) bool {
							_, isP := v.(*ssa.Parameter)
							return isP && strings.HasPrefix(v.Type().String(), "[]string")
						}) {
							if !l.Body.Dominates(sel.Block()) {
								continue
							}
							okEdge := sel.Block()
							for _, s := range sel.Block().Succs {
								if FactsOf(ep).At(s).KnownNil(errValOf(sel)) {
									okEdge = s
								}
							}
							c.check(!canSkip(okEdge, call.Block(), l.Header), rule, "selector-root-not-skipped", p.InstrPos(call), "every successfully evaluated selector contributes a root", "after a selector evaluated without error the next selector can be reached without its result having been appended to the roots: that root is silently dropped, so `-r E` no longer behaves as `BEGINFILE { $ = E }`")
						}
					}
				}
			}
		}
	})
	want := setOf([]string{
		"[lang.EvalExpression(rootSelectors[i@rootSelectors], *&var:interface{}, stdout)#0][:]",
		"[&lang.Cell{Value: lang.NewValue(*&var:interface{})}][:]",
	})
	got := setOf(apps)
	miss, extra := diffSets(got, want)
	if len(miss)+len(extra) > 0 {
		// tolerate the rendering of the decode target variable
		norm := func(s string) string {
			return strings.NewReplacer("*&var:interface{}", "V", "*&var:any", "V", "var:interface{}", "V", "var:any", "V").Replace(s)
		}
		g2, w2 := map[string]bool{}, map[string]bool{}
		for k := range got {
			g2[norm(k)] = true
		}
		for k := range want {
			w2[norm(k)] = true
		}
		miss, extra = diffSets(g2, w2)
	}
	c.check(len(miss)+len(extra) == 0, rule, "root-list-contents", p.Pos(ep.Pos()), "one root per selector in order, or the value itself", fmt.Sprintf("the root list is filled with {%s}; expected one EvalExpression(selector i, decoded value) per selector or the decoded value's own cell", strings.Join(apps, " ; ")))
}

// evaluatorConstruction: selectors are evaluated by an evaluator built like the program's own
func evaluatorConstruction(c *Ctx, rule string) {
	p := c.P
	c.note("%s evaluator-construction: `-r E` behaves as `BEGINFILE { $ = E }` only if the evaluator that runs a selector knows what the program's evaluator knows. Every Evaluator value is built by the one constructor (no composite literal elsewhere), and the constructor itself — not one of its callers — installs the runtime functions (printf, json, num) and the program's functions on every path to its return.", rule)
	ne := p.LangFunc("NewEvaluator")
	if ne == nil {
		c.undecided(rule, "NewEvaluator", "", "anchor not found")
		return
	}
	// composite literals / allocations of Evaluator outside the constructor
	n := 0
	for _, fn := range p.Funcs {
		if !p.InModule(fn) || p.inTestFile(fn) || fn == ne {
			continue
		}
		allInstrs(fn, func(in ssa.Instruction) {
			a, ok := in.(*ssa.Alloc)
			if !ok || !isLangNamed(a.Type().(*types.Pointer).Elem(), "Evaluator") {
				return
			}
			// a local that only receives the constructor's result is fine
			for _, r := range referrersOf(a) {
				if st, ok := r.(*ssa.Store); ok && st.Addr == ssa.Value(a) {
					if call, _ := callOf(st.Val); call == nil || !staticCalleeIs(call, "lang.NewEvaluator") {
						n++
						c.violated(rule, "evaluator-built-outside-constructor in "+shortName(fn), p.InstrPos(st), "an Evaluator value is assembled outside NewEvaluator: it misses whatever the constructor installs")
					}
				}
			}
		})
	}
	if n == 0 {
		c.ok(rule, "single-constructor", p.Pos(ne.Pos()), "every Evaluator comes from NewEvaluator")
	}
	// what the constructor must install, recognised by its effect (not by the helper's name):
	// the runtime functions (map stores under the constant names printf / json / num), the program's
	// functions (a map store of a function value inside a loop over the program's Functions) and the
	// rule lists (stores to Evaluator.patternRules). Each effect must lie in the constructor or in a
	// function it calls on every path (directly or through one intermediate call).
	type installer struct {
		name string
		find func(fn *ssa.Function) ssa.Instruction // the instruction that must be reached on every path (a loop header's If for loops)
	}
	loopAnchor := func(in ssa.Instruction) ssa.Instruction {
		// the outermost loop header whose loop contains the instruction (a block that dominates it, has a
		// back edge, and can be reached again from it)
		var best *ssa.BasicBlock
		for _, b := range in.Parent().Blocks {
			if len(b.Instrs) == 0 || !b.Dominates(in.Block()) {
				continue
			}
			back := false
			for _, pr := range b.Preds {
				if b.Dominates(pr) {
					back = true
				}
			}
			if !back || !(in.Block() == b || reachableFrom([]*ssa.BasicBlock{in.Block()}, nil)[b]) {
				continue
			}
			if best == nil || b.Dominates(best) {
				best = b
			}
		}
		if best == nil {
			return in
		}
		return best.Instrs[len(best.Instrs)-1]
	}
	installers := []installer{
		{"runtime functions", func(fn *ssa.Function) ssa.Instruction {
			seen := map[string]ssa.Instruction{}
			for _, ev := range builtinRegistrations(p) {
				if ev.at.Parent() == fn && (ev.name == "printf" || ev.name == "json" || ev.name == "num") {
					seen[ev.name] = ev.at
				}
			}
			if len(seen) == 3 {
				return seen["printf"]
			}
			return nil
		}},
		{"program functions", func(fn *ssa.Function) ssa.Instruction {
			var out ssa.Instruction
			allInstrs(fn, func(in ssa.Instruction) {
				if mu, ok := in.(*ssa.MapUpdate); ok && strings.Contains(p.Render(mu.Value), "Tag: ValueFn") && strings.Contains(p.Render(mu.Value), ".Functions[") {
					out = loopAnchor(in)
				}
			})
			return out
		}},
		{"rule lists", func(fn *ssa.Function) ssa.Instruction {
			var out ssa.Instruction
			for _, st := range storesToField(fn, "Evaluator", "patternRules", false) {
				if strings.HasPrefix(p.Render(st.Val), "append(") {
					out = loopAnchor(st)
				}
			}
			return out
		}},
	}
	coversReturns := func(fn *ssa.Function, in ssa.Instruction) bool {
		for _, r := range returnsOf(fn) {
			if !dominatesInstr(in, r) {
				return false
			}
		}
		return true
	}
	inCtor := map[string]ssa.Instruction{}
	defer func() {
		rt, pf := inCtor["runtime functions"], inCtor["program functions"]
		if rt != nil && pf != nil {
			c.check(dominatesInstr(rt, pf), rule, "program-functions-after-runtime-functions", p.InstrPos(pf), "the program's functions are installed after the runtime functions", "the runtime functions are installed after the program's functions into the same root frame: a user function named printf, json or num is replaced by the builtin and never called")
		}
	}()
	for _, inst := range installers {
		var where []string
		okInst := false
		pos := p.Pos(ne.Pos())
		for _, fn := range p.Funcs {
			if !p.InLang(fn) || p.inTestFile(fn) {
				continue
			}
			anchor := inst.find(fn)
			if anchor == nil {
				continue
			}
			where = append(where, shortName(fn))
			if !coversReturns(fn, anchor) {
				continue
			}
			// fn is the constructor, or called by it on every path (at most one call in between)
			// the instruction of the constructor itself that stands for the installation
			var reaches func(callee *ssa.Function, at ssa.Instruction, depth int) ssa.Instruction
			reaches = func(callee *ssa.Function, at ssa.Instruction, depth int) ssa.Instruction {
				if callee == ne {
					return at
				}
				if depth > 1 {
					return nil
				}
				for _, cs := range p.CallSitesOf(callee) {
					if p.inTestFile(cs.Parent()) {
						continue
					}
					if coversReturns(cs.Parent(), cs) {
						if in := reaches(cs.Parent(), cs, depth+1); in != nil {
							return in
						}
					}
				}
				return nil
			}
			if in := reaches(fn, anchor, 0); in != nil {
				okInst = true
				pos = p.InstrPos(anchor)
				inCtor[inst.name] = in
			}
		}
		c.check(okInst, rule, "installed-by-constructor "+inst.name, pos, "installed on every path of the constructor", "NewEvaluator does not install the "+inst.name+" on every path to its return (the installing code is in {"+strings.Join(dedup(where), ", ")+"}): an evaluator built for a root selector lacks them, so `-r 'num($.x)'` fails where `BEGINFILE { $ = num($.x) }` works")
	}
}

// errValOf: the error result value of a call (nil if it has none / is not extracted)
func errValOf(call ssa.CallInstruction) ssa.Value {
	cv, ok := call.(*ssa.Call)
	if !ok {
		return nil
	}
	v, _ := errValueOf(cv)
	return v
}

// silentReturn: the position of a return of fn that can be reached from its entry without passing a
// write to os.Stderr (fmt.Fprint* with os.Stderr, or a module function that itself writes on every
// path); "" when every path writes.
func silentReturn(p *Program, fn *ssa.Function, depth int) string {
	if len(fn.Blocks) == 0 || depth > 4 {
		return "body of " + shortName(fn) + " not available"
	}
	writes := func(in ssa.Instruction) bool {
		call, ok := in.(ssa.CallInstruction)
		if !ok {
			return false
		}
		if _, isDefer := in.(*ssa.Defer); isDefer {
			return false
		}
		if _, isGo := in.(*ssa.Go); isGo {
			return false
		}
		f := call.Common().StaticCallee()
		if f == nil {
			return false
		}
		if strings.HasPrefix(f.String(), "fmt.Fp") && len(call.Common().Args) > 0 {
			return p.Render(call.Common().Args[0]) == "Stderr"
		}
		if p.InModule(f) && f != fn {
			return silentReturn(p, f, depth+1) == ""
		}
		return false
	}
	// blocks whose end is reachable without a write
	seen := map[*ssa.BasicBlock]bool{}
	work := []*ssa.BasicBlock{fn.Blocks[0]}
	for len(work) > 0 {
		b := work[len(work)-1]
		work = work[:len(work)-1]
		if seen[b] {
			continue
		}
		seen[b] = true
		wrote := false
		for _, in := range b.Instrs {
			if writes(in) {
				wrote = true
				break
			}
		}
		if wrote {
			continue
		}
		if r, ok := b.Instrs[len(b.Instrs)-1].(*ssa.Return); ok {
			if fn.Recover != nil && b == fn.Recover {
				continue
			}
			return p.InstrPos(r)
		}
		work = append(work, b.Succs...)
	}
	return ""
}

// stdinGuardAllowed: the conditions under which the standard-input entry may be built — no file
// arguments, stdin not a terminal, earlier steps succeeded, the developer flags are off, and the
// bookkeeping of the loop that builds the input list.
func stdinGuardAllowed(g string) bool {
	switch {
	case strings.Contains(g, "IsTerminal("):
		return true
	case strings.Contains(g, "flag."): // flag values and the argument list
		return true
	case strings.HasPrefix(g, "i@") || strings.HasPrefix(g, "!i@"): // loop bookkeeping
		return true
	case g == "phi(false | true)" || g == "phi(true | false)" || g == "!phi(false | true)" || g == "!phi(true | false)": // the remembered decision itself
		return true
	case strings.HasSuffix(g, "#1 == nil") || strings.HasSuffix(g, "#1 != nil"): // an earlier step's error
		return true
	}
	return false
}

package main

// S3: edge facts. A forward must-dataflow over a function's SSA blocks. A fact is
// (condition value, truth) for a condition that an `If` tested; it holds at a block when it
// holds on every path from the entry to that block. SSA values are immutable, so facts never
// need killing. Derived predicates (v == nil, v == <global>, a < b ...) are read off the
// condition's structure at query time.

import (
	"go/constant"
	"go/token"
	"go/types"

	"golang.org/x/tools/go/ssa"
)

type fact struct {
	cond  ssa.Value
	truth bool
}

type factSet map[fact]bool // nil = TOP (not yet reached)

type Facts struct {
	fn  *ssa.Function
	in  map[*ssa.BasicBlock]factSet
	out map[*ssa.BasicBlock]factSet // facts at the end of the block (before the edge fact)
}

var factsCache = map[*ssa.Function]*Facts{}

func FactsOf(fn *ssa.Function) *Facts {
	if f, ok := factsCache[fn]; ok {
		return f
	}
	f := computeFacts(fn)
	factsCache[fn] = f
	return f
}

func edgeFact(from, to *ssa.BasicBlock) (fact, bool) {
	if len(from.Instrs) == 0 {
		return fact{}, false
	}
	ifi, ok := from.Instrs[len(from.Instrs)-1].(*ssa.If)
	if !ok || len(from.Succs) != 2 {
		return fact{}, false
	}
	if from.Succs[0] == from.Succs[1] {
		return fact{}, false
	}
	if from.Succs[0] == to {
		return fact{ifi.Cond, true}, true
	}
	if from.Succs[1] == to {
		return fact{ifi.Cond, false}, true
	}
	return fact{}, false
}

func computeFacts(fn *ssa.Function) *Facts {
	F := &Facts{fn: fn, in: map[*ssa.BasicBlock]factSet{}, out: map[*ssa.BasicBlock]factSet{}}
	if len(fn.Blocks) == 0 {
		return F
	}
	entry := fn.Blocks[0]
	F.in[entry] = factSet{}
	changed := true
	rounds := 0
	for changed && rounds < 60 {
		changed = false
		rounds++
		for _, b := range fn.Blocks {
			var cur factSet
			if b == entry {
				cur = factSet{}
			} else {
				first := true
				for _, p := range b.Preds {
					pin := F.in[p]
					if pin == nil {
						continue // TOP: not reached yet, identity for intersection
					}
					e := factSet{}
					for k := range pin {
						e[k] = true
					}
					if ef, ok := edgeFact(p, b); ok {
						F.expand(ef, e, 0)
					}
					if first {
						cur = e
						first = false
					} else {
						for k := range cur {
							if !e[k] {
								delete(cur, k)
							}
						}
					}
				}
				if first {
					continue // no reached predecessor yet
				}
			}
			old := F.in[b]
			if old == nil || len(old) != len(cur) {
				F.in[b] = cur
				changed = true
				continue
			}
			same := true
			for k := range cur {
				if !old[k] {
					same = false
					break
				}
			}
			if !same {
				F.in[b] = cur
				changed = true
			}
		}
	}
	return F
}

// expand adds f and what it implies when its condition is a boolean phi produced by && / || in
// value context: phi(false from the short-circuit edge, v from the rhs block) being true means v
// is true and the rhs block was passed (so its facts hold); dually for ||.
func (F *Facts) expand(f fact, out factSet, depth int) {
	out[f] = true
	if depth > 6 {
		return
	}
	cond, truth := f.cond, f.truth
	for {
		if u, ok := cond.(*ssa.UnOp); ok && u.Op == token.NOT {
			cond, truth = u.X, !truth
			continue
		}
		break
	}
	phi, ok := cond.(*ssa.Phi)
	if !ok {
		return
	}
	if bt, ok := phi.Type().Underlying().(*types.Basic); !ok || bt.Kind() != types.Bool {
		return
	}
	var cand []int
	for i, e := range phi.Edges {
		if c, isC := constBool(e); isC {
			if c == truth {
				cand = append(cand, i)
			}
		} else {
			cand = append(cand, i)
		}
	}
	if len(cand) != 1 {
		return
	}
	i := cand[0]
	pred := phi.Block().Preds[i]
	for k := range F.in[pred] {
		out[k] = true
	}
	if ef, ok := edgeFact(pred, phi.Block()); ok {
		F.expand(ef, out, depth+1)
	}
	if _, isC := constBool(phi.Edges[i]); !isC {
		F.expand(fact{phi.Edges[i], truth}, out, depth+1)
	}
}

// At returns the facts that hold throughout block b.
func (F *Facts) At(b *ssa.BasicBlock) factSet { return F.in[b] }

// OnEdge returns the facts that hold when control passes from p to b.
func (F *Facts) OnEdge(p, b *ssa.BasicBlock) factSet {
	e := factSet{}
	for k := range F.in[p] {
		e[k] = true
	}
	if ef, ok := edgeFact(p, b); ok {
		F.expand(ef, e, 0)
	}
	return e
}

// Reachable: the block was reached by the dataflow (it always is for SSA-built functions).
func (F *Facts) Reachable(b *ssa.BasicBlock) bool { return F.in[b] != nil }

// ---- derived predicates -----------------------------------------------------------------

type relOp int

const (
	relEQ relOp = iota
	relNE
	relLT
	relLE
	relGT
	relGE
)

func (r relOp) String() string { return [...]string{"==", "!=", "<", "<=", ">", ">="}[r] }

func negate(r relOp) relOp {
	switch r {
	case relEQ:
		return relNE
	case relNE:
		return relEQ
	case relLT:
		return relGE
	case relLE:
		return relGT
	case relGT:
		return relLE
	default:
		return relLT
	}
}

func flip(r relOp) relOp {
	switch r {
	case relLT:
		return relGT
	case relLE:
		return relGE
	case relGT:
		return relLT
	case relGE:
		return relLE
	}
	return r
}

// rel is an atomic relation X op Y between two SSA values that is known to hold.
type rel struct {
	x, y ssa.Value
	op   relOp
}

// relsOf expands a fact into the atomic relation it establishes (if its condition is a
// comparison, possibly under negations).
func relsOf(f fact) (rel, bool) {
	cond, truth := f.cond, f.truth
	for {
		if u, ok := cond.(*ssa.UnOp); ok && u.Op == token.NOT {
			cond, truth = u.X, !truth
			continue
		}
		break
	}
	b, ok := cond.(*ssa.BinOp)
	if !ok {
		return rel{}, false
	}
	var op relOp
	switch b.Op {
	case token.EQL:
		op = relEQ
	case token.NEQ:
		op = relNE
	case token.LSS:
		op = relLT
	case token.LEQ:
		op = relLE
	case token.GTR:
		op = relGT
	case token.GEQ:
		op = relGE
	default:
		return rel{}, false
	}
	if !truth {
		op = negate(op)
	}
	return normLenRel(rel{b.X, b.Y, op}), true
}

// normLenRel gives the emptiness tests of a length one spelling: len(X)-1 < 0, len(X) < 1,
// len(X) <= 0 are len(X) == 0; len(X)-1 >= 0, len(X) >= 1, len(X) > 0 are len(X) != 0
// (a length is never negative).
func normLenRel(r rel) rel {
	if _, ok := constInt(r.x); ok {
		if _, ok2 := constInt(r.y); !ok2 {
			r = rel{r.y, r.x, flip(r.op)}
		}
	}
	k, ok := constInt(r.y)
	if !ok {
		return r
	}
	x := r.x
	if b, ok := x.(*ssa.BinOp); ok && (b.Op == token.SUB || b.Op == token.ADD) {
		if d, ok := constInt(b.Y); ok && isLenCall(b.X) {
			if b.Op == token.SUB {
				k += d
			} else {
				k -= d
			}
			x = b.X
		}
	}
	if !isLenCall(x) {
		return r
	}
	zero := ssa.NewConst(constant.MakeInt64(0), types.Typ[types.Int])
	switch {
	case (r.op == relLT && k == 1) || (r.op == relLE && k == 0) || (r.op == relEQ && k == 0):
		return rel{x, zero, relEQ}
	case (r.op == relGE && k == 1) || (r.op == relGT && k == 0) || (r.op == relNE && k == 0):
		return rel{x, zero, relNE}
	}
	return r
}

// Rels lists all atomic relations known in a fact set.
func (s factSet) Rels() []rel {
	var out []rel
	for f := range s {
		if r, ok := relsOf(f); ok {
			out = append(out, r)
			continue
		}
		out = append(out, predicateRels(f)...)
	}
	return out
}

// predicateRels: what a fact `g(x) == truth` says about x when g is an enum predicate — a pure
// boolean function whose answer is decided by comparisons of one parameter with constants
// (`func isComposite(t ValueTag) bool { return t == ValueArray || t == ValueObj }`): x differs from
// every constant for which g answers the opposite, and equals the constant when it is the only
// input giving this answer.
func predicateRels(f fact) []rel {
	cond, truth := f.cond, f.truth
	for {
		if u, ok := cond.(*ssa.UnOp); ok && u.Op == token.NOT {
			cond, truth = u.X, !truth
			continue
		}
		break
	}
	call, ok := cond.(*ssa.Call)
	if !ok || call.Call.IsInvoke() {
		return nil
	}
	g := call.Call.StaticCallee()
	if g == nil || len(g.Blocks) == 0 || len(g.Params) != len(call.Call.Args) {
		return nil
	}
	var out []rel
	for j, a := range call.Call.Args {
		ep := enumPredicateOf(g, j)
		if ep == nil {
			continue
		}
		same := 0
		var sameC *ssa.Const
		for i, cst := range ep.consts {
			if ep.answers[i] != truth {
				out = append(out, rel{a, cst, relNE})
			} else {
				same++
				sameC = cst
			}
		}
		if same == 1 && ep.other != truth {
			out = append(out, rel{a, sameC, relEQ})
		}
	}
	return out
}

type enumPredicate struct {
	consts  []*ssa.Const
	answers []bool
	other   bool // the answer for a value equal to none of the constants
}

var enumPredCache = map[*ssa.Function]map[int]*enumPredicate{}

func enumPredicateOf(g *ssa.Function, j int) *enumPredicate {
	if m, ok := enumPredCache[g]; ok {
		if r, ok := m[j]; ok {
			return r
		}
	} else {
		enumPredCache[g] = map[int]*enumPredicate{}
	}
	enumPredCache[g][j] = nil
	res := g.Signature.Results()
	if res.Len() != 1 || j >= len(g.Params) || len(g.Params) != 1 {
		return nil
	}
	if b, ok := res.At(0).Type().Underlying().(*types.Basic); !ok || b.Kind() != types.Bool {
		return nil
	}
	prm := g.Params[j]
	if b, ok := prm.Type().Underlying().(*types.Basic); !ok || b.Info()&(types.IsInteger|types.IsString) == 0 {
		return nil
	}
	pure := true
	var consts []*ssa.Const
	allInstrs(g, func(in ssa.Instruction) {
		switch y := in.(type) {
		case *ssa.If, *ssa.Jump, *ssa.Phi, *ssa.Return, *ssa.DebugRef:
		case *ssa.UnOp:
			if y.Op != token.NOT {
				pure = false
			}
		case *ssa.BinOp:
			if y.Op != token.EQL && y.Op != token.NEQ {
				pure = false
				return
			}
			var other ssa.Value
			switch {
			case y.X == ssa.Value(prm):
				other = y.Y
			case y.Y == ssa.Value(prm):
				other = y.X
			default:
				pure = false
				return
			}
			cst, ok := other.(*ssa.Const)
			if !ok || cst.Value == nil {
				pure = false
				return
			}
			for _, k := range consts {
				if constant.Compare(k.Value, token.EQL, cst.Value) {
					return
				}
			}
			consts = append(consts, cst)
		default:
			pure = false
		}
	})
	if !pure || len(consts) == 0 || len(consts) > 32 {
		return nil
	}
	ep := &enumPredicate{consts: consts}
	run := func(cur *ssa.Const) (bool, bool) {
		var evalB func(v ssa.Value, from *ssa.BasicBlock, d int) (bool, bool)
		evalB = func(v ssa.Value, from *ssa.BasicBlock, d int) (bool, bool) {
			if d > 8 {
				return false, false
			}
			if b, ok := constBool(v); ok {
				return b, true
			}
			switch y := v.(type) {
			case *ssa.UnOp:
				b, ok := evalB(y.X, from, d+1)
				return !b, ok
			case *ssa.Phi:
				if from == nil {
					return false, false
				}
				for i, pr := range y.Block().Preds {
					if pr == from {
						return evalB(y.Edges[i], nil, d+1)
					}
				}
			case *ssa.BinOp:
				other := y.Y
				if y.Y == ssa.Value(prm) {
					other = y.X
				}
				cst := other.(*ssa.Const)
				eq := cur != nil && constant.Compare(cur.Value, token.EQL, cst.Value)
				if y.Op == token.NEQ {
					eq = !eq
				}
				return eq, true
			}
			return false, false
		}
		b := g.Blocks[0]
		var from *ssa.BasicBlock
		for steps := 0; steps < 200; steps++ {
			switch y := b.Instrs[len(b.Instrs)-1].(type) {
			case *ssa.Return:
				return evalB(y.Results[0], from, 0)
			case *ssa.Jump:
				from, b = b, b.Succs[0]
			case *ssa.If:
				cv, ok := evalB(y.Cond, from, 0)
				if !ok {
					return false, false
				}
				if cv {
					from, b = b, b.Succs[0]
				} else {
					from, b = b, b.Succs[1]
				}
			default:
				return false, false
			}
		}
		return false, false
	}
	for _, cst := range consts {
		a, ok := run(cst)
		if !ok {
			return nil
		}
		ep.answers = append(ep.answers, a)
	}
	o, ok := run(nil)
	if !ok {
		return nil
	}
	ep.other = o
	enumPredCache[g][j] = ep
	return ep
}

func isNilConst(v ssa.Value) bool {
	c, ok := v.(*ssa.Const)
	return ok && c.Value == nil && !isBasicType(c.Type())
}

func isBasicType(T types.Type) bool {
	_, ok := T.Underlying().(*types.Basic)
	return ok
}

func constInt(v ssa.Value) (int64, bool) {
	c, ok := v.(*ssa.Const)
	if !ok || c.Value == nil {
		return 0, false
	}
	if c.Value.Kind() == constant.Int {
		i, ok := constant.Int64Val(c.Value)
		return i, ok
	}
	if c.Value.Kind() == constant.Float {
		f, _ := constant.Float64Val(c.Value)
		if f == float64(int64(f)) {
			return int64(f), true
		}
	}
	return 0, false
}

func constFloat(v ssa.Value) (float64, bool) {
	c, ok := v.(*ssa.Const)
	if !ok || c.Value == nil {
		return 0, false
	}
	switch c.Value.Kind() {
	case constant.Int, constant.Float:
		f, _ := constant.Float64Val(c.Value)
		return f, true
	}
	return 0, false
}

func constString(v ssa.Value) (string, bool) {
	c, ok := v.(*ssa.Const)
	if !ok || c.Value == nil || c.Value.Kind() != constant.String {
		return "", false
	}
	return constant.StringVal(c.Value), true
}

func constBool(v ssa.Value) (bool, bool) {
	c, ok := v.(*ssa.Const)
	if !ok || c.Value == nil || c.Value.Kind() != constant.Bool {
		return false, false
	}
	return constant.BoolVal(c.Value), true
}

// KnownNil / KnownNonNil: is v == nil (resp. != nil) among the facts?
func (s factSet) KnownNil(v ssa.Value) bool {
	for _, r := range s.Rels() {
		if r.op == relEQ && ((r.x == v && isNilConst(r.y)) || (r.y == v && isNilConst(r.x))) {
			return true
		}
	}
	return false
}

func (s factSet) KnownNonNil(v ssa.Value) bool {
	for _, r := range s.Rels() {
		if r.op == relNE && ((r.x == v && isNilConst(r.y)) || (r.y == v && isNilConst(r.x))) {
			return true
		}
	}
	return false
}

// globalLoaded: v is a load of package-level variable g.
func globalLoaded(v ssa.Value) *ssa.Global {
	u, ok := v.(*ssa.UnOp)
	if !ok || u.Op != token.MUL {
		return nil
	}
	g, _ := u.X.(*ssa.Global)
	return g
}

// EqGlobal / NeGlobal: facts comparing v with a load of the global g.
func (s factSet) EqGlobal(v ssa.Value, g *ssa.Global) bool {
	for _, r := range s.Rels() {
		if r.op == relEQ && ((r.x == v && globalLoaded(r.y) == g) || (r.y == v && globalLoaded(r.x) == g)) {
			return true
		}
	}
	return false
}

func (s factSet) NeGlobal(v ssa.Value, g *ssa.Global) bool {
	for _, r := range s.Rels() {
		if r.op == relNE && ((r.x == v && globalLoaded(r.y) == g) || (r.y == v && globalLoaded(r.x) == g)) {
			return true
		}
	}
	return false
}

// Truth reports whether the boolean SSA value cond is known true / false.
func (s factSet) Truth(cond ssa.Value) (known bool, val bool) {
	truth := true
	for {
		if u, ok := cond.(*ssa.UnOp); ok && u.Op == token.NOT {
			cond, truth = u.X, !truth
			continue
		}
		break
	}
	if s[fact{cond, true}] {
		return true, truth
	}
	if s[fact{cond, false}] {
		return true, !truth
	}
	return false, false
}

// ---- CFG helpers ------------------------------------------------------------------------

// reachableFrom returns the set of blocks reachable from the given start blocks, not passing
// through blocks in stop (stop blocks themselves are included if reached, but not expanded).
func reachableFrom(starts []*ssa.BasicBlock, stop map[*ssa.BasicBlock]bool) map[*ssa.BasicBlock]bool {
	seen := map[*ssa.BasicBlock]bool{}
	var work []*ssa.BasicBlock
	for _, s := range starts {
		if !seen[s] {
			seen[s] = true
			work = append(work, s)
		}
	}
	for len(work) > 0 {
		b := work[len(work)-1]
		work = work[:len(work)-1]
		if stop[b] {
			continue
		}
		for _, s := range b.Succs {
			if !seen[s] {
				seen[s] = true
				work = append(work, s)
			}
		}
	}
	return seen
}

// instrIndex returns the index of in within its block.
func instrIndex(in ssa.Instruction) int {
	for i, x := range in.Block().Instrs {
		if x == in {
			return i
		}
	}
	return -1
}

// dominatesInstr: a is executed before b on every path reaching b.
func dominatesInstr(a, b ssa.Instruction) bool {
	if a.Block() == b.Block() {
		return instrIndex(a) < instrIndex(b)
	}
	return a.Block().Dominates(b.Block())
}

// canReach: is there a path from (after) instruction a to instruction b?
func canReach(a, b ssa.Instruction) bool {
	if a.Block() == b.Block() && instrIndex(a) < instrIndex(b) {
		return true
	}
	r := reachableFrom(a.Block().Succs, nil)
	return r[b.Block()]
}

// returnsOf lists the Return instructions of fn.
func returnsOf(fn *ssa.Function) []*ssa.Return {
	var out []*ssa.Return
	for _, b := range fn.Blocks {
		if len(b.Instrs) == 0 {
			continue
		}
		if r, ok := b.Instrs[len(b.Instrs)-1].(*ssa.Return); ok {
			out = append(out, r)
		}
	}
	return out
}

// allInstrs iterates over the instructions of fn.
func allInstrs(fn *ssa.Function, f func(in ssa.Instruction)) {
	for _, b := range fn.Blocks {
		for _, in := range b.Instrs {
			f(in)
		}
	}
}

// callsIn lists call instructions (Call, Defer, Go) in fn.
func callsIn(fn *ssa.Function) []ssa.CallInstruction {
	var out []ssa.CallInstruction
	allInstrs(fn, func(in ssa.Instruction) {
		if c, ok := in.(ssa.CallInstruction); ok {
			out = append(out, c)
		}
	})
	return out
}

// effectiveResults: go/ssa stores return operands into result variables, runs deferred calls
// and reloads them when a function has a defer (or named results). When the reloaded variable
// was stored in the same block just before, the stored value is the returned value (provided no
// deferred closure writes the variable, which is checked: the alloc must have no MakeClosure
// referrer).
func effectiveResults(ret *ssa.Return) []ssa.Value {
	out := make([]ssa.Value, len(ret.Results))
	b := ret.Block()
	for i, v := range ret.Results {
		out[i] = v
		u, ok := v.(*ssa.UnOp)
		if !ok || u.Op != token.MUL {
			continue
		}
		a, ok := u.X.(*ssa.Alloc)
		if !ok {
			continue
		}
		captured := false
		for _, r := range referrersOf(a) {
			if _, ok := r.(*ssa.MakeClosure); ok {
				captured = true
			}
		}
		if captured {
			continue
		}
		for j := len(b.Instrs) - 1; j >= 0; j-- {
			if st, ok := b.Instrs[j].(*ssa.Store); ok && st.Addr == a {
				out[i] = st.Val
				break
			}
		}
	}
	return out
}

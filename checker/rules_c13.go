package main

import (
	"fmt"
	"go/token"
	"go/types"
	"sort"
	"strings"

	"golang.org/x/tools/go/ssa"
)

func init() {
	register(&ruleSet{
		id:    "C13",
		title: "a program's meaning depends only on its tokens",
		run:   runC13,
		decided: "newlines are dropped by the parser's advance() and remembered in one flag that is read only by the statement-end test, which is called only at statement boundaries (after a statement in a block, after `return`, before each print argument and after the print list) — so a newline between any other two tokens cannot change the parse; the lexical tables: keywords are recognised on the whole maximal letter/digit/underscore run and map to their token tags; numeric literals accept digits and '.' only (never a byte that starts an operator); both quote characters reach the same string scanner, which ends at the opening quote character and processes no escapes; the escape table applied when a string literal is evaluated (\\n, \\t, \\\\; anything else and a trailing backslash are errors; other bytes copied unchanged) and every evaluation of a literal goes through it; blanks skipped are exactly space, CR, TAB and #-comments up to but excluding the newline, which is a token; the operator spellings (one- and two-byte forms, longest match first)." +
			" Numeric literals are evaluated by strconv.ParseFloat alone; the string scanner advances exactly one unconditional byte per step; EOF is produced only under atEnd(); the statement-end test answers true as soon as a newline was seen; a prefix operator takes its operand from the precedence-climbing function on every path." +
			" A statement end that was found (a consumed ';') is recorded before the parsing function returns; Lexer.src is the caller's text unchanged." +
			" An answer of the statement-end test is never dropped." +
			" Every successful advance clears the newline flag before it may set it. After a statement end is recorded no cursor move follows; the parser's entry points into the lexer are Next and Regex.",
		notDecided: "where exactly the parser lets a newline end a statement (it depends on the dynamic didEndStatement flag across calls); only the structural clause that the flag is consulted at statement boundaries alone is decided.",
	})
}

var keywordOracle = map[string]string{
	"BEGIN": "Begin", "END": "End", "BEGINFILE": "BeginFile", "ENDFILE": "EndFile", "print": "Print", "$": "Dollar",
	"function": "Function", "return": "Return", "if": "If", "else": "Else", "for": "For", "while": "While", "in": "In",
	"match": "Match", "true": "True", "false": "False", "break": "Break", "continue": "Continue", "next": "Next",
	"exit": "Exit", "null": "Null", "is": "Is",
}

var operatorOracle = map[string]string{
	"{": "LCurly", "}": "RCurly", "[": "LSquare", "]": "RSquare", "(": "LParen", ")": "RParen", ",": "Comma", ".": "Dot",
	";": "SemiColon", ":": "Colon", "~": "Tilde", "%": "Percent",
	"<": "LessThan", "<=": "LessEqual", ">": "GreaterThan", ">=": "GreaterEqual",
	"+": "Plus", "++": "PlusPlus", "+=": "PlusEqual", "-": "Minus", "--": "MinusMinus", "-=": "MinusEqual",
	"*": "Multiply", "*=": "MultiplyEqual", "/": "Divide", "/=": "DivideEqual",
	"=": "Equal", "==": "EqualEqual", "=>": "Arrow", "!": "Bang", "!=": "BangEqual", "!~": "BangTilde",
	"&&": "AmpAmp", "||": "PipePipe",
}

// tokenTagOf: the constant Tag of a Token value built by the lexer helpers.
func tokenTagOf(p *Program, v ssa.Value) string {
	return tokenTagOfText(p.Render(v))
}

func tokenTagOfText(r string) string {
	if strings.HasPrefix(r, "lang.Token{Tag: ") {
		inner := strings.TrimPrefix(r, "lang.Token{Tag: ")
		if i := strings.IndexAny(inner, ",}"); i >= 0 {
			return inner[:i]
		}
	}
	return ""
}

func runC13(c *Ctx) {
	p := c.P
	// R1 keyword table
	c.note("R1 keyword-table: Lexer.identifier scans while the byte is '_' / a letter / a digit, takes the whole run src[tokenStart:pos] and compares it with the keyword strings; the extracted map string -> tag must equal the language reference's 21 reserved words + `$`; anything else is an Ident token spanning the run.")
	id := p.LangFunc("(*Lexer).identifier")
	if id == nil {
		c.undecided("R1", "identifier", "", "anchor (*Lexer).identifier not found")
	} else {
		got := map[string]string{}
		identOK := false
		for _, rc := range p.successResults(id) {
			tag := tokenTagOfText(rc.Value)
			if tag == "Ident" {
				identOK = rc.Value == "lang.Token{Tag: Ident, Pos: l.tokenStart, Len: (l.pos - l.tokenStart)}"
				continue
			}
			for _, g := range rc.Guards {
				if strings.HasPrefix(g, "l.src[l.tokenStart:l.pos] == ") {
					got[strings.Trim(strings.TrimPrefix(g, "l.src[l.tokenStart:l.pos] == "), `"`)] = tag
				}
			}
		}
		if len(got) == 0 {
			// the switch may assign the tag and build the token once after it: the tag is a merge of
			// constants whose incoming edges carry `word == "kw"`
			tagNames := constNames(p.Lang.Types, "TokenTag")
			allInstrs(id, func(in ssa.Instruction) {
				phi, ok := in.(*ssa.Phi)
				if !ok || !isLangNamed(phi.Type(), "TokenTag") || len(phi.Edges) < 10 {
					return
				}
				for i, e := range phi.Edges {
					k, isC := constInt(e)
					if !isC {
						continue
					}
					for _, rl := range FactsOf(id).OnEdge(phi.Block().Preds[i], phi.Block()).Rels() {
						if w, isS := constString(rl.y); isS && rl.op == relEQ && p.Render(rl.x) == "l.src[l.tokenStart:l.pos]" {
							got[w] = tagNames[k]
						}
					}
				}
				// the merged tag is what the token carries
				used := false
				for _, rc := range p.successResults(id) {
					if strings.Contains(rc.Value, "Tag: "+p.Render(phi)) {
						used = true
					}
				}
				if !used {
					got = map[string]string{}
				}
			})
		}
		if len(got) == 0 {
			// the keywords may be kept in a package-level table that the word is looked up in:
			// `if tag, ok := table[word]; ok { return token(tag) }`; the table's entries are those its
			// initialiser stores, and nothing else may write to it
			tagNames := constNames(p.Lang.Types, "TokenTag")
			allInstrs(id, func(in ssa.Instruction) {
				lk, ok := in.(*ssa.Lookup)
				if !ok || !lk.CommaOk || p.Render(lk.Index) != "l.src[l.tokenStart:l.pos]" {
					return
				}
				ld, ok := lk.X.(*ssa.UnOp)
				if !ok {
					return
				}
				g, ok := ld.X.(*ssa.Global)
				if !ok {
					return
				}
				// the looked-up tag is what the token carries, under ok
				used := false
				for _, rc := range p.successResults(id) {
					if strings.Contains(rc.Value, "Tag: "+p.Render(lk)+"#0") {
						for _, gd := range rc.Guards {
							if gd == p.Render(lk)+"#1" {
								used = true
							}
						}
					}
				}
				if !used {
					return
				}
				for _, fn := range p.Funcs {
					allInstrs(fn, func(in2 ssa.Instruction) {
						mu, ok := in2.(*ssa.MapUpdate)
						if !ok {
							return
						}
						ld2, ok := mu.Map.(*ssa.UnOp)
						var tgt ssa.Value = mu.Map
						if ok {
							tgt = ld2.X
						}
						isTable := tgt == ssa.Value(g)
						if mm, ok := mu.Map.(*ssa.MakeMap); ok {
							// the literal being built before it is stored into the global
							for _, r := range referrersOf(mm) {
								if st, ok := r.(*ssa.Store); ok && st.Addr == ssa.Value(g) {
									isTable = true
								}
							}
						}
						if !isTable {
							return
						}
						if fn.Name() != "init" {
							got["(written in "+shortName(fn)+")"] = "?"
							return
						}
						k, okK := constString(mu.Key)
						v, okV := constInt(mu.Value)
						if okK && okV {
							got[k] = tagNames[v]
						} else {
							got["(non-constant entry)"] = "?"
						}
					})
				}
			})
		}
		var words []string
		for w := range keywordOracle {
			words = append(words, w)
		}
		sort.Strings(words)
		for _, w := range words {
			c.check(got[w] == keywordOracle[w], "R1", "keyword "+w, p.Pos(id.Pos()), w+" -> "+got[w], fmt.Sprintf("the whole word %q lexes as %q; the language reference says %s", w, got[w], keywordOracle[w]))
		}
		for w, t := range got {
			if _, ok := keywordOracle[w]; !ok {
				c.undecided("R1", "keyword "+w, p.Pos(id.Pos()), "word "+w+" -> "+t+" is not in the oracle: the language was extended")
			}
		}
		c.check(identOK, "R1", "identifier-default", p.Pos(id.Pos()), "any other run is an Ident token spanning the run", "the default result is not Token{Ident, tokenStart, pos - tokenStart}")
		// the scan loop: continue while '_' | IsLetter | IsDigit
		var conds []string
		for _, rc := range p.renderedCalls(id) {
			if strings.HasPrefix(rc.Text, "unicode.Is") {
				conds = append(conds, strings.SplitN(rc.Text, "(", 2)[0])
			} else if isDigitByteHelper(p, rc.Call.Common().StaticCallee()) {
				conds = append(conds, "unicode.IsDigit") // '0' <= c && c <= '9' on a byte
			}
		}
		sort.Strings(conds)
		under := false
		allInstrs(id, func(in ssa.Instruction) {
			if b, ok := in.(*ssa.BinOp); ok {
				if k, ok := constInt(b.Y); ok && k == '_' {
					under = true
				}
			}
		})
		c.check(strings.Join(conds, ",") == "unicode.IsDigit,unicode.IsLetter" && under, "R1", "identifier-class", p.Pos(id.Pos()), "run = '_' | letter | digit", "the identifier run is scanned with {"+strings.Join(conds, ", ")+fmt.Sprintf("} underscore=%v", under))
	}

	// R2 numeric literal class
	c.note("R2 numeric-literal-class: the bytes Lexer.number accepts besides unicode.IsDigit, extracted from the comparisons in its loop, must be exactly {'.'}; in particular no byte that starts an operator token.")
	num := p.LangFunc("(*Lexer).number")
	if num == nil {
		c.undecided("R2", "number", "", "anchor (*Lexer).number not found")
	} else {
		var extra []string
		allInstrs(num, func(in ssa.Instruction) {
			if b, ok := in.(*ssa.BinOp); ok {
				if k, ok := constInt(b.Y); ok && k > 0 && k < 256 {
					extra = append(extra, string(rune(k)))
				}
			}
		})
		sort.Strings(extra)
		digit := false
		for _, rc := range p.renderedCalls(num) {
			if strings.HasPrefix(rc.Text, "unicode.IsDigit(") || isDigitByteHelper(p, rc.Call.Common().StaticCallee()) {
				digit = true
			}
		}
		c.check(digit && strings.Join(extra, "") == ".", "R2", "numeric-class", p.Pos(num.Pos()), "digits and '.'", "the numeric literal scan accepts digits="+fmt.Sprint(digit)+" plus the bytes {"+strings.Join(extra, " ")+"}: a literal absorbs an adjacent operator (`3-1` becomes one token)")
		for _, rc := range p.successResults(num) {
			c.check(rc.Value == "lang.Token{Tag: Num, Pos: l.tokenStart, Len: (l.pos - l.tokenStart)}", "R2", "numeric-token", p.InstrPos(rc.Ret), "Num token spanning the run", "the numeric token is "+rc.Value)
		}
	}

	c13NumericEvaluation(c)
	// the lexer scans exactly the text it was given
	{
		n := 0
		for _, fn := range p.Funcs {
			if !p.InLang(fn) {
				continue
			}
			for _, st := range storesToField(fn, "Lexer", "src", false) {
				n++
				_, isParam := st.Val.(*ssa.Parameter)
				c.check(isParam && isBasicString(st.Val.Type()), "R3", fmt.Sprintf("lexer-source-unmodified #%d in %s", n, shortName(fn)), p.InstrPos(st), "Lexer.src is the caller's text itself", "Lexer.src is set to "+p.Render(st.Val)+", not to the text the caller passed: bytes inside string and regex literals (which are scanned raw and may span lines) are rewritten before they are lexed")
			}
		}
		if n == 0 {
			c.undecided("R3", "lexer-source-unmodified", "", "no store to Lexer.src found")
		}
	}
	c.shared("R7", "C06/R1", "a numeric literal never absorbs an adjacent sign: the prefix-operator parselet obtains its operand from the precedence-climbing function on every path (no path builds the node from the raw token stream)", keyHas("rbp lang.unary", "rbp-bypass", "rbp lang.literal"), func(s *Ctx) {
		m := extractPratt(s.P)
		prattParselets(s, m)
	})
	c.shared("R9", "C14/R2", "a quoted literal denotes exactly its characters wherever it stands in the program, at its very start and end included: the command line hands the program argument to the interpreter as it is (no stripping of `leftover` shell quotes)", keyHas("program-text"), c14R2)
	c13NewlineFlag(c)
	c13Operators(c)
	c13Blanks(c)
	c13Strings(c)
	c13Escapes(c)
	c13SourceOwner(c)
}

// R8 source-text-read-by-the-lexer-only: a token carries a tag, a position and a length, never the quote
// that opened a literal (R3 string-token), so which quote was written can reach the parser or the
// evaluator only by reading the program text itself. Every read of Lexer.src lies in the lexer.
func c13SourceOwner(c *Ctx) {
	p := c.P
	c.note("R8 source-text-read-by-the-lexer-only: every access to the field Lexer.src is in NewLexer or a method of Lexer; the parser and the evaluator see the text of a token through GetString(token) only, so nothing after the lexer can tell a '…' literal from a \"…\" literal (tokens carry no quote: R3 string-token).")
	for _, fn := range p.Funcs {
		if !p.InLang(fn) {
			continue
		}
		owner := shortName(fn) == "lang.NewLexer"
		if r := fn.Signature.Recv(); r != nil {
			T := r.Type()
			if pt, ok := T.(*types.Pointer); ok {
				T = pt.Elem()
			}
			owner = owner || isLangNamed(T, "Lexer")
		}
		for par := fn.Parent(); par != nil && !owner; par = par.Parent() {
			if r := par.Signature.Recv(); r != nil {
				T := r.Type()
				if pt, ok := T.(*types.Pointer); ok {
					T = pt.Elem()
				}
				owner = isLangNamed(T, "Lexer")
			}
		}
		n := 0
		allInstrs(fn, func(in ssa.Instruction) {
			v, ok := in.(ssa.Value)
			if !ok {
				return
			}
			sf, isF := fieldOfAddr(v)
			if !isF {
				if fv, isFV := v.(*ssa.Field); isFV {
					sf, isF = loadedField(fv)
				}
			}
			if !isF || !sf.Is("Lexer", "src") {
				return
			}
			n++
			c.check(owner, "R8", fmt.Sprintf("source-text-read-by-the-lexer-only %s #%d", shortName(fn), n), p.InstrPos(in), "the program text is read by the lexer", "the program text is read outside the lexer: what surrounds a token (the quote that opened a literal, blanks, a sign) becomes visible behind the token stream, where `'x'` and `\"x\"` are one and the same token")
		})
	}
	c.floor("R8", 8)
}

// R5 operator-token table (and R4's newline token, '$', quotes dispatch)
func c13Operators(c *Ctx) {
	p := c.P
	c.note("R5 operator-token-table: in Lexer.Next, per returned token: the constant the first byte (the value `c` peeked before advancing) is known to equal, and the constant the following peek is known to equal (two-byte forms) or known to differ from (one-byte forms). The extracted map spelling -> tag must equal the language reference (34 spellings); each one-byte form must exclude every continuation that forms a two-byte operator (longest match).")
	nx := p.LangFunc("(*Lexer).Next")
	if nx == nil {
		c.undecided("R5", "Next", "", "anchor (*Lexer).Next not found")
		return
	}
	// c: the first peek call
	var cVal *ssa.Call
	for _, call := range callsIn(nx) {
		if cv, ok := call.(*ssa.Call); ok && staticCalleeIs(cv, "(*lang.Lexer).peek") {
			if cVal == nil || dominatesInstr(cv, cVal) {
				cVal = cv
			}
		}
	}
	if cVal == nil {
		c.undecided("R5", "first-byte", p.Pos(nx.Pos()), "no peek call found")
		return
	}
	got := map[string]string{}
	excl := map[string]map[string]bool{}
	special := map[string]string{}
	// the dispatch on the first byte sits in Next, or partly in a helper of its own that Next hands
	// the byte to in tail position (`return l.operator(c)`): both are read, the helper with its
	// parameter standing for the byte
	type opScope struct {
		fn *ssa.Function
		cv ssa.Value
	}
	scopes := []opScope{{nx, cVal}}
	handedOver := map[*ssa.Return]bool{}
	for _, r := range returnsOf(nx) {
		res := effectiveResults(r)
		ex, ok := res[0].(*ssa.Extract)
		if !ok {
			continue
		}
		hc, ok := ex.Tuple.(*ssa.Call)
		if !ok {
			continue
		}
		h := hc.Call.StaticCallee()
		if h == nil || !p.InLang(h) || h == nx || len(h.Blocks) == 0 || len(h.Params) != len(hc.Call.Args) || !isPrivateTo(p, h, nx) {
			continue
		}
		for i, a := range hc.Call.Args {
			if a == ssa.Value(cVal) {
				scopes = append(scopes, opScope{h, h.Params[i]})
				handedOver[r] = true
			}
		}
	}
	for _, sc := range scopes {
		nx, cVal, F := sc.fn, sc.cv, FactsOf(sc.fn)
		for _, r := range returnsOf(nx) {
			if handedOver[r] {
				continue
			}
			res := effectiveResults(r)
			tag := tokenTagOf(p, res[0])
			first, second := "", ""
			ne := map[string]bool{}
			for _, rl := range F.At(r.Block()).Rels() {
				k, ok := constInt(rl.y)
				if !ok || k <= 0 || k > 255 {
					continue
				}
				ch := string(rune(k))
				isC := rl.x == ssa.Value(cVal)
				isPeek := false
				if pc, ok := rl.x.(*ssa.Call); ok && pc != cVal && staticCalleeIs(pc, "(*lang.Lexer).peek") {
					isPeek = true
				}
				switch {
				case isC && rl.op == relEQ:
					first = ch
				case isPeek && rl.op == relEQ:
					second = ch
				case isPeek && rl.op == relNE:
					ne[ch] = true
				}
			}
			// a table of one-byte tokens indexed by the byte: `if tag := table[c]; tag != 0 { return token(tag) }`
			// (the table's entries are those its initialiser stores; nothing else may write to it)
			if tb := byteTableOf(p, res[0], cVal); tb != nil {
				for k, t := range tb {
					if t == "(written elsewhere)" {
						c.undecided("R5", "byte-table", p.InstrPos(r), "the token table indexed by the first byte is written outside its initialiser")
						continue
					}
					got[string(rune(k))] = t
					if excl[string(rune(k))] == nil {
						excl[string(rune(k))] = map[string]bool{}
					}
				}
				continue
			}
			if first == "" {
				continue
			}
			// the token comes from a private helper given the tags as arguments (`return l.opOrOpEqual(A, B), nil`):
			// its returns are this arm's returns, with the helper's own tests of the following byte
			if hc, ok := res[0].(*ssa.Call); ok && tag == "" {
				tagArg := false
				for _, a := range hc.Call.Args {
					if _, isC := a.(*ssa.Const); isC && isLangNamed(a.Type(), "TokenTag") {
						tagArg = true
					}
				}
				if h := hc.Call.StaticCallee(); tagArg && h != nil && p.InLang(h) && h != nx && len(h.Params) == len(hc.Call.Args) && isPrivateTo(p, h, nx) {
					sub := &renderer{p: p, subst: map[*ssa.Parameter]string{}}
					for i, prm := range h.Params {
						sub.subst[prm] = p.Render(hc.Call.Args[i])
					}
					FH := FactsOf(h)
					expanded := false
					for _, rr := range returnsOf(h) {
						ht := tokenTagOfText(sub.val(effectiveResults(rr)[0], 0))
						if ht == "" {
							continue
						}
						expanded = true
						sec := ""
						hne := map[string]bool{}
						for _, rl := range FH.At(rr.Block()).Rels() {
							k, ok := constInt(rl.y)
							if !ok || k <= 0 || k > 255 {
								continue
							}
							if pc, ok := rl.x.(*ssa.Call); ok && staticCalleeIs(pc, "(*lang.Lexer).peek") {
								if rl.op == relEQ {
									sec = string(rune(k))
								} else if rl.op == relNE {
									hne[string(rune(k))] = true
								}
							}
						}
						got[first+sec] = ht
						if sec == "" {
							excl[first] = hne
						}
					}
					if expanded {
						continue
					}
				}
			}
			if tag == "" {
				special[first] = p.Render(res[0])
				continue
			}
			if tag == "Error" {
				continue
			}
			got[first+second] = tag
			if second == "" {
				excl[first] = ne
			}
		}
	}
	F := FactsOf(nx)
	var sp []string
	for s := range operatorOracle {
		sp = append(sp, s)
	}
	sort.Strings(sp)
	for _, s := range sp {
		c.check(got[s] == operatorOracle[s], "R5", "spelling "+s, p.Pos(nx.Pos()), s+" -> "+got[s], fmt.Sprintf("%q lexes as %q; the language reference says %s", s, got[s], operatorOracle[s]))
	}
	for s, t := range got {
		if _, ok := operatorOracle[s]; !ok && s != "\n" {
			c.undecided("R5", "spelling "+s, p.Pos(nx.Pos()), fmt.Sprintf("%q -> %s is not in the oracle", s, t))
		}
	}
	// longest match
	for _, s := range sp {
		if len(s) != 2 {
			continue
		}
		f, sec := s[:1], s[1:]
		if _, single := operatorOracle[f]; single {
			c.check(excl[f][sec], "R5", "longest-match "+f+" vs "+s, p.Pos(nx.Pos()), "the one-byte form is only returned when the next byte is not "+sec, fmt.Sprintf("%q can be returned although the next byte is %q: %q would lex as two tokens", f, sec, s))
		}
	}
	// EOF only at the real end of the text
	for _, r := range returnsOf(nx) {
		if tokenTagOf(p, effectiveResults(r)[0]) != "EOF" {
			continue
		}
		known, val := false, false
		for f := range F.At(r.Block()) {
			if call, _ := callOf(f.cond); call != nil && staticCalleeIs(call, "(*lang.Lexer).atEnd") {
				known, val = true, f.truth
			}
		}
		c.check(known && val, "R5", "eof-at-end-only", p.InstrPos(r), "EOF is returned only when the cursor is at the end of the text", "an EOF token is returned on a path where atEnd() is not established (e.g. on a NUL byte): the rest of the program text is silently ignored instead of being reported as a syntax error")
	}
	// newline is a token; quotes go to the string scanner with the opening byte
	c.check(got["\n"] == "Newline", "R4", "newline-token", p.Pos(nx.Pos()), "'\\n' -> Newline token", "a newline is not returned as a Newline token")
	_ = special
	quotes := map[string]bool{}
	for _, sc := range scopes {
		nx, cVal, F := sc.fn, sc.cv, FactsOf(sc.fn)
		for _, call := range callsIn(nx) {
			if !staticCalleeIs(call, "(*lang.Lexer).string") {
				continue
			}
			okArg := call.Common().Args[1] == ssa.Value(cVal)
			c.check(okArg, "R3", "string-terminator-argument", p.InstrPos(call), "the string scanner is given the opening quote byte", "Lexer.string is not called with the byte that opened the literal")
			b := call.Block()
			for len(b.Preds) == 1 {
				if ef, ok := edgeFact(b.Preds[0], b); ok {
					if rl, ok := relsOf(ef); ok && rl.op == relEQ && rl.x == ssa.Value(cVal) {
						break
					}
				}
				b = b.Preds[0]
			}
			preds := b.Preds
			if len(preds) == 1 {
				preds = []*ssa.BasicBlock{b.Preds[0]}
			}
			for _, pr := range preds {
				for _, rl := range F.OnEdge(pr, b).Rels() {
					if rl.op == relEQ && rl.x == ssa.Value(cVal) {
						if k, ok := constInt(rl.y); ok {
							quotes[string(rune(k))] = true
						}
					}
				}
			}
		}
	}
	var qs []string
	for q := range quotes {
		qs = append(qs, q)
	}
	sort.Strings(qs)
	c.check(strings.Join(qs, "") == "\"'", "R3", "quote-characters", p.Pos(nx.Pos()), "both ' and \" open a string literal scanned by the same scanner", "string literals are opened by {"+strings.Join(qs, " ")+"}; documented: single and double quotes, interchangeable")
}

// R4 blank table
func c13Blanks(c *Ctx) {
	p := c.P
	c.note("R4 blank-table: skipWhitespace advances over exactly ' ', '\\r', '\\t'; after '#' it advances while the next byte is not '\\n' (the newline itself is left for Next); any other byte ends the skip.")
	sw := p.LangFunc("(*Lexer).skipWhitespace")
	if sw == nil {
		c.undecided("R4", "skipWhitespace", "", "anchor not found")
		return
	}
	F := FactsOf(sw)
	skipped := map[string]bool{}
	commentStop := ""
	// a cursor move is a call of advance, or of a helper split off skipWhitespace that advances
	// (`l.skipComment()`)
	movers := func(fn *ssa.Function) []ssa.CallInstruction {
		var out []ssa.CallInstruction
		for _, call := range callsIn(fn) {
			h := call.Common().StaticCallee()
			if staticCalleeIs(call, "(*lang.Lexer).advance") {
				out = append(out, call)
			} else if h != nil && h != sw && p.inClusterOf(sw, h) {
				for _, hc := range callsIn(h) {
					if staticCalleeIs(hc, "(*lang.Lexer).advance") {
						out = append(out, call)
						break
					}
				}
			}
		}
		return out
	}
	for _, call := range movers(sw) {
		var eqs, nes []string
		if h := call.Common().StaticCallee(); !staticCalleeIs(call, "(*lang.Lexer).advance") {
			// inside the helper: every advance is under `next byte != '\n'`
			all := true
			for _, hc := range callsIn(h) {
				if !staticCalleeIs(hc, "(*lang.Lexer).advance") {
					continue
				}
				stops := false
				for _, rl := range FactsOf(h).At(hc.Block()).Rels() {
					if k, ok := constInt(rl.y); ok && rl.op == relNE && k == '\n' {
						stops = true
					}
				}
				if !stops {
					all = false
				}
			}
			if all {
				nes = append(nes, "\n")
			}
		}
		for _, rl := range F.At(call.Block()).Rels() {
			k, ok := constInt(rl.y)
			if !ok {
				continue
			}
			if rl.op == relEQ {
				eqs = append(eqs, string(rune(k)))
			}
			if rl.op == relNE {
				nes = append(nes, string(rune(k)))
			}
		}
		sort.Strings(eqs)
		if len(eqs) == 1 && eqs[0] == "#" {
			for _, n := range nes {
				if n == "\n" {
					commentStop = "\n"
				}
			}
			continue
		}
		// the blank arm: the block is reached from three equality tests; use the may-set
	}
	ms := p.maySetOf(sw, "(*lang.Lexer).peek(l)", []string{"32", "13", "9", "35", "10", "other"})
	for _, call := range movers(sw) {
		for _, k := range ms.At(call.Block()) {
			skipped[k] = true
		}
	}
	// no cursor move where the next byte is known to be the newline: a line break is a token (it ends a
	// statement), also behind a carriage return
	nMove := 0
	for _, call := range movers(sw) {
		nMove++
		overNewline := false
		for _, rl := range F.At(call.Block()).Rels() {
			if k, ok := constInt(rl.y); ok && rl.op == relEQ && k == '\n' {
				overNewline = true
			}
		}
		c.check(!overNewline, "R4", fmt.Sprintf("newline-never-skipped #%d", nMove), p.InstrPos(call), "the skip does not move over a newline", "skipWhitespace advances where the next byte is known to be '\\n' (the line feed of a CRLF pair, say): no Newline token is produced for that line break, and the statement it ended runs on into the next line")
	}
	var ks []string
	for k := range skipped {
		ks = append(ks, k)
	}
	sort.Strings(ks)
	// 35 ('#') reaches the comment loop's advance through its own peek tests; the may-set of the
	// outer switch value at the blank advance is {32, 13, 9}; at the comment advance {35}
	c.check(strings.Join(ks, ",") == "13,32,35,9", "R4", "blank-class", p.Pos(sw.Pos()), "space, CR, TAB are skipped; '#' starts a comment", "skipWhitespace advances for the byte classes {"+strings.Join(ks, ",")+"}; documented: 32 (space), 13 (CR), 9 (TAB) and 35 ('#' comment)")
	c.check(commentStop == "\n", "R4", "comment-stops-before-newline", p.Pos(sw.Pos()), "a comment is skipped up to but not including the newline", "the comment skip is not bounded by `next byte != '\\n'`: the newline that ends the statement would be swallowed with the comment")
}

// R3 string scanning
func c13Strings(c *Ctx) {
	p := c.P
	c.note("R3 string-scanner: Lexer.string advances while the next byte differs from the opening quote byte it was given (no escape processing at the lexical level), reports an unterminated string as an error and returns a Str token spanning the text between the quotes.")
	st := p.LangFunc("(*Lexer).string")
	if st == nil {
		c.undecided("R3", "string", "", "anchor (*Lexer).string not found")
		return
	}
	F := FactsOf(st)
	loopOK := false
	for _, call := range callsIn(st) {
		if !staticCalleeIs(call, "(*lang.Lexer).advance") {
			continue
		}
		for _, rl := range F.At(call.Block()).Rels() {
			if rl.op == relNE && p.Render(rl.x) == "(*lang.Lexer).peek(l)" && p.Render(rl.y) == "quoteChar" {
				loopOK = true
			}
		}
	}
	c.check(loopOK, "R3", "string-terminator", p.Pos(st.Pos()), "the scan continues while the next byte != the opening quote", "the string scan is not bounded by `next byte != quoteChar`")
	// one byte per step and no byte is special: every advance inside the scan is conditional on the
	// terminator test alone (a scanner that skips over `\"` ends "a\\" at the wrong quote)
	inScan := 0
	for _, call := range callsIn(st) {
		if !staticCalleeIs(call, "(*lang.Lexer).advance") {
			continue
		}
		bounded := false
		var extra []string
		for _, rl := range F.At(call.Block()).Rels() {
			g := p.Render(rl.x) + " " + rl.op.String() + " " + p.Render(rl.y)
			if g == "(*lang.Lexer).peek(l) != quoteChar" {
				bounded = true
				continue
			}
			extra = append(extra, g)
		}
		if !bounded {
			continue // the advance over the closing quote
		}
		inScan++
		c.check(len(extra) == 0, "R3", fmt.Sprintf("string-scan-step #%d", inScan), p.InstrPos(call), "the scan advances one byte per step whatever the byte is", "inside the string scan an advance is additionally conditional on {"+strings.Join(extra, " ; ")+"}: some byte sequences are treated specially at the lexical level, so a literal no longer denotes exactly the characters between its quotes")
	}
	c.check(inScan == 1, "R3", "string-scan-single-step", p.Pos(st.Pos()), "exactly one advance per scanned byte", fmt.Sprintf("%d advance calls inside the string scan (1 expected)", inScan))
	for _, rc := range p.successResults(st) {
		c.check(rc.Value == "lang.Token{Tag: Str, Pos: l.tokenStart, Len: ((l.pos - l.tokenStart) - 1)}", "R3", "string-token", p.InstrPos(rc.Ret), "Str token spanning the text between the quotes", "the string token is "+rc.Value)
	}
}

// R3 escape table + literal funnel
func c13Escapes(c *Ctx) {
	p := c.P
	c.note("R3 escape-table: evalString copies every byte other than '\\\\' unchanged; after a backslash: 'n' -> 0x0A, 't' -> 0x09, '\\\\' -> 0x5C, anything else -> error; a backslash as the last byte -> error. The text of an *ExprLiteral token is read (Lexer.GetString on the literal's token) only in evalExpr's literal arm, which passes Str and Ident texts through evalString.")
	es := p.LangFunc("(*Evaluator).evalString")
	if es == nil {
		c.undecided("R3", "evalString", "", "anchor not found")
		return
	}
	F := FactsOf(es)
	got := map[string]string{}
	plain := false
	allInstrs(es, func(in ssa.Instruction) {
		call, ok := in.(*ssa.Call)
		if !ok {
			return
		}
		bi, ok := call.Call.Value.(*ssa.Builtin)
		if !ok || bi.Name() != "append" {
			return
		}
		appended := p.RenderShort(call.Call.Args[1])
		var eq, ne []string
		for _, rl := range F.At(call.Block()).Rels() {
			k, ok := constInt(rl.y)
			if !ok {
				continue
			}
			if !strings.HasPrefix(p.RenderShort(rl.x), "str[") {
				continue
			}
			if rl.op == relEQ {
				eq = append(eq, string(rune(k)))
			} else if rl.op == relNE {
				ne = append(ne, string(rune(k)))
			}
		}
		if strings.HasPrefix(appended, "[str[") {
			for _, n := range ne {
				if n == "\\" {
					plain = true
				}
			}
			return
		}
		// constant appended under an escape letter: the facts contain the introducing
		// backslash and the letter
		sort.Strings(eq)
		removed := false
		for _, e := range eq {
			if e == "\\" && !removed {
				removed = true
				continue
			}
			got[e] = appended
		}
	})
	want := map[string]string{"n": "[10][:]", "t": "[9][:]", "\\": "[92][:]"}
	for k, v := range want {
		c.check(got[k] == v, "R3", "escape \\"+k, p.Pos(es.Pos()), "\\"+k+" -> "+v, fmt.Sprintf("escape \\%s appends %q; documented %s", k, got[k], v))
	}
	for k := range got {
		if _, ok := want[k]; !ok {
			c.undecided("R3", "escape \\"+k, p.Pos(es.Pos()), "escape letter not in the oracle")
		}
	}
	c.check(plain, "R3", "non-escape-bytes", p.Pos(es.Pos()), "bytes other than backslash are copied unchanged", "no `append(buf, b)` under b != '\\\\'")
	// error arms
	errs := map[string]bool{}
	for _, r := range returnsOf(es) {
		e := p.Render(effectiveResults(r)[1])
		if strings.Contains(e, "unknown escape char") {
			errs["unknown"] = true
		}
		if strings.Contains(e, "at end of string") {
			g := map[string]bool{}
			for _, rl := range F.At(r.Block()).Rels() {
				g[p.RenderShort(rl.x)+" "+rl.op.String()+" "+p.RenderShort(rl.y)] = true
			}
			errs["trailing"] = g["φint0 == (len(str) - 1)"]
		}
	}
	c.check(errs["unknown"], "R3", "unknown-escape-is-error", p.Pos(es.Pos()), "any other escape letter is an error", "no `unknown escape char` error arm")
	c.check(errs["trailing"], "R3", "trailing-backslash-is-error", p.Pos(es.Pos()), "a trailing backslash is an error, detected before the next byte is read", "the trailing-backslash error is not raised under i == len(str)-1")
	// funnel: GetString on an ExprLiteral token
	le := literalEvaluator(p)
	for i, bad := range le.outside {
		c.violated("R3", fmt.Sprintf("literal-text-read outside #%d", i+1), bad, "the text of a literal token is read outside the evaluator's literal arm: string literals evaluated on this path skip escape processing and validation")
	}
	for i, call := range le.reads {
		c.ok("R3", fmt.Sprintf("literal-text-read #%d", i+1), p.InstrPos(call), "literal text is read in the literal arm of "+shortName(le.fn))
	}
	if len(le.reads) < 3 {
		c.undecided("R3", "literal-text-reads", "", fmt.Sprintf("%d reads of literal token text found, 3 confirmed by hand", len(le.reads)))
	}
	// Str / Ident texts go through evalString
	if le.fn != nil {
		ok := false
		for _, call := range callsIn(le.fn) {
			if staticCalleeIs(call, "(*lang.Evaluator).evalString") {
				if gs, _ := callOf(call.Common().Args[1]); gs != nil && staticCalleeIs(gs, "(*lang.Lexer).GetString") {
					ok = p.Render(gs.Call.Args[1]) == "&"+le.lit+".token"
				}
				ms := p.maySetOf(le.fn, le.lit+".token.Tag", []string{"Str", "Ident", "Regex", "Num", "True", "False", "Null", "other"})
				tags := strings.Join(ms.At(call.Block()), ",")
				c.check(tags == "Ident,Str", "R3", "string-literals-use-evalString", p.InstrPos(call), "Str and Ident literal texts are unescaped by evalString", "evalString is applied to literal kinds {"+tags+"}")
			}
		}
		c.check(ok, "R3", "evalString-argument", p.Pos(le.fn.Pos()), "evalString(text of the literal token)", "evalString is not applied to the literal token's own text")
	}
}

// literalEvaluator finds where literal tokens are evaluated: the ExprLiteral arm of evalExpr, or a
// private helper that this arm hands the node to.
type litEval struct {
	fn      *ssa.Function
	lit     string // rendering of the *ExprLiteral there
	reads   []ssa.CallInstruction
	outside []string
}

func literalEvaluator(p *Program) litEval {
	var le litEval
	ee := p.LangFunc("(*Evaluator).evalExpr")
	if ee == nil {
		return le
	}
	inLiteralArm := func(in ssa.Instruction) bool {
		if in.Parent() != ee {
			return false
		}
		for _, tc := range typeCasesOn(ee, ee.Params[1]) {
			if tc.TypeName == "ExprLiteral" && caseRegion(tc)[in.Block()] {
				return true
			}
		}
		return false
	}
	for _, fn := range p.Funcs {
		if !p.InLang(fn) {
			continue
		}
		for _, call := range callsIn(fn) {
			if !staticCalleeIs(call, "(*lang.Lexer).GetString") {
				continue
			}
			fa, ok := call.Common().Args[1].(*ssa.FieldAddr)
			if !ok {
				continue
			}
			sf, ok := fieldOfAddr(fa)
			if !ok || sf.Struct == nil || sf.Struct.Obj().Name() != "ExprLiteral" {
				continue
			}
			okSite := inLiteralArm(call)
			if !okSite && fn != ee && fn.Parent() == nil {
				// a helper that receives the literal node and is only called from the literal arm
				if _, isParam := fa.X.(*ssa.Parameter); isParam {
					sites := p.CallSitesOf(fn)
					okSite = len(sites) > 0
					for _, cs := range sites {
						if !p.inTestFile(cs.Parent()) && !inLiteralArm(cs) {
							okSite = false
						}
					}
				}
			}
			if !okSite {
				le.outside = append(le.outside, p.InstrPos(call))
				continue
			}
			if le.fn != nil && le.fn != fn {
				le.outside = append(le.outside, p.InstrPos(call))
				continue
			}
			le.fn = fn
			le.lit = p.Render(fa.X)
			le.reads = append(le.reads, call)
		}
	}
	return le
}

// R6 newline-flag-readers
func c13NewlineFlag(c *Ctx) {
	p := c.P
	c.note("R6 newline-flag-readers: Parser.didEndStatement is loaded only inside atStatementEnd; atStatementEnd is called only from block (after a statement), statement (after `return`) and printStatement (before an argument / after the list); advance() is the only function that consumes Newline tokens (it skips them and sets the flag). Any other reader would make a newline between two tokens of an expression or a list significant.")
	n := 0
	for _, fn := range p.Funcs {
		if !p.InLang(fn) {
			continue
		}
		allInstrs(fn, func(in ssa.Instruction) {
			u, ok := in.(*ssa.UnOp)
			if !ok {
				return
			}
			sf, ok := loadedField(u)
			if !ok || !sf.Is("Parser", "didEndStatement") {
				return
			}
			n++
			c.check(shortName(fn) == "(*lang.Parser).atStatementEnd", "R6", fmt.Sprintf("flag-read #%d in %s", n, shortName(fn)), p.InstrPos(u), "read by the statement-end test", "the newline flag is read in "+shortName(fn)+": a newline (alone or after a comment) placed between two tokens there changes how the program parses")
		})
	}
	if n == 0 {
		c.undecided("R6", "flag-reads", "", "no read of Parser.didEndStatement found")
	}
	// the flag describes the gap before the *current* token only: every successful advance first
	// clears it (and sets it again only when it skipped a newline) — a flag left over from a line
	// break inside an earlier expression would end a later print list or statement early
	if adv := p.LangFunc("(*Parser).advance"); adv != nil {
		var clears []*ssa.Store
		for _, st := range storesToField(adv, "Parser", "didEndStatement", false) {
			if b, isC := constBool(st.Val); isC && !b {
				clears = append(clears, st)
			}
		}
		ek := EKOf(p)
		stale := ""
		for _, r := range returnsOf(adv) {
			res := effectiveResults(r)
			if !ek.KindsAt(res[len(res)-1], FactsOf(adv).At(r.Block())).Has(KNil) {
				continue
			}
			cleared := false
			for _, st := range clears {
				if dominatesInstr(st, r) {
					cleared = true
				}
			}
			if !cleared {
				stale = p.InstrPos(r)
			}
		}
		c.check(len(clears) > 0 && stale == "", "R6", "advance-clears-flag", p.Pos(adv.Pos()), "every successful advance clears the newline flag first", "advance can return successfully (at "+stale+") without having cleared Parser.didEndStatement: a line break seen earlier in the statement is still remembered when the statement-end test is asked later")
	} else {
		c.undecided("R6", "advance-clears-flag", "", "anchor (*Parser).advance not found")
	}
	ase := p.LangFunc("(*Parser).atStatementEnd")
	if ase == nil {
		c.undecided("R6", "atStatementEnd", "", "anchor not found")
		return
	}
	// the flag alone decides: the entry test is on the flag and its true edge returns true at once
	{
		entry := ase.Blocks[0]
		okFlag := false
		if ifi, ok := entry.Instrs[len(entry.Instrs)-1].(*ssa.If); ok {
			if sf, ok := loadedField(ifi.Cond); ok && sf.Is("Parser", "didEndStatement") {
				t := entry.Succs[0]
				if r, ok := t.Instrs[len(t.Instrs)-1].(*ssa.Return); ok && len(t.Instrs) <= 2 {
					if b, isC := constBool(effectiveResults(r)[0]); isC && b {
						okFlag = true
					}
				}
			}
		}
		c.check(okFlag, "R6", "newline-ends-statement", p.Pos(ase.Pos()), "after a newline the statement-end test answers true at once", "atStatementEnd does not answer `true` as soon as a newline was seen: whether a newline ends a statement now depends on what follows it (a bare print / return followed by a line starting with an operator swallows that line)")
	}
	// a statement end that was found (and, for `;`, consumed) is remembered for the caller: from the
	// edge on which atStatementEnd answered true, every return of the calling function passes a store
	// didEndStatement = true — otherwise `stmt; next` on one line fails where `stmt⏎next` parses
	{
		k := 0
		for _, cs := range p.CallSitesOf(ase) {
			cv, ok := cs.(*ssa.Call)
			f := cs.Parent()
			if !ok || p.inTestFile(f) {
				continue
			}
			var res ssa.Value
			for _, r := range referrersOf(cv) {
				if ex, ok := r.(*ssa.Extract); ok && ex.Index == 0 {
					res = ex
				}
			}
			tested := false
			if res != nil {
				for _, r := range referrersOf(res) {
					if _, ok := r.(*ssa.If); ok {
						tested = true
					}
				}
			}
			if !tested {
				k++
				c.violated("R6", fmt.Sprintf("statement-end-remembered #%d in %s", k, shortName(f)), p.InstrPos(cv), "the answer of atStatementEnd is dropped here: when it was true a `;` has been consumed and nothing records that the statement ended, so a statement following on the same line is a syntax error although the same tokens separated by a newline parse")
				continue
			}
			stores := map[*ssa.BasicBlock]bool{}
			for _, st := range storesToField(f, "Parser", "didEndStatement", false) {
				if b, isC := constBool(st.Val); isC && b {
					stores[st.Block()] = true
				}
			}
			for _, r := range referrersOf(res) {
				ifi, ok := r.(*ssa.If)
				if !ok {
					continue
				}
				k++
				trueEdge := ifi.Block().Succs[0]
				if un, isNot := ifi.Cond.(*ssa.UnOp); isNot && un.X == res {
					trueEdge = ifi.Block().Succs[1]
				}
				lostFrom := func(g *ssa.Function, starts []*ssa.BasicBlock, stop map[*ssa.BasicBlock]bool) string {
					lost := ""
					for b := range reachableFrom(starts, stop) {
						if stop[b] {
							continue
						}
						if ret, isRet := b.Instrs[len(b.Instrs)-1].(*ssa.Return); isRet {
							res := effectiveResults(ret)
							if EKOf(p).KindsAt(res[len(res)-1], FactsOf(g).At(b)).Has(KNil) {
								lost = p.InstrPos(ret)
							}
						}
					}
					return lost
				}
				lost := lostFrom(f, []*ssa.BasicBlock{trueEdge}, stores)
				if lost != "" {
					// a helper split off a statement boundary (`terminatedStatement`): its one caller records
					// the statement end before it returns successfully
					if sites := p.CallSitesOf(f); len(sites) == 1 && sites[0].Parent() != f {
						g := sites[0].Parent()
						gStores := map[*ssa.BasicBlock]bool{}
						for _, st := range storesToField(g, "Parser", "didEndStatement", false) {
							if b, isC := constBool(st.Val); isC && b {
								gStores[st.Block()] = true
							}
						}
						cb := sites[0].Block()
						if gStores[cb] {
							lost = ""
						} else {
							lost = lostFrom(g, cb.Succs, gStores)
						}
					}
				}
				c.check(lost == "", "R6", fmt.Sprintf("statement-end-remembered #%d in %s", k, shortName(f)), p.InstrPos(cv), "a found statement end is recorded before the function returns", "after atStatementEnd answered true the function can return successfully (at "+lost+") without recording the statement end: a `;` consumed here is forgotten, so a statement following on the same line is a syntax error although the same tokens separated by a newline parse")
			}
		}
		if k < 3 {
			c.undecided("R6", "statement-end-remembered", p.Pos(ase.Pos()), fmt.Sprintf("%d tests of atStatementEnd's answer found, 4 confirmed by hand", k))
		}
	}
	// a recorded statement end stays recorded: advance() clears the flag on every cursor move, so after
	// `didEndStatement = true` no call that passes the parser on is executed before the function returns
	// (setting the flag and *then* consuming the closing brace loses it unless a line break follows)
	{
		nSet := 0
		adv := p.LangFunc("(*Parser).advance")
		for _, f := range p.Funcs {
			if !p.InLang(f) || f == adv {
				continue
			}
			for _, st := range storesToField(f, "Parser", "didEndStatement", false) {
				if b, isC := constBool(st.Val); !isC || !b {
					continue
				}
				nSet++
				lost := ""
				for _, call := range callsIn(f) {
					passes := false
					for _, a := range call.Common().Args {
						if pt, ok := a.Type().(*types.Pointer); ok && isLangNamed(pt.Elem(), "Parser") {
							passes = true
						}
					}
					if !passes || staticCalleeIs(call, "(*lang.Parser).error") {
						continue
					}
					after := call.Block() == st.Block() && instrIndex(call) > instrIndex(st)
					if !after && call.Block() != st.Block() && reachableFrom(st.Block().Succs, nil)[call.Block()] {
						after = true
					}
					if after {
						lost = p.InstrPos(call)
					}
				}
				c.check(lost == "", "R6", fmt.Sprintf("statement-end-kept #%d in %s", nSet, shortName(f)), p.InstrPos(st), "no cursor move follows the recording of the statement end", "after the statement end is recorded the parser moves on ("+lost+"): advance() clears the flag, so the record survives only when a line break follows — `{ … } stmt` on one line is a syntax error while the same tokens on two lines parse")
			}
		}
		if nSet < 3 {
			c.undecided("R6", "statement-end-kept", "", fmt.Sprintf("%d stores of `didEndStatement = true` outside advance found, 4 confirmed by hand", nSet))
		}
	}
	// the parser gets its tokens from Lexer.Next (through advance, which handles line breaks) and, for a
	// regex literal, from Lexer.Regex; the other lexer methods it calls only read (GetString,
	// GetLineAndCol, error). A further scan-on-request entry point (`MemberName`) bypasses the handling of
	// line breaks in advance: a newline is then not interchangeable with a blank at that place
	{
		okLex := map[string]bool{"(*lang.Lexer).Next": true, "(*lang.Lexer).Regex": true, "(*lang.Lexer).GetString": true, "(*lang.Lexer).GetLineAndCol": true, "(*lang.Lexer).error": true}
		nLex := 0
		for _, f := range p.Funcs {
			if !p.InLang(f) || p.inTestFile(f) {
				continue
			}
			isParserFn := (f.Signature.Recv() != nil && strings.Contains(f.Signature.Recv().Type().String(), "Parser")) || (f.Parent() == nil && isParselet(f))
			if !isParserFn {
				continue
			}
			for _, call := range callsIn(f) {
				g := call.Common().StaticCallee()
				if g == nil || g.Signature.Recv() == nil || !strings.Contains(g.Signature.Recv().Type().String(), "Lexer") {
					continue
				}
				nLex++
				c.check(okLex[shortName(g)], "R6", "parser-lexer-entry "+shortName(g)+" from "+shortName(f), p.InstrPos(call), "a documented entry point of the lexer", "the parser calls "+shortName(g)+", a lexer entry point besides Next and Regex: tokens scanned on request do not pass advance(), which is where line breaks between tokens are handled")
			}
		}
		if nLex < 4 {
			c.undecided("R6", "parser-lexer-entry", "", fmt.Sprintf("%d calls of lexer methods from the parser found, 5 confirmed by hand", nLex))
		}
	}
	allowed := map[string]bool{"(*lang.Parser).block": true, "(*lang.Parser).statement": true, "(*lang.Parser).printStatement": true}
	callers := map[string]int{}
	for _, cs := range p.CallSitesOf(ase) {
		callers[shortName(cs.Parent())]++
	}
	for _, cs := range p.CallSitesOf(ase) {
		// a helper that only a statement boundary calls belongs to it
		f := cs.Parent()
		if sites := p.CallSitesOf(f); !allowed[shortName(f)] && len(sites) == 1 && allowed[shortName(sites[0].Parent())] {
			allowed[shortName(f)] = true
		}
	}
	for fn, k := range callers {
		c.check(allowed[fn], "R6", "statement-end-caller "+fn, "", fmt.Sprintf("%d call(s)", k), "atStatementEnd is consulted from "+fn+", which is not a statement boundary")
	}
	if len(callers) < 3 {
		c.undecided("R6", "statement-end-callers", "", fmt.Sprintf("callers found: %v; block, statement and printStatement confirmed by hand", callers))
	}
	// only advance() looks at Newline tokens
	for _, fn := range p.Funcs {
		if !p.InLang(fn) || p.pkgOfFunc(fn) != langPath {
			continue
		}
		if !strings.Contains(shortName(fn), "Parser") && fn.Parent() == nil && !isParselet(fn) {
			continue
		}
		allInstrs(fn, func(in ssa.Instruction) {
			b, ok := in.(*ssa.BinOp)
			if !ok {
				return
			}
			if !isLangNamed(b.X.Type(), "TokenTag") {
				return
			}
			if p.Render(b.Y) == "Newline" || p.Render(b.X) == "Newline" {
				c.check(shortName(fn) == "(*lang.Parser).advance", "R6", "newline-test in "+shortName(fn), p.InstrPos(b), "Newline tokens are handled by advance()", "the parser tests for a Newline token in "+shortName(fn))
			}
		})
	}
}

func isParselet(fn *ssa.Function) bool {
	sig := fn.Signature
	return sig.Params().Len() >= 1 && isLangNamed(sig.Params().At(0).Type(), "Parser")
}

// numeric literal evaluation
func c13NumericEvaluation(c *Ctx) {
	p := c.P
	c.note("R2 numeric-literal-evaluation: the literal arm of the evaluator turns a Num token into a number with strconv.ParseFloat(text, 64) and nothing else (no integer / radix-inferring parser in front of it); a failure is the runtime error `could not parse number`.")
	le := literalEvaluator(p)
	ee := le.fn
	if ee == nil {
		c.undecided("R2", "literal-evaluator", "", "the function that evaluates literal tokens was not found")
		return
	}
	abbrevLit := func(s string) string {
		t := "&" + le.lit + ".token"
		return strings.ReplaceAll(s, "e.lexer.src["+t+".Pos:("+t+".Len + "+t+".Pos)]", "TEXT")
	}
	var parsers []string
	for _, call := range callsIn(ee) {
		if f := call.Common().StaticCallee(); f != nil && strings.HasPrefix(f.String(), "strconv.") {
			parsers = append(parsers, abbrevLit(p.Render(call.Value())))
		}
	}
	want := "strconv.ParseFloat(TEXT, 64)"
	c.check(len(parsers) == 1 && parsers[0] == want, "R2", "numeric-literal-parser", p.Pos(ee.Pos()), want, "numeric literals are converted by {"+strings.Join(parsers, " ; ")+"}; documented: digit sequences with an optional fraction, read by ParseFloat alone (a base-inferring integer parser reads 010 as 8)")
	ms := p.maySetOf(ee, le.lit+".token.Tag", []string{"Str", "Ident", "Regex", "Num", "True", "False", "Null", "other"})
	got := map[string]bool{}
	for _, r := range returnsOf(ee) {
		res := effectiveResults(r)
		if errIdx := errResultIndex(ee.Signature); errIdx >= 0 && !EKOf(p).KindsAt(res[errIdx], FactsOf(ee).At(r.Block())).Has(KNil) {
			continue
		}
		tags := ms.At(r.Block())
		if len(tags) == 1 && tags[0] == "Num" {
			got[abbrevLit(p.Render(res[0]))] = true
		}
	}
	c.check(len(got) == 1 && got["&lang.Cell{Value: lang.NewValue(strconv.ParseFloat(TEXT, 64)#0)}"], "R2", "numeric-literal-value", p.Pos(ee.Pos()), "the literal's value is ParseFloat's result", "a numeric literal evaluates to {"+keysOf(got)+"}")
}

func abbrevLiteral(s string) string {
	return strings.ReplaceAll(s, "e.lexer.src[&expr.(*lang.ExprLiteral)#0.token.Pos:(&expr.(*lang.ExprLiteral)#0.token.Len + &expr.(*lang.ExprLiteral)#0.token.Pos)]", "TEXT")
}

// isPrivateTo: every call site of h (outside tests) is in fn
func isPrivateTo(p *Program, h, fn *ssa.Function) bool {
	n := 0
	for _, cs := range p.CallSitesOf(h) {
		if p.inTestFile(cs.Parent()) {
			continue
		}
		n++
		if cs.Parent() != fn {
			return false
		}
	}
	return n > 0
}

func isBasicString(T types.Type) bool {
	b, ok := T.Underlying().(*types.Basic)
	return ok && b.Kind() == types.String
}

// byteTableOf: when the token value `v` carries a tag read from a package-level array indexed by the
// byte `idx`, the entries of that array as its initialiser stores them (index -> tag name).
func byteTableOf(p *Program, v ssa.Value, idx ssa.Value) map[int64]string {
	var found *ssa.Global
	seen := map[ssa.Value]bool{}
	var walk func(x ssa.Value, d int)
	walk = func(x ssa.Value, d int) {
		if x == nil || seen[x] || d > 8 || found != nil {
			return
		}
		seen[x] = true
		if u, ok := x.(*ssa.UnOp); ok {
			if ia, ok := u.X.(*ssa.IndexAddr); ok && ia.Index == idx {
				if g, ok := ia.X.(*ssa.Global); ok {
					found = g
					return
				}
			}
		}
		if a, ok := x.(*ssa.Alloc); ok {
			for _, r := range referrersOf(a) {
				if fa, ok := r.(*ssa.FieldAddr); ok {
					for _, rr := range referrersOf(fa) {
						if st, ok := rr.(*ssa.Store); ok && st.Addr == ssa.Value(fa) {
							walk(st.Val, d+1)
						}
					}
				}
				if st, ok := r.(*ssa.Store); ok && st.Addr == ssa.Value(a) {
					walk(st.Val, d+1)
				}
			}
			return
		}
		if _, isPhi := x.(*ssa.Phi); isPhi {
			return
		}
		if in, ok := x.(ssa.Instruction); ok {
			for _, op := range in.Operands(nil) {
				if *op != nil {
					walk(*op, d+1)
				}
			}
		}
	}
	walk(v, 0)
	if found == nil {
		return nil
	}
	tagNames := constNames(p.Lang.Types, "TokenTag")
	out := map[int64]string{}
	for _, fn := range p.Funcs {
		allInstrs(fn, func(in ssa.Instruction) {
			st, ok := in.(*ssa.Store)
			if !ok {
				return
			}
			// element store directly into the global
			if ia, ok := st.Addr.(*ssa.IndexAddr); ok && ia.X == ssa.Value(found) {
				k, okK := constInt(ia.Index)
				t, okT := constInt(st.Val)
				if fn.Name() == "init" && okK && okT {
					out[k] = tagNames[t]
				} else {
					out[-1] = "(written elsewhere)"
				}
				return
			}
			if st.Addr != ssa.Value(found) {
				return
			}
			if fn.Name() != "init" {
				out[-1] = "(written elsewhere)"
				return
			}
			// whole-array store of a literal built in a local
			if u, ok := st.Val.(*ssa.UnOp); ok {
				if a, ok := u.X.(*ssa.Alloc); ok {
					for _, r := range referrersOf(a) {
						if ia, ok := r.(*ssa.IndexAddr); ok {
							k, okK := constInt(ia.Index)
							for _, rr := range referrersOf(ia) {
								if s2, ok := rr.(*ssa.Store); ok && s2.Addr == ssa.Value(ia) {
									if t, okT := constInt(s2.Val); okK && okT {
										out[k] = tagNames[t]
									}
								}
							}
						}
					}
				}
			}
		})
	}
	return out
}

// isDigitByteHelper: a function of package lang with one byte (or rune) parameter and a bool result that
// is exactly `'0' <= c && c <= '9'`: two comparisons of the parameter with 48 and 57, no other
// operation or call, and the result is false on the first comparison's false edge and the second
// comparison otherwise. For a byte this is unicode.IsDigit(rune(c)) (Latin-1 has no other digits).
func isDigitByteHelper(p *Program, f *ssa.Function) bool {
	if f == nil || !p.InLang(f) || len(f.Params) != 1 || f.Signature.Recv() != nil || f.Signature.Results().Len() != 1 || len(f.Blocks) == 0 || len(f.Blocks) > 3 {
		return false
	}
	if b, ok := f.Signature.Results().At(0).Type().Underlying().(*types.Basic); !ok || b.Kind() != types.Bool {
		return false
	}
	isParam := func(v ssa.Value) bool {
		if cv, ok := v.(*ssa.Convert); ok {
			v = cv.X
		}
		return v == ssa.Value(f.Params[0])
	}
	var lower, upper *ssa.BinOp
	other := false
	allInstrs(f, func(in ssa.Instruction) {
		switch x := in.(type) {
		case *ssa.BinOp:
			kx, xc := constInt(x.X)
			ky, yc := constInt(x.Y)
			switch {
			case xc && isParam(x.Y) && kx == '0' && x.Op == token.LEQ, yc && isParam(x.X) && ky == '0' && x.Op == token.GEQ:
				lower = x
			case yc && isParam(x.X) && ky == '9' && x.Op == token.LEQ, xc && isParam(x.Y) && kx == '9' && x.Op == token.GEQ:
				upper = x
			default:
				other = true
			}
		case *ssa.If, *ssa.Jump, *ssa.Return, *ssa.Phi, *ssa.Convert, *ssa.DebugRef:
		default:
			other = true
		}
	})
	if other || lower == nil || upper == nil {
		return false
	}
	rets := returnsOf(f)
	if len(rets) != 1 {
		return false
	}
	phi, ok := rets[0].Results[0].(*ssa.Phi)
	if !ok || len(phi.Edges) != 2 {
		return false
	}
	sawFalse, sawSecond := false, false
	for i, e := range phi.Edges {
		pred := phi.Block().Preds[i]
		if b, isB := constBool(e); isB && !b {
			if ef, isEdge := edgeFact(pred, phi.Block()); isEdge && !ef.truth && (ef.cond == ssa.Value(lower) || ef.cond == ssa.Value(upper)) {
				sawFalse = true
			}
			continue
		}
		if e == ssa.Value(lower) || e == ssa.Value(upper) {
			sawSecond = true
		}
	}
	return sawFalse && sawSecond
}

package main

import (
	"encoding/json"
	"fmt"
	"os"
	"sort"
)

// pending: properties whose rule set is not registered yet (kept current by hand)
var notApplicableReasons = map[string]string{}

func manifestCmd() {
	var ids []string
	for id := range registry {
		ids = append(ids, id)
	}
	sort.Strings(ids)
	var checks []map[string]interface{}
	for _, id := range ids {
		rs := registry[id]
		checks = append(checks, map[string]interface{}{
			"property_id":         id,
			"quick_cmd":           "bin/jqcheck " + id + " --tier quick",
			"thorough_cmd":        "bin/jqcheck " + id + " --tier thorough",
			"evidence_file":       "/verif/evidence/" + id + ".json",
			"replay_cmd_template": "bin/jqcheck explain {path}",
			"engine":              "jqcheck",
			"technique":           "repo-specific static analysis of the type-checked program (go/ssa edge facts, error-kind inference, typestate, decision-table extraction as normalised dataflow, call graph)",
			"level_claimed": map[string]string{
				"category":   "other",
				"text":       "Static analysis: named structural clauses decided on all paths of the interpreter's own code, for every jqawk program at once. Decided: " + rs.decided,
				"design_ref": "DESIGN.md, section on " + id,
			},
			"level_note": "Not decided (out of reach of a sound static argument here): " + rs.notDecided + " Trusted: Go type checker, go/ssa and VTA call graph of x/tools v0.29.0; library semantics (encoding/json, strconv, strings, math, regexp, slices).",
		})
	}
	var na []map[string]string
	for i := 1; i <= 20; i++ {
		id := fmt.Sprintf("C%02d", i)
		if registry[id] == nil {
			reason := notApplicableReasons[id]
			if reason == "" {
				reason = "no check registered yet: the static rules designed in DESIGN.md for this property are not built"
			}
			na = append(na, map[string]string{"property_id": id, "reason": reason})
		}
	}
	m := map[string]interface{}{
		"version":   1,
		"setup_cmd": "cd /verif/checker && GOFLAGS=-mod=vendor GOPROXY=off GOSUMDB=off GOTOOLCHAIN=local GOWORK=off go build -o ../bin/jqcheck .",
		"hooks": map[string]interface{}{
			"guard":            "verif",
			"enable":           "none needed: the checks read /repo's source (go/packages + go/ssa); no instrumentation is compiled in. The thorough tier additionally loads the tree with -tags=verif so that guarded files, should any be added, are analysed too.",
			"baseline_off_cmd": "cd /repo && go test -vet=off -count=1 ./...",
			"source_commits":   []string{},
			"add_only":         true,
		},
		"engines": []map[string]interface{}{{
			"name": "jqcheck", "path": "/verif/checker", "serves_properties": ids,
			"kind_free_text": "repo-specific static analyser (go/packages, go/ssa, call graph; no execution of jqawk)",
		}},
		"checks":         checks,
		"not_applicable": na,
		"notes":          "All checks are static (family: static analysis). Every check loads /repo's current working tree on each run. known_findings.txt lists genuine defects that are recorded rather than repaired; mutants/ and seeded/ hold the changes used to validate the checker (mutants/selftest.sh).",
	}
	if na == nil {
		m["not_applicable"] = []map[string]string{}
	}
	data, _ := json.MarshalIndent(m, "", " ")
	os.Stdout.Write(append(data, '\n'))
}

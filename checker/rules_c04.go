package main

import (
	"fmt"
	"go/types"
	"regexp"
	"sort"
	"strings"

	"golang.org/x/tools/go/ssa"
)

func init() {
	register(&ruleSet{
		id:    "C04",
		title: "JSON written by -o and json() is valid and equal to the value",
		run:   runC04,
		decided: "empty containers stay containers (no nil slice can reach the encoder); the Value -> Go conversion covers every value tag (payload for string / bool / number, recursive conversion for array / object in key-sorted order, nil for null / unset, an error for everything else) and the JSON -> Value constructor covers every type encoding/json produces; every recursive descent passes the path extended by the current container and the check flag, and the path scan with the identity test precedes any descent; the identity test compares map identity / shared backing storage; errors of the conversion and of the encoder are propagated by both writers; the JSON text reaches its sink as data (never as a format string) and both -o sinks write the same string." +
			" GetRootJson and json() return exactly string(MarshalIndent(ToGoValue(v))) (no hand-written fast path, no post-processing of the encoder's text); the -o file is created only after that text exists; every selector result, a null included, becomes a root." +
			" Indexing a string yields string(byte), never a sub-slice of the text; a copied null is a plain null." +
			" Array methods do not write into a backing array the document may share; a for-in variable is a copy." +
			" Member and index reads store nothing through their operand cells." +
			" NewValue's arms and results are the documented table, with one fresh cell per element / member.",
		notDecided: "value equality of the round trip (key order, escaping and number formatting are encoding/json's, trusted).",
	})
}

func runC04(c *Ctx) {
	p := c.P
	tg := p.LangFunc("(*Value).toGoValueInterval")
	if tg == nil {
		c.undecided("R1", "toGoValueInterval", "", "anchor (*Value).toGoValueInterval not found")
		return
	}
	// R1 no-nil-slice-to-json
	c.note("R1 no-nil-slice-to-json: every slice that toGoValueInterval converts to an interface and returns is rooted (through phis and append chains) in a make(...) — a `var s []T` root is nil for an empty array and is encoded as null.")
	n := 0
	for _, r := range returnsOf(tg) {
		mi, ok := effectiveResults(r)[0].(*ssa.MakeInterface)
		if !ok {
			continue
		}
		if _, isSlice := mi.X.Type().Underlying().(*types.Slice); !isSlice {
			continue
		}
		n++
		roots := sliceRoots(mi.X, map[ssa.Value]bool{})
		var bad []string
		for _, root := range roots {
			if _, ok := root.(*ssa.MakeSlice); ok {
				continue
			}
			if sl, ok := root.(*ssa.Slice); ok {
				if _, isAlloc := sl.X.(*ssa.Alloc); isAlloc {
					continue // make([]T, 0) with constant size lowers to slicing a fresh array
				}
			}
			bad = append(bad, p.Render(root))
		}
		c.check(len(bad) == 0, "R1", fmt.Sprintf("returned-slice #%d", n), p.InstrPos(r), "rooted in make(...)", "a returned slice can be "+strings.Join(bad, " / ")+": an empty jqawk array is converted to a nil slice, which encoding/json writes as null")
	}
	if n == 0 {
		c.undecided("R1", "returned-slice", p.Pos(tg.Pos()), "no slice-valued return found in toGoValueInterval")
	}

	// R2 conversion-totality
	c.note("R2 conversion-totality: toGoValueInterval per tag: string -> *v.Str, bool -> *v.Bool, number -> *v.Num, array -> the slice of converted elements, object -> the map of converted members, null / unset -> nil, every other tag -> error. NewValue's type switch has a case for each of bool, float64, string, []interface{}, map[string]interface{}, nil.")
	ms := p.maySetOf(tg, "v.Tag", valueTagNames(p))
	ek := EKOf(p)
	got := map[string]map[string]bool{}
	for _, r := range returnsOf(tg) {
		res := effectiveResults(r)
		b := r.Block()
		isErr := !ek.KindsAt(res[1], FactsOf(tg).At(b)).Has(KNil)
		// the circular-reference return precedes the tag switch: skip it
		if strings.Contains(p.Render(res[1]), "circular reference") {
			continue
		}
		// error propagated from a recursive call: not a verdict of this tag's own arm
		if call, _ := callOf(res[1]); call != nil && call.Call.StaticCallee() == tg {
			continue
		}
		v := p.Render(res[0])
		if isErr {
			v = "error"
		}
		for _, t := range ms.At(b) {
			if got[t] == nil {
				got[t] = map[string]bool{}
			}
			got[t][v] = true
		}
	}
	want := map[string]string{"ValueStr": "*v.Str", "ValueBool": "*v.Bool", "ValueNum": "*v.Num", "ValueNil": "nil", "ValueUnknown": "nil",
		"ValueFn": "error", "ValueNativeFn": "error", "ValueRegex": "error", "ValueObj": "make(map[string]interface{})"}
	var tags []string
	for t := range want {
		tags = append(tags, t)
	}
	sort.Strings(tags)
	for _, t := range tags {
		c.check(len(got[t]) == 1 && got[t][want[t]], "R2", "convert "+t, p.Pos(tg.Pos()), want[t], fmt.Sprintf("a %s value converts to {%s}; documented: %s", t, keysOf(got[t]), want[t]))
	}
	arr := keysOf(got["ValueArray"])
	c.check(len(got["ValueArray"]) == 1 && strings.Contains(arr, "toGoValueInterval(&v.Array[i@v.Array].Value") && strings.Contains(arr, "make([]interface{}"), "R2", "convert ValueArray", p.Pos(tg.Pos()), "slice of the converted elements in index order", "an array converts to {"+arr+"}")
	// object members: obj[k] = converted member k
	effs := p.effects(tg)
	wantEff := "make(map[string]interface{})[lang.sortedKeys(*v.Obj)[i@lang.sortedKeys(*v.Obj)]] = (*lang.Value).toGoValueInterval(&*v.Obj[lang.sortedKeys(*v.Obj)[i@lang.sortedKeys(*v.Obj)]].Value, append(rootValues, [v][:]), true)#0"
	c.check(len(effs) == 1 && effs[0] == wantEff, "R2", "convert ValueObj members", p.Pos(tg.Pos()), "obj[k] = convert(member k) for every key", "the object arm's stores are {"+strings.Join(effs, " ; ")+"}")
	// NewValue covers the JSON types
	nv := p.LangFunc("NewValue")
	if nv == nil {
		c.undecided("R2", "NewValue", "", "anchor not found")
	} else {
		have := map[string]bool{}
		for _, tc := range typeCasesOn(nv, nv.Params[0]) {
			have[types.TypeString(tc.Type, nil)] = true
		}
		// the nil case is a comparison with nil, not a type assertion
		nilCase := false
		allInstrs(nv, func(in ssa.Instruction) {
			if b, ok := in.(*ssa.BinOp); ok && b.X == ssa.Value(nv.Params[0]) && isNilConst(b.Y) {
				nilCase = true
			}
		})
		for _, t := range []string{"bool", "float64", "string", "[]interface{}", "map[string]interface{}"} {
			alt := strings.ReplaceAll(t, "interface{}", "any")
			c.check(have[t] || have[alt], "R2", "NewValue case "+t, p.Pos(nv.Pos()), "handled", "NewValue has no case for "+t+", a type encoding/json produces for interface{} targets: such input would hit the constructor's panic")
		}
		c.check(nilCase, "R2", "NewValue case nil", p.Pos(nv.Pos()), "handled", "NewValue has no case for nil (JSON null)")
	}

	cycleGuard(c, "R3", "(*Value).toGoValueInterval")
	isSameTable(c, "R3")

	// R4 json-errors-propagate
	c.note("R4 json-errors-propagate: the error results of ToGoValue / toGoValueInterval and json.MarshalIndent are read at every call site and no path returns success after a non-nil one (swallow analysis).")
	nSites := 0
	for _, s := range ErrSites(p) {
		name := calleeName(s.Call.Common())
		if !(strings.Contains(name, "ToGoValue") || strings.Contains(name, "toGoValueInterval") || strings.Contains(name, "MarshalIndent") || strings.Contains(name, "GetRootJson")) {
			continue
		}
		nSites++
		switch {
		case s.Dropped:
			c.violated("R4", s.Key, p.InstrPos(s.Call), "error dropped: "+s.DropWhy+"; an unrepresentable or cyclic value would produce output anyway")
		case s.Swallow != nil && errResultIndex(s.Fn.Signature) >= 0 && s.Swallow.Swallowed != 0:
			c.violated("R4", s.Key, p.InstrPos(s.Call), "a failure of this call can end in a success return: "+fmt.Sprint(s.Swallow.Where))
		default:
			c.ok("R4", s.Key, p.InstrPos(s.Call), "error is read and propagated")
		}
	}
	if nSites < 6 {
		c.undecided("R4", "instance-floor", "", fmt.Sprintf("%d conversion / encoder call sites found, 7 confirmed by hand", nSites))
	}
	jsonTextAsData(c, "R5")
	newValueTable(c, "R15")
	c.shared("R18", "C16/R3", "a program that does not assign to the document leaves it as read: pluck's result holds cells of its own (a copy of each member's value), so assigning to a member of the plucked object does not write into the record", keyHas("pluck-stores", "pluck-absent"), runC16)
	if es := c.P.LangFunc("(*Evaluator).evalStatement"); es != nil {
		c.shared("R19", "C07/R4", "a program that does not assign to the document leaves it as read: a call yields a cell of its own holding the returned value, never the cell of the returned expression (`return $.price` does not hand out the document's member cell)", keyHas("return-raise", "return-slot", "return-consumed"), func(s *Ctx) { c07Return(s, es) })
	}
	c.shared("R20", "C19/R4", "a program that does not assign to the document leaves it as read: the names a match pattern binds stand for cells of the matched value, and only the alternative that matched contributes them — a name left over from a failed alternative makes an assignment to a variable of the program a write into the document", keyHas("bindings-per-alternative"), runC19)
	c.shared("R21", "C02/R2", "-o writes the document of the run: the driver records every decoded root as the evaluator's root before the rules of that root run, whether or not the program has pattern rules (a program of BEGINFILE / ENDFILE rules only still has a document to write)", keyHas("root-bound", "driver-root"), c02R2)
	c.shared("R22", "C15/R4", "json(v) parses back to v for an array that was filled up to an index: every padding slot has a null cell of its own (one shared cell makes a later write to one slot show in all of them)", keyHas("fill-cell-per-iteration"), func(s *Ctx) { indexResolution(s, "R4") })
	c.shared("R23", "C09/R8", "a member of the document that is named like a method is still that member: an object's own key is looked up before the prototype (-r '$.length' selects the member, json() converts it)", keyHas("object-own-key-first"), func(s *Ctx) { memberResolutionOrder(s, "R8") })
	c.shared("R17", "C08/R1", "a program that does not assign to the document leaves it as read: match bindings are the document's own cells, and every match evaluation pops its frame on every way out (a frame left behind keeps them bound to names that later code assigns to)", keyHas("balance "), func(s *Ctx) { c08R1(s, discoverFrameModel(s.P)) })
	c.shared("R7", "C14/R4", "what -o writes is the root selected last: every selector's result becomes a root (a null result included)", keyHas("selector-root-unconditional", "root-list"), func(s *Ctx) { rootsPerValue(s, "R4") })
	stringIndexArm(c, "R8")
	c.shared("R10", "C15/R3", "a program that only reads leaves the document as it was: sort works on a clone with fresh cells (assigning into the sorted copy does not write into the document)", keyHas("sort-clone", "array.sort effects"), func(s *Ctx) { c15R3(s, nativeMethods(s.P)) })
	if eu := c.P.LangFunc("(*Evaluator).evalUnaryExpr"); eu != nil {
		c.shared("R11", "C09/R5", "++ / -- on a copy (a for-in variable) does not reach the document: numbers are never updated in place, the new value is assigned through evalAssignment", func(o Obligation) bool { return !strings.HasSuffix(o.Key, "-result") }, func(s *Ctx) { incdecTable(s, "R5", eu) })
	}
	c.shared("R16", "C14/R2", "the document is what the input bytes say: the interpreter reads the opened file (or standard input) itself — no filtering reader in between that drops or rewrites bytes", keyHas("input-files", "stdin-only"), c14R2)
	c.shared("R14", "C09/R1", "a program that only reads leaves the document as read: member and index reads store nothing through their operand cells (an explicit null in the document is not given a shape by reading through it)", nil, c09R1)
	c.shared("R12", "C15/R2", "a method called on a copy of a document array does not write into the backing array the document still covers: pop and popfirst only re-slice, push appends", keyHas("array.pop", "array.push"), func(s *Ctx) { c15R2(s, nativeMethods(s.P)) })
	if es := c.P.LangFunc("(*Evaluator).evalStatement"); es != nil {
		c.shared("R13", "C07/R7", "a for-in loop variable is a copy in a cell of its own: assigning to it, or reusing its name afterwards, does not write into the document", keyHas("for-in ", "binding-before-body"), func(s *Ctx) { c07ForIn(s, es) })
	}
	c.shared("R9", "C09/R3", "a program that does not assign to the document leaves it as read: a copied null is a plain null (it does not keep the link to the object it was read from, through which a later assignment to the copy would create a member in the document)", keyHas("copy ValueNil", "copy-on-insert"), c09R3)
	c.note("R6 encoder-output-unmodified: GetRootJson returns exactly string(json.MarshalIndent(ToGoValue(root), \"\", \"  \")) and json(v) exactly that of its argument: no text is produced or rewritten outside encoding/json (a hand-written fast path or a post-processing of the encoder's text is where escaping goes wrong).")
	// the two may share a helper that is exactly `string(json.MarshalIndent(x, "", "  "))` of its
	// parameter, without effects: then its result stands for that text
	enc := func(x string) string { return `string(encoding/json.MarshalIndent(` + x + `, "", "  ")#0)` }
	rootText, argText := enc("(*lang.Value).ToGoValue(&e.root.Value)#0"), enc("(*lang.Value).ToGoValue(args[0])#0")
	for _, h := range p.Funcs {
		if !p.InLang(h) || p.inTestFile(h) || h.Parent() != nil || len(h.Params) != 1 || h.Signature.Recv() != nil || h.Signature.Results().Len() != 2 || len(h.Blocks) == 0 {
			continue
		}
		rcs := p.successResults(h)
		if len(rcs) != 1 || rcs[0].Value != enc(h.Params[0].Name()) {
			continue
		}
		c.checkArm("R6", "encoder helper "+shortName(h), h, armSpec{
			Results: []string{enc(h.Params[0].Name())},
			Effects: []string{},
			Source:  "the shared helper returns the encoder's text for its argument",
		})
		rootText = shortName(h) + "((*lang.Value).ToGoValue(&e.root.Value)#0)#0"
		argText = shortName(h) + "((*lang.Value).ToGoValue(args[0])#0)#0"
	}
	c.checkArm("R6", "GetRootJson", p.LangFunc("(*Evaluator).GetRootJson"), armSpec{
		Results: []string{rootText},
		Effects: []string{},
		Source:  "-o serialises the current root via json.MarshalIndent",
	})
	c.checkArm("R6", "builtin json", p.LangFunc("nativeJson"), armSpec{
		Results: []string{`&lang.NewValue(` + argText + `)`},
		Effects: []string{},
		Source:  "json(v) returns the encoder's text for v",
	})
}

// sliceRoots follows a slice value back through phis and append(first argument).
func sliceRoots(v ssa.Value, seen map[ssa.Value]bool) []ssa.Value {
	if seen[v] {
		return nil
	}
	seen[v] = true
	switch x := v.(type) {
	case *ssa.Phi:
		var out []ssa.Value
		for _, e := range x.Edges {
			out = append(out, sliceRoots(e, seen)...)
		}
		return out
	case *ssa.Call:
		if bi, ok := x.Call.Value.(*ssa.Builtin); ok && bi.Name() == "append" {
			return sliceRoots(x.Call.Args[0], seen)
		}
	case *ssa.ChangeType:
		return sliceRoots(x.X, seen)
	}
	return []ssa.Value{v}
}

// cycleGuard (C04/R3, C17/R3): recursive descent over Value with a path-based cycle check.
func cycleGuard(c *Ctx, rule, fnName string) {
	p := c.P
	fn := p.LangFunc(fnName)
	key := "cycle-guard " + fnName
	if fn == nil {
		c.undecided(rule, key, "", "anchor not found")
		return
	}
	c.note("%s cycle-guard-on-descent (%s): every recursive call passes `append(path, receiver)` as the path and the constant true as the check flag; the scan of the path with isSame(element, receiver), returning the cycle verdict, is executed (under the flag) before any recursive call; the public entry point passes an empty path.", rule, fnName)
	var path, flag *ssa.Parameter
	for _, prm := range fn.Params {
		if sl, ok := prm.Type().Underlying().(*types.Slice); ok && isLangNamed(sl.Elem(), "Value") {
			path = prm
		}
		if b, ok := prm.Type().Underlying().(*types.Basic); ok && b.Kind() == types.Bool {
			flag = prm // the last bool parameter: the check flag (the renderer's quote flag precedes it)
		}
	}
	if path == nil || flag == nil {
		c.violated(rule, key+" parameters", p.Pos(fn.Pos()), "the function has no (path []*Value, check bool) parameters: the cycle check cannot be path-based")
		return
	}
	recv := fn.Params[0]
	pathName, recvName := canonParamName(path), canonParamName(recv)
	nRec := 0
	// the scan: a range loop over the path parameter containing isSame(elem, recv) and a return —
	// written in the function itself, or as a call of a helper that is exactly that scan
	var scanIf *ssa.If
	var scanBlock *ssa.BasicBlock // the block a path must pass to have scanned
	scanIn := func(g *ssa.Function, pathV, recvV ssa.Value) (*ssa.If, *rangeLoop) {
		loops := rangeLoops(g, func(v ssa.Value) bool { return v == pathV })
		if len(loops) != 1 {
			return nil, nil
		}
		pn, rn := p.Render(pathV), p.Render(recvV)
		for b := range blocksDominatedBy(loops[0].Body) {
			for _, in := range b.Instrs {
				call, ok := in.(*ssa.Call)
				if !ok || !staticCalleeIs(call, "lang.isSame") {
					continue
				}
				a0, a1 := p.Render(call.Call.Args[0]), p.Render(call.Call.Args[1])
				if !((a0 == pn+"[i@"+pn+"]" && a1 == rn) || (a1 == pn+"[i@"+pn+"]" && a0 == rn)) {
					continue
				}
				for _, r := range referrersOf(call) {
					if ifi, ok := r.(*ssa.If); ok {
						if _, isRet := ifi.Block().Succs[0].Instrs[len(ifi.Block().Succs[0].Instrs)-1].(*ssa.Return); isRet {
							return ifi, &loops[0]
						}
					}
				}
			}
		}
		return nil, nil
	}
	if ifi, l := scanIn(fn, path, recv); ifi != nil {
		scanIf, scanBlock = ifi, l.Header
	} else {
		// helper form: if flag && helper(path, recv) { return cycle verdict }
		for _, call := range callsIn(fn) {
			cv, ok := call.(*ssa.Call)
			g := call.Common().StaticCallee()
			if !ok || g == nil || g == fn || !p.InModule(g) || len(g.Params) != 2 || len(cv.Call.Args) != 2 {
				continue
			}
			var gPath, gRecv *ssa.Parameter
			switch {
			case cv.Call.Args[0] == ssa.Value(path) && cv.Call.Args[1] == ssa.Value(recv):
				gPath, gRecv = g.Params[0], g.Params[1]
			case cv.Call.Args[1] == ssa.Value(path) && cv.Call.Args[0] == ssa.Value(recv):
				gPath, gRecv = g.Params[1], g.Params[0]
			default:
				continue
			}
			hIf, _ := scanIn(g, gPath, gRecv)
			if hIf == nil {
				continue
			}
			// the helper answers true exactly from the scan, false otherwise
			exact := true
			for _, r := range returnsOf(g) {
				b, isC := constBool(effectiveResults(r)[0])
				if !isC || (b != (r.Block() == hIf.Block().Succs[0])) {
					exact = false
				}
			}
			if !exact {
				continue
			}
			for _, r := range referrersOf(cv) {
				if ifi, ok := r.(*ssa.If); ok {
					if _, isRet := ifi.Block().Succs[0].Instrs[len(ifi.Block().Succs[0].Instrs)-1].(*ssa.Return); isRet {
						scanIf, scanBlock = ifi, cv.Block()
					}
				}
			}
		}
	}
	if scanIf == nil {
		c.violated(rule, key+" scan", p.Pos(fn.Pos()), "no loop over the path (here or in a helper given the path and the receiver) that returns when isSame(path element, receiver) holds")
		return
	}
	// the cycle verdict is given by the scan alone: every other return that yields the same result as the
	// scan's hit (a depth cap, say) refuses values that are not cyclic
	{
		hit, _ := scanIf.Block().Succs[0].Instrs[len(scanIf.Block().Succs[0].Instrs)-1].(*ssa.Return)
		if hit != nil {
			verdict := ""
			for _, v := range effectiveResults(hit) {
				verdict += p.Render(v) + " , "
			}
			for _, r := range returnsOf(fn) {
				if r == hit {
					continue
				}
				same := ""
				for _, v := range effectiveResults(r) {
					same += p.Render(v) + " , "
				}
				if same == verdict {
					c.violated(rule, key+" cycle-verdict-only-from-scan", p.InstrPos(r), "the cycle verdict ("+strings.TrimSuffix(verdict, " , ")+") is also returned here, not from the path scan: values that are not cyclic (merely deep) are refused or rendered as a cycle")
				}
			}
			c.ok(rule, key+" cycle-verdict-from-scan", p.InstrPos(hit), "the scan's hit returns the cycle verdict")
		}
	}
	// the scan is under the flag
	known, val := FactsOf(fn).At(scanBlock).Truth(flag)
	c.check(known && val, rule, key+" scan-under-flag", p.InstrPos(scanIf), "the scan runs when the check flag is set", "the path scan is not controlled by the check flag")
	for _, call := range callsIn(fn) {
		cv, ok := call.(*ssa.Call)
		if !ok || cv.Call.StaticCallee() != fn {
			continue
		}
		nRec++
		k := fmt.Sprintf("%s recursive-call #%d", key, nRec)
		var pathArg, flagArg ssa.Value
		for i, prm := range fn.Params {
			if prm == path {
				pathArg = cv.Call.Args[i]
			}
			if prm == flag {
				flagArg = cv.Call.Args[i]
			}
		}
		wantPath := "append(" + pathName + ", [" + recvName + "][:])"
		c.check(p.Render(pathArg) == wantPath, rule, k+" path", p.InstrPos(cv), wantPath, "the recursive call passes "+p.Render(pathArg)+" as the path instead of "+wantPath+": the path no longer holds exactly the ancestors of the value being visited (a shared or never-popped list reports acyclic sharing as a cycle; a path without the receiver misses cycles)")
		fb, isC := constBool(flagArg)
		c.check(isC && fb, rule, k+" flag", p.InstrPos(cv), "check flag = true", "the recursive call does not pass the constant true as the check flag")
		// the scan precedes the descent: the loop's exit dominates the call
		c.check(scanPrecedes(fn, scanBlock, cv, flag), rule, k+" after-scan", p.InstrPos(cv), "reached only after the scan (or with the flag unset at the root)", "a recursive descent is reachable without passing the path scan")
	}
	if nRec < 2 {
		c.undecided(rule, key+" instance-floor", p.Pos(fn.Pos()), fmt.Sprintf("%d recursive calls, 2 confirmed by hand (array elements, object members)", nRec))
	}
	// entry points: callers other than fn itself pass an empty path and false
	for _, cs := range p.CallSitesOf(fn) {
		if cs.Parent() == fn {
			continue
		}
		var pathArg, flagArg ssa.Value
		for i, prm := range fn.Params {
			if prm == path {
				pathArg = cs.Common().Args[i]
			}
			if prm == flag {
				flagArg = cs.Common().Args[i]
			}
		}
		pr := p.Render(pathArg)
		fb, isC := constBool(flagArg)
		c.check(strings.HasPrefix(pr, "make([]*lang.Value") || pr == "[][:0]" || pr == "nil", rule, key+" entry "+shortName(cs.Parent()), p.InstrPos(cs), "starts with an empty path", "the entry point passes "+pr+" as the initial path")
		c.check(isC && !fb || isC && fb, rule, key+" entry-flag "+shortName(cs.Parent()), p.InstrPos(cs), "constant flag at the root", "non-constant check flag at the entry")
	}
}

// scanPrecedes: from the true edge of the flag test, the call cannot be reached without passing
// the scan loop's header (when the flag is false — only at the root, where the path is empty —
// the scan is legitimately skipped).
func scanPrecedes(fn *ssa.Function, scan *ssa.BasicBlock, call *ssa.Call, flag *ssa.Parameter) bool {
	for _, b := range fn.Blocks {
		ifi, ok := b.Instrs[len(b.Instrs)-1].(*ssa.If)
		if !ok || ifi.Cond != ssa.Value(flag) {
			continue
		}
		r := reachableFrom([]*ssa.BasicBlock{b.Succs[0]}, map[*ssa.BasicBlock]bool{scan: true})
		return !r[call.Block()]
	}
	return false
}

func isSameTable(c *Ctx, rule string) {
	p := c.P
	c.note("%s identity-test: isSame — different tags: false; objects: identity of the map pointer; arrays: alias(a.Array, b.Array); alias compares the address of the last element of the full-capacity slices (shared backing storage), false for zero capacity.", rule)
	// (the private helper alias is seen through: a tail call of a helper used nowhere else is expanded)
	shared := "phi((&a.Array[0:cap(a.Array)][(cap(a.Array) - 1)] == &b.Array[0:cap(b.Array)][(cap(b.Array) - 1)]) | false)"
	c.checkArm(rule, "isSame", p.LangFunc("isSame"), armSpec{
		Results: []string{"false", "(a.Obj == b.Obj)", shared},
		Effects: []string{},
		Guards:  map[string][]string{"(a.Obj == b.Obj)": {"a.Tag == ValueObj", "a.Tag == b.Tag"}, shared: {"a.Tag == ValueArray", "a.Tag == b.Tag"}},
		Source:  "identity test for containers (map pointer / shared slice backing)",
	})
	if p.LangFunc("alias") == nil {
		return
	}
	c.checkArm(rule, "alias", p.LangFunc("alias"), armSpec{
		Results: []string{"phi((&x[0:cap(x)][(cap(x) - 1)] == &y[0:cap(y)][(cap(y) - 1)]) | false)"},
		Effects: []string{},
		Source:  "two slices share their backing array iff their last capacity elements have the same address",
	})
}

// jsonTextAsData (C04/R5, C14/R3): the JSON string produced by GetRootJson is written unchanged
// and as data to both sinks.
func jsonTextAsData(c *Ctx, rule string) {
	p := c.P
	c.note("%s json-text-as-data: in cli.Run the string result of GetRootJson flows only into fmt.Print(j) (for `-o -`) and (*os.File).WriteString(j) on a file opened by os.Create (for `-o FILE`; os.Create truncates), after EvalProgram returned; it is never a format string and is not transformed.", rule)
	run := p.CliFunc("Run")
	if run == nil {
		c.undecided(rule, "cli.Run", "", "anchor not found")
		return
	}
	var j ssa.Value
	var jcall *ssa.Call
	for _, call := range callsIn(run) {
		if staticCalleeIs(call, "(*lang.Evaluator).GetRootJson") {
			jcall, _ = call.(*ssa.Call)
		}
	}
	if jcall == nil {
		c.violated(rule, "json-source", p.Pos(run.Pos()), "cli.Run does not call GetRootJson")
		return
	}
	for _, r := range referrersOf(jcall) {
		if ex, ok := r.(*ssa.Extract); ok && ex.Index == 0 {
			j = ex
		}
	}
	if j == nil {
		c.violated(rule, "json-source", p.InstrPos(jcall), "the JSON text returned by GetRootJson is discarded")
		return
	}
	// all uses of j (through MakeInterface / variadic packing)
	sinks := map[string]bool{}
	var bad []string
	var visit func(v ssa.Value, depth int)
	visit = func(v ssa.Value, depth int) {
		if depth > 6 {
			return
		}
		for _, r := range referrersOf(v) {
			switch x := r.(type) {
			case *ssa.MakeInterface:
				visit(x, depth+1)
			case *ssa.Store:
				// packing into a variadic array: follow the slice of that array
				if ia, ok := x.Addr.(*ssa.IndexAddr); ok {
					if arr, ok := ia.X.(*ssa.Alloc); ok {
						for _, rr := range referrersOf(arr) {
							if sl, ok := rr.(*ssa.Slice); ok {
								visit(sl, depth+1)
							}
						}
						continue
					}
				}
				bad = append(bad, "stored at "+p.InstrPos(x))
			case ssa.CallInstruction:
				f := x.Common().StaticCallee()
				name := calleeName(x.Common())
				if f != nil {
					name = f.String()
				}
				// which argument position?
				pos := -1
				for i, a := range x.Common().Args {
					if a == v {
						pos = i
					}
				}
				switch name {
				case "fmt.Print":
					sinks["fmt.Print(j)"] = true
				case "(*os.File).WriteString":
					sinks["file.WriteString(j)"] = true
					if pos != 1 {
						bad = append(bad, "WriteString receiver misuse")
					}
				case "fmt.Fprint":
					sinks["fmt.Fprint(w, j)"] = true
				default:
					bad = append(bad, fmt.Sprintf("passed to %s (argument %d) at %s", name, pos, p.InstrPos(x)))
				}
			case *ssa.DebugRef:
			default:
				bad = append(bad, fmt.Sprintf("used by %T at %s", r, p.InstrPos(r)))
			}
		}
	}
	visit(j, 0)
	if len(bad) > 0 {
		c.violated(rule, "json-text-uses", p.InstrPos(jcall), "the JSON text is "+strings.Join(bad, "; ")+": as a format string every % in a key or string of the document is re-interpreted (invalid or different JSON); any other transformation breaks `-o FILE writes what -o - prints`")
	} else {
		c.ok(rule, "json-text-uses", p.InstrPos(jcall), "written as data: "+keysOf(sinks))
	}
	c.check(sinks["fmt.Print(j)"] && sinks["file.WriteString(j)"], rule, "json-both-sinks", p.InstrPos(jcall), "the same string goes to stdout and to the file", "the two -o sinks are "+keysOf(sinks)+"; expected fmt.Print(j) and file.WriteString(j)")
	// the file is opened so that old content is discarded
	opened := ""
	for _, call := range callsIn(run) {
		if f := call.Common().StaticCallee(); f != nil {
			switch f.String() {
			case "os.Create":
				if s, ok := constString(call.Common().Args[0]); ok && s == "jqawk.prof" {
					continue
				}
				opened = "os.Create"
				// the output file is only touched once the JSON text exists: truncating it earlier
				// destroys an input that is rewritten in place (-o f.json … f.json)
				c.check(dominatesInstr(jcall, call), rule, "json-file-opened-after-run", p.InstrPos(call), "the -o file is created after GetRootJson returned", "the -o file is created (truncated) before the program has run and the JSON text exists: `jqawk -o f.json … f.json` reads an empty file")
			case "os.OpenFile":
				flags, _ := constInt(call.Common().Args[1])
				const oTrunc = 0x200
				if flags&oTrunc != 0 {
					opened = "os.OpenFile(O_TRUNC)"
				} else {
					opened = "os.OpenFile without O_TRUNC"
				}
			}
		}
	}
	c.check(opened == "os.Create" || opened == "os.OpenFile(O_TRUNC)", rule, "json-file-truncated", p.Pos(run.Pos()), opened, "the -o file is opened with "+opened+": bytes of a longer earlier file survive after the new JSON")
	// GetRootJson is called after EvalProgram returned without error
	var ep *ssa.Call
	for _, call := range callsIn(run) {
		if staticCalleeIs(call, "lang.EvalProgram") {
			ep, _ = call.(*ssa.Call)
		}
	}
	if ep != nil {
		okOrder := dominatesInstr(ep, jcall)
		var errV ssa.Value
		for _, r := range referrersOf(ep) {
			if ex, ok := r.(*ssa.Extract); ok && ex.Index == 1 {
				errV = ex
			}
		}
		c.check(okOrder && errV != nil && FactsOf(run).At(jcall.Block()).KnownNil(errV), rule, "json-after-successful-run", p.InstrPos(jcall), "GetRootJson runs only after EvalProgram succeeded", "GetRootJson is not dominated by a successful EvalProgram")
	}
}

// newValueTable: what a decoded JSON value (and the Go values the interpreter itself hands in) becomes.
func newValueTable(c *Ctx, rule string) {
	p := c.P
	c.note("%s value-construction-table: NewValue's type switch has exactly the documented arms and results — []*Cell kept as is; []interface{} / []string: one fresh cell per element, in order; map[string]interface{}: one fresh cell per member; bool, float64 kept as they are; int / int64 converted to float64; string; nil -> null — each with its prototype. An extra arm (a json.Number fast path) or a shared cell for equal elements changes what the input document is read as.", rule)
	nv := p.LangFunc("NewValue")
	if nv == nil {
		c.undecided(rule, "NewValue", "", "anchor not found")
		return
	}
	want := []string{
		"lang.Value{Tag: ValueArray, Array: srcVal.([]*lang.Cell)#0, Proto: lang.getArrayPrototype()}",
		"lang.Value{Tag: ValueArray, Array: φslice⟨append(φslice, [&…][:]) | make([]*lang.Cell, 0)⟩, Proto: lang.getArrayPrototype()}",
		"lang.Value{Tag: ValueObj, Obj: &make(map[string]*lang.Cell), Proto: lang.getObjPrototype()}",
		"lang.Value{Tag: ValueBool, Bool: &srcVal.(bool)#0}",
		"lang.Value{Tag: ValueNum, Num: &srcVal.(float64)#0, Proto: lang.getNumPrototype()}",
		"lang.Value{Tag: ValueNum, Num: &float64(srcVal.(int)#0), Proto: lang.getNumPrototype()}",
		"lang.Value{Tag: ValueNum, Num: &float64(srcVal.(int64)#0), Proto: lang.getNumPrototype()}",
		"lang.Value{Tag: ValueStr, Str: &srcVal.(string)#0, Proto: lang.getStrPrototype()}",
		"lang.Value{Tag: ValueNil}",
	}
	got := map[string]bool{}
	for _, rc := range p.successResults(nv) {
		// an arm may hand a converted value back to NewValue (`return NewValue(float64(val))`): that is the
		// row of the argument's type with the argument in place of the switched value
		if call, _ := callOf(effectiveResults(rc.Ret)[0]); call != nil && call.Call.StaticCallee() == nv && rc.Inner == nil {
			if mi, ok := call.Call.Args[0].(*ssa.MakeInterface); ok {
				arg := p.Render(mi.X)
				switch shortType(mi.X.Type()) {
				case "[]*Cell":
					// (the element construction is elided in the table row; it is checked by fresh-cell below)
					arg = regexp.MustCompile(`\[&lang\.Cell\{Value: lang\.NewValue\([^⟩]*?\)\}\]\[:\]`).ReplaceAllString(arg, "[&…][:]")
					got["lang.Value{Tag: ValueArray, Array: "+arg+", Proto: lang.getArrayPrototype()}"] = true
					continue
				case "float64":
					got["lang.Value{Tag: ValueNum, Num: &"+arg+", Proto: lang.getNumPrototype()}"] = true
					continue
				}
			}
		}
		got[rc.Value] = true
	}
	// `arr := make([]*Cell, len(S)); for i := range S { arr[i] = cell }` is the append row: the slice has
	// one position per element and every position is filled, in the range over S, in every iteration
	fillRow := regexp.MustCompile(`^lang\.Value\{Tag: ValueArray, Array: make\(\[\]\*lang\.Cell, len\((srcVal\.\(\[\](?:interface\{\}|string)\)#0)\)\), Proto: lang\.getArrayPrototype\(\)\}$`)
	for row := range got {
		m := fillRow.FindStringSubmatch(row)
		if m == nil {
			continue
		}
		S := m[1]
		filled := false
		allInstrs(nv, func(in ssa.Instruction) {
			st, ok := in.(*ssa.Store)
			if !ok {
				return
			}
			ia, ok := st.Addr.(*ssa.IndexAddr)
			if !ok {
				return
			}
			mk, ok := ia.X.(*ssa.MakeSlice)
			if !ok || p.Render(mk.Len) != "len("+S+")" || p.Render(ia.Index) != "i@"+S {
				return
			}
			for _, l := range rangeLoops(nv, func(v ssa.Value) bool { return p.Render(v) == S }) {
				if l.Body.Dominates(st.Block()) && len(extraGuardsBetween(p, nv, l.Body, st.Block())) == 0 {
					filled = true
				}
			}
		})
		if filled {
			delete(got, row)
			got["lang.Value{Tag: ValueArray, Array: φslice⟨append(φslice, [&…][:]) | make([]*lang.Cell, 0)⟩, Proto: lang.getArrayPrototype()}"] = true
		}
	}
	miss, extra := diffSets(got, setOf(want))
	c.check(len(miss)+len(extra) == 0, rule, "value-construction results", p.Pos(nv.Pos()), "the documented arms", fmt.Sprintf("NewValue's results differ from the documented table: unexpected {%s}; missing {%s}", strings.Join(extra, " ; "), strings.Join(miss, " ; ")))
	// the type cases
	var cases []string
	for _, prm := range nv.Params {
		for _, tc := range typeCasesOn(nv, prm) {
			cases = append(cases, tc.Type.String())
		}
	}
	sort.Strings(cases)
	wantCases := "[]*" + langPath + ".Cell,[]interface{},[]string,bool,float64,int,int64,map[string]interface{},string"
	c.check(strings.Join(cases, ",") == wantCases, rule, "value-construction cases", p.Pos(nv.Pos()), wantCases, "NewValue switches on {"+strings.Join(cases, ", ")+"}; documented {"+wantCases+"}")
	// one fresh cell per element / member: every cell that enters the array or the map is made by a
	// NewCell call (or allocation) in the loop body that stores it
	n := 0
	allInstrs(nv, func(in ssa.Instruction) {
		var elem ssa.Value
		switch x := in.(type) {
		case *ssa.MapUpdate:
			elem = x.Value
		case *ssa.Store:
			if ia, ok := x.Addr.(*ssa.IndexAddr); ok && strings.Contains(ia.X.Type().String(), "Cell") {
				elem = x.Val
			}
		}
		if elem == nil || !strings.HasSuffix(elem.Type().String(), ".Cell") {
			return
		}
		n++
		fresh := false
		switch e := elem.(type) {
		case *ssa.Call:
			fresh = staticCalleeIs(e, "lang.NewCell") && e.Block() == in.Block()
		case *ssa.Alloc:
			fresh = e.Block() == in.Block()
		}
		c.check(fresh, rule, fmt.Sprintf("value-construction fresh-cell #%d", n), p.InstrPos(in), "a cell made for this element", "an element / member cell stored by NewValue is "+p.RenderShort(elem)+", not a cell made for that element in the same iteration: equal elements of the input (several nulls) share one cell, and an assignment to one changes the others")
	})
	if n < 3 {
		c.undecided(rule, "value-construction fresh-cell", p.Pos(nv.Pos()), fmt.Sprintf("%d element stores found in NewValue, 3 expected", n))
	}
}

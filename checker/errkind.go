package main

// S2: interprocedural error-kind inference. For every value of interface type `error` the set
// of kinds it may hold; function summaries per result index; refinement by edge facts (S3).

import (
	"fmt"
	"go/token"
	"go/types"
	"sort"
	"strings"

	"golang.org/x/tools/go/ssa"
)

type Kinds uint64

const (
	KNil Kinds = 1 << iota
	KSyntax
	KRuntime
	KJson
	KRaw     // fmt.Errorf / errors.New result not wrapped by a funnel
	KForeign // error produced by a function outside the module
	KUnknown // parameter, field load, anything the analysis does not follow
	kSentinelBase
)

// EK is the analysis state.
type EK struct {
	P         *Program
	sentinels []*ssa.Global // index i -> bit kSentinelBase<<i
	sentBit   map[*ssa.Global]Kinds
	sum       map[*ssa.Function][]Kinds // per result index (only error-typed results are meaningful)
	why       map[*ssa.Function]map[Kinds]string
	rounds    int
	raw       map[ssa.Value]Kinds
	inProg    map[ssa.Value]bool
}

var ekCache = map[*Program]*EK{}

func EKOf(p *Program) *EK {
	if e, ok := ekCache[p]; ok {
		return e
	}
	e := newEK(p)
	ekCache[p] = e
	return e
}

func (k Kinds) Has(b Kinds) bool { return k&b != 0 }

func (e *EK) kindNames(k Kinds) string {
	var out []string
	names := []struct {
		b Kinds
		n string
	}{{KNil, "nil"}, {KSyntax, "SyntaxError"}, {KRuntime, "RuntimeError"}, {KJson, "JsonError"}, {KRaw, "raw(fmt.Errorf/errors.New)"}, {KForeign, "foreign"}, {KUnknown, "unknown"}}
	for _, n := range names {
		if k.Has(n.b) {
			out = append(out, n.n)
		}
	}
	for i, g := range e.sentinels {
		if k.Has(kSentinelBase << uint(i)) {
			out = append(out, g.Name())
		}
	}
	return "{" + strings.Join(out, ", ") + "}"
}

func (e *EK) Sentinel(name string) Kinds {
	for g, b := range e.sentBit {
		if g.Name() == name {
			return b
		}
	}
	return 0
}

func (e *EK) AllSentinels() Kinds {
	var k Kinds
	for _, b := range e.sentBit {
		k |= b
	}
	return k
}

func (e *EK) SentinelGlobal(name string) *ssa.Global {
	for g := range e.sentBit {
		if g.Name() == name {
			return g
		}
	}
	return nil
}

func newEK(p *Program) *EK {
	e := &EK{P: p, sentBit: map[*ssa.Global]Kinds{}, sum: map[*ssa.Function][]Kinds{}, why: map[*ssa.Function]map[Kinds]string{}}
	e.findSentinels()
	// fixpoint over summaries
	for {
		e.rounds++
		e.raw = map[ssa.Value]Kinds{}
		e.inProg = map[ssa.Value]bool{}
		changed := false
		for _, f := range p.Funcs {
			res := f.Signature.Results()
			if res.Len() == 0 {
				continue
			}
			cur := e.sum[f]
			if cur == nil {
				cur = make([]Kinds, res.Len())
				e.sum[f] = cur
			}
			F := FactsOf(f)
			for _, r := range returnsOf(f) {
				for i, v := range effectiveResults(r) {
					if !isErrorType(res.At(i).Type()) {
						continue
					}
					k := e.KindsAt(v, F.At(r.Block()))
					if k&^cur[i] != 0 {
						// record a reason for each new kind
						for b := Kinds(1); b != 0 && b <= k; b <<= 1 {
							if k.Has(b) && !cur[i].Has(b) {
								if e.why[f] == nil {
									e.why[f] = map[Kinds]string{}
								}
								e.why[f][b] = fmt.Sprintf("%s returns %s", p.InstrPos(r), e.describe(v))
							}
						}
						cur[i] |= k
						changed = true
					}
				}
			}
		}
		if !changed || e.rounds > 50 {
			break
		}
	}
	return e
}

// findSentinels: package-level variables of type error in package lang whose only store is
// `errors.New(...)` in the package initialiser.
func (e *EK) findSentinels() {
	sp := e.P.SSAPkgs[e.P.Lang.ID]
	var cands []*ssa.Global
	for _, m := range sp.Members {
		g, ok := m.(*ssa.Global)
		if !ok {
			continue
		}
		if pt, ok := g.Type().(*types.Pointer); ok && isErrorType(pt.Elem()) {
			cands = append(cands, g)
		}
	}
	sort.Slice(cands, func(i, j int) bool { return cands[i].Pos() < cands[j].Pos() })
	for _, g := range cands {
		stores := 0
		initOK := false
		seenF := map[*ssa.Function]bool{}
		for _, f := range append([]*ssa.Function{sp.Func("init")}, e.P.Funcs...) {
			if f == nil || seenF[f] {
				continue
			}
			seenF[f] = true
			allInstrs(f, func(in ssa.Instruction) {
				if st, ok := in.(*ssa.Store); ok && st.Addr == g {
					stores++
					if c, ok := st.Val.(*ssa.Call); ok && f.Name() == "init" {
						if callee := c.Call.StaticCallee(); callee != nil && callee.String() == "errors.New" {
							initOK = true
						}
					}
				}
			})
		}
		if stores == 1 && initOK {
			e.sentBit[g] = kSentinelBase << uint(len(e.sentinels))
			e.sentinels = append(e.sentinels, g)
		}
	}
}

func (e *EK) describe(v ssa.Value) string {
	switch v := v.(type) {
	case *ssa.Const:
		return "nil"
	case *ssa.MakeInterface:
		return "a " + v.X.Type().String() + " value"
	case *ssa.Call:
		return "the error of call to " + calleeName(v.Common())
	case *ssa.Extract:
		if c, ok := v.Tuple.(*ssa.Call); ok {
			return "the error of call to " + calleeName(c.Common())
		}
	case *ssa.UnOp:
		if g := globalLoaded(v); g != nil {
			return "sentinel " + g.Name()
		}
	case *ssa.Phi:
		return "a merged error value"
	}
	return v.String()
}

func calleeName(c *ssa.CallCommon) string {
	if f := c.StaticCallee(); f != nil {
		return shortName(f)
	}
	if c.IsInvoke() {
		return "(interface)." + c.Method.Name()
	}
	return "dynamic " + c.Value.String()
}

// Sum returns the kinds result #i of f may hold.
func (e *EK) Sum(f *ssa.Function, i int) Kinds {
	if s := e.sum[f]; s != nil && i < len(s) {
		return s[i]
	}
	return 0
}

// errResultIndex: index of the (last) error-typed result of sig, or -1.
func errResultIndex(sig *types.Signature) int {
	for i := sig.Results().Len() - 1; i >= 0; i-- {
		if isErrorType(sig.Results().At(i).Type()) {
			return i
		}
	}
	return -1
}

// callKinds: kinds of result #idx of a call.
func (e *EK) callKinds(call *ssa.Call, idx int) Kinds {
	cc := call.Common()
	if b, ok := cc.Value.(*ssa.Builtin); ok {
		_ = b
		return KUnknown
	}
	callees := e.P.Callees(call)
	if len(callees) == 0 {
		return KUnknown
	}
	var k Kinds
	for _, f := range callees {
		if e.P.InModule(f) && f.Blocks != nil {
			k |= e.Sum(f, idx)
			continue
		}
		switch f.String() {
		case "fmt.Errorf", "errors.New":
			k |= KRaw
		default:
			k |= KForeign | KNil
		}
	}
	return k
}

// Raw (unrefined) kinds of a value.
func (e *EK) Raw(v ssa.Value) Kinds {
	if k, ok := e.raw[v]; ok {
		return k
	}
	if e.inProg[v] {
		return 0 // cycle through phi: contributes nothing new
	}
	e.inProg[v] = true
	k := e.rawCompute(v)
	delete(e.inProg, v)
	e.raw[v] = k
	return k
}

func (e *EK) rawCompute(v ssa.Value) Kinds {
	switch v := v.(type) {
	case *ssa.Const:
		if v.Value == nil {
			return KNil
		}
		return KUnknown
	case *ssa.MakeInterface:
		T := v.X.Type()
		switch {
		case isLangNamed(T, "SyntaxError"):
			return KSyntax
		case isLangNamed(T, "RuntimeError"):
			return KRuntime
		case isLangNamed(T, "JsonError"):
			return KJson
		}
		return KRaw
	case *ssa.Call:
		return e.callKinds(v, 0)
	case *ssa.Extract:
		if c, ok := v.Tuple.(*ssa.Call); ok {
			return e.callKinds(c, v.Index)
		}
		return KUnknown
	case *ssa.Phi:
		F := FactsOf(v.Parent())
		var k Kinds
		for i, ev := range v.Edges {
			pred := v.Block().Preds[i]
			k |= e.KindsAt(ev, F.OnEdge(pred, v.Block()))
		}
		return k
	case *ssa.UnOp:
		if v.Op != token.MUL {
			return KUnknown
		}
		if g, ok := v.X.(*ssa.Global); ok {
			if b, ok := e.sentBit[g]; ok {
				return b
			}
			return KUnknown
		}
		if a, ok := v.X.(*ssa.Alloc); ok {
			return e.allocKinds(a)
		}
		if fv, ok := v.X.(*ssa.FreeVar); ok {
			// resolve through the closure creation in the parent
			if a := freeVarAlloc(fv); a != nil {
				return e.allocKinds(a)
			}
		}
		return KUnknown
	case *ssa.TypeAssert:
		return e.Raw(v.X)
	case *ssa.ChangeInterface:
		return e.Raw(v.X)
	case *ssa.ChangeType:
		return e.Raw(v.X)
	case *ssa.Parameter:
		return e.paramKinds(v)
	}
	return KUnknown
}

// paramKinds: the kinds an error-typed parameter of an unexported module function can hold = the
// union, over all its call sites, of the kinds of the argument under the facts at the call
// (context-insensitive). Unknown when the function can be called from outside the module or
// through a function value.
func (e *EK) paramKinds(prm *ssa.Parameter) Kinds {
	fn := prm.Parent()
	if fn == nil || !isErrorType(prm.Type()) || !e.P.InModule(fn) || fn.Parent() != nil {
		return KUnknown
	}
	if obj, ok := fn.Object().(*types.Func); !ok || obj.Exported() {
		return KUnknown
	}
	idx := -1
	for i, q := range fn.Params {
		if q == prm {
			idx = i
		}
	}
	sites := e.P.CallSitesOf(fn)
	if idx < 0 || len(sites) == 0 {
		return KUnknown
	}
	// a function whose value is taken (stored, passed) may be called from anywhere
	for _, g := range e.P.Funcs {
		taken := false
		allInstrs(g, func(in ssa.Instruction) {
			for _, op := range in.Operands(nil) {
				if op == nil || *op != ssa.Value(fn) {
					continue
				}
				if call, ok := in.(ssa.CallInstruction); ok && call.Common().Value == ssa.Value(fn) {
					continue
				}
				taken = true
			}
		})
		if taken {
			return KUnknown
		}
	}
	var k Kinds
	for _, cs := range sites {
		args := cs.Common().Args
		if idx >= len(args) {
			return KUnknown
		}
		k |= e.KindsPathwise(args[idx], cs.Block(), 4)
	}
	return k
}

// freeVarAlloc finds the Alloc bound to a free variable at the (unique) MakeClosure.
func freeVarAlloc(fv *ssa.FreeVar) *ssa.Alloc {
	fn := fv.Parent()
	idx := -1
	for i, x := range fn.FreeVars {
		if x == fv {
			idx = i
		}
	}
	if idx < 0 || fn.Parent() == nil {
		return nil
	}
	var found *ssa.Alloc
	allInstrs(fn.Parent(), func(in ssa.Instruction) {
		if mc, ok := in.(*ssa.MakeClosure); ok && mc.Fn == fn && idx < len(mc.Bindings) {
			if a, ok := mc.Bindings[idx].(*ssa.Alloc); ok {
				found = a
			}
		}
	})
	return found
}

// allocKinds: union over all stores to the local variable (flow-insensitive), each refined at
// its store point. Stores inside closures that capture the variable are included.
func (e *EK) allocKinds(a *ssa.Alloc) Kinds {
	var k Kinds
	var visit func(fn *ssa.Function, addr ssa.Value)
	visit = func(fn *ssa.Function, addr ssa.Value) {
		F := FactsOf(fn)
		allInstrs(fn, func(in ssa.Instruction) {
			switch in := in.(type) {
			case *ssa.Store:
				if in.Addr == addr {
					k |= e.KindsAt(in.Val, F.At(in.Block()))
				}
			case *ssa.MakeClosure:
				for i, b := range in.Bindings {
					if b == addr {
						if cf, ok := in.Fn.(*ssa.Function); ok && i < len(cf.FreeVars) {
							visit(cf, cf.FreeVars[i])
						}
					}
				}
			case *ssa.Call:
				for _, arg := range in.Call.Args {
					if arg == addr {
						k |= KUnknown // address escapes
					}
				}
			}
		})
	}
	visit(a.Parent(), a)
	if k == 0 {
		k = KNil // zero value of an error variable
	}
	return k
}

// refine applies the facts known about v to a kind set.
func (e *EK) refine(v ssa.Value, k Kinds, facts factSet) Kinds {
	if facts == nil {
		return k
	}
	for _, r := range facts.Rels() {
		var other ssa.Value
		switch {
		case r.x == v:
			other = r.y
		case r.y == v:
			other = r.x
		default:
			continue
		}
		if r.op != relEQ && r.op != relNE {
			continue
		}
		if isNilConst(other) {
			if r.op == relEQ {
				k &= KNil
			} else {
				k &^= KNil
			}
			continue
		}
		if g := globalLoaded(other); g != nil {
			if b, ok := e.sentBit[g]; ok {
				if r.op == relEQ {
					k &= b
				} else {
					k &^= b
				}
			}
		}
	}
	// a kind predicate applied to v: `if isControlFlow(err)`
	for f := range facts {
		call, ok := f.cond.(*ssa.Call)
		if !ok {
			continue
		}
		g := call.Call.StaticCallee()
		if g == nil || call.Call.IsInvoke() {
			continue
		}
		for j, a := range call.Call.Args {
			if a != v {
				continue
			}
			if mask, ok := e.kindPredicate(g, j); ok {
				if f.truth {
					k &= mask
				} else {
					k &^= mask
				}
			}
		}
	}
	return k
}

var kindPredCache = map[*ssa.Function]map[int]*Kinds{}

// kindPredicate: g is a pure boolean function whose answer depends only on which error its j-th
// parameter is — comparisons of the parameter with nil and with the sentinels decide every branch.
// mask = the kinds for which it answers true; every other kind (any non-sentinel error included)
// gets false, otherwise g is not accepted.
func (e *EK) kindPredicate(g *ssa.Function, j int) (Kinds, bool) {
	if m, ok := kindPredCache[g]; ok {
		if r, ok := m[j]; ok {
			if r == nil {
				return 0, false
			}
			return *r, true
		}
	} else {
		kindPredCache[g] = map[int]*Kinds{}
	}
	kindPredCache[g][j] = nil
	if len(g.Blocks) == 0 || j >= len(g.Params) || !e.P.InModule(g) {
		return 0, false
	}
	res := g.Signature.Results()
	if res.Len() != 1 || !isBoolType(res.At(0).Type()) || !isErrorType(g.Params[j].Type()) {
		return 0, false
	}
	prm := g.Params[j]
	// purity: nothing but comparisons, loads of globals, branches, phis
	pure := true
	allInstrs(g, func(in ssa.Instruction) {
		switch y := in.(type) {
		case *ssa.BinOp, *ssa.If, *ssa.Jump, *ssa.Phi, *ssa.Return, *ssa.DebugRef:
		case *ssa.UnOp:
			if y.Op == token.MUL {
				if _, isG := y.X.(*ssa.Global); !isG {
					pure = false
				}
			} else if y.Op != token.NOT {
				pure = false
			}
		default:
			pure = false
		}
	})
	if !pure {
		return 0, false
	}
	// the cases: nil, each sentinel, any other error (bit 0 of `other`)
	type kcase struct {
		bit   Kinds
		other bool
	}
	cases := []kcase{{bit: KNil}}
	for _, sg := range e.sentinels {
		cases = append(cases, kcase{bit: e.sentBit[sg]})
	}
	cases = append(cases, kcase{other: true})
	var mask Kinds
	for _, kc := range cases {
		var evalB func(v ssa.Value, from *ssa.BasicBlock, d int) (bool, bool)
		evalB = func(v ssa.Value, from *ssa.BasicBlock, d int) (bool, bool) {
			if d > 8 {
				return false, false
			}
			if b, ok := constBool(v); ok {
				return b, true
			}
			switch y := v.(type) {
			case *ssa.UnOp:
				if y.Op == token.NOT {
					b, ok := evalB(y.X, from, d+1)
					return !b, ok
				}
			case *ssa.Phi:
				if from == nil {
					return false, false
				}
				for i, pr := range y.Block().Preds {
					if pr == from {
						return evalB(y.Edges[i], nil, d+1)
					}
				}
			case *ssa.BinOp:
				if y.Op != token.EQL && y.Op != token.NEQ {
					return false, false
				}
				var other ssa.Value
				switch {
				case y.X == ssa.Value(prm):
					other = y.Y
				case y.Y == ssa.Value(prm):
					other = y.X
				default:
					return false, false
				}
				eq := false
				if isNilConst(other) {
					eq = kc.bit == KNil && !kc.other
				} else if sg := globalLoaded(other); sg != nil {
					b, isSent := e.sentBit[sg]
					if !isSent {
						return false, false
					}
					eq = !kc.other && kc.bit == b
				} else {
					return false, false
				}
				if y.Op == token.NEQ {
					eq = !eq
				}
				return eq, true
			}
			return false, false
		}
		b := g.Blocks[0]
		var from *ssa.BasicBlock
		answer, decided := false, false
		for steps := 0; steps < 200; steps++ {
			last := b.Instrs[len(b.Instrs)-1]
			var next *ssa.BasicBlock
			switch y := last.(type) {
			case *ssa.Return:
				// a phi result is resolved against the edge we arrived on
				v := y.Results[0]
				if ph, ok := v.(*ssa.Phi); ok && ph.Block() == b {
					answer, decided = evalB(ph, from, 0)
				} else {
					answer, decided = evalB(v, from, 0)
				}
			case *ssa.Jump:
				next = b.Succs[0]
			case *ssa.If:
				cv, ok := evalB(y.Cond, from, 0)
				if !ok {
					return 0, false
				}
				if cv {
					next = b.Succs[0]
				} else {
					next = b.Succs[1]
				}
			default:
				return 0, false
			}
			if next == nil {
				break
			}
			from, b = b, next
		}
		if !decided {
			return 0, false
		}
		if kc.other {
			if answer {
				return 0, false // true for arbitrary errors: not a sentinel predicate
			}
			continue
		}
		if answer {
			mask |= kc.bit
		}
	}
	kindPredCache[g][j] = &mask
	return mask, true
}

// KindsAt: kinds of v under a set of facts.
func (e *EK) KindsAt(v ssa.Value, facts factSet) Kinds {
	return e.refine(v, e.Raw(v), facts)
}

// Why renders a witness chain for kind bit b appearing in result of f.
func (e *EK) Why(f *ssa.Function, b Kinds, depth int) string {
	if depth > 6 {
		return "…"
	}
	w := e.why[f][b]
	if w == "" {
		return ""
	}
	return shortName(f) + ": " + w
}

// ---- swallow analysis ------------------------------------------------------------------------

// Swallow describes what happens to the non-nil kinds of one error-valued call result.
type Swallow struct {
	Call      *ssa.Call
	ErrVal    ssa.Value // the error value (the Call itself or its Extract); nil if dropped
	Kinds     Kinds     // non-nil kinds the call may return
	Swallowed Kinds     // kinds that can reach a return of nil (or the end of a function with no error result) / a re-execution of the call
	Where     map[Kinds]string
	Through   Kinds // kinds that can reach a Return as the function's error result unchanged
}

// errValueOf returns the SSA value holding the error result of call (nil when never extracted).
func errValueOf(call *ssa.Call) (ssa.Value, int) {
	sig := call.Common().Signature()
	idx := errResultIndex(sig)
	if idx < 0 {
		return nil, -1
	}
	if sig.Results().Len() == 1 {
		return call, idx
	}
	for _, r := range *call.Referrers() {
		if ex, ok := r.(*ssa.Extract); ok && ex.Index == idx {
			return ex, idx
		}
	}
	return nil, idx
}

// SwallowOf follows the error result of call along every path of the enclosing function.
// State per block: for each SSA value currently holding (a copy of) the result, the set of
// non-nil kinds it may still have on some path. A path ends at a Return: if the returned error
// is the tracked value, the kinds flow Through; if the returned error may be nil, they are
// Swallowed; if it is another non-nil error they are converted (neither). Reaching the call
// again (loop) re-defines the value: whatever kinds are still live then were ignored by the loop
// and count as Swallowed as well.
func (e *EK) SwallowOf(call *ssa.Call) *Swallow {
	fn := call.Parent()
	F := FactsOf(fn)
	ev, idx := errValueOf(call)
	sw := &Swallow{Call: call, ErrVal: ev, Where: map[Kinds]string{}}
	if idx < 0 {
		return sw
	}
	all := e.callKinds(call, idx) &^ KNil
	sw.Kinds = all
	if ev == nil {
		sw.Swallowed = all
		sw.Where[all] = "result discarded at the call"
		return sw
	}
	errIdx := errResultIndex(fn.Signature)

	// a tracked entry: a set of SSA values that all hold the result on this path (the value
	// itself plus the phis it flowed into), and the kinds it may still have
	type entry struct {
		vals []ssa.Value
		k    Kinds
	}
	type state map[string]*entry
	keyOf := func(vals []ssa.Value) string {
		names := make([]string, len(vals))
		for i, v := range vals {
			names[i] = v.Name()
		}
		sort.Strings(names)
		return strings.Join(names, ",")
	}
	in := map[*ssa.BasicBlock]state{}
	var work []*ssa.BasicBlock
	push := func(b *ssa.BasicBlock, vals []ssa.Value, k Kinds) {
		if k == 0 {
			return
		}
		s := in[b]
		if s == nil {
			s = state{}
			in[b] = s
		}
		key := keyOf(vals)
		en := s[key]
		if en == nil {
			en = &entry{vals: vals}
			s[key] = en
		}
		if en.k|k != en.k {
			en.k |= k
			work = append(work, b)
		}
	}
	addSw := func(k Kinds, where string) {
		if k == 0 {
			return
		}
		sw.Swallowed |= k
		if _, ok := sw.Where[k]; !ok {
			sw.Where[k] = where
		}
	}
	has := func(vals []ssa.Value, v ssa.Value) bool {
		for _, x := range vals {
			if x == v {
				return true
			}
		}
		return false
	}
	// transfer out of block b given state s (starting at instruction index `from`)
	flow := func(b *ssa.BasicBlock, s state, from int) {
		for i := from; i < len(b.Instrs); i++ {
			in := b.Instrs[i]
			if in == ssa.Instruction(call) {
				// the call executes again: live kinds were ignored
				for _, en := range s {
					addSw(en.k, "the call is executed again ("+e.P.InstrPos(call)+") while its previous error was still pending")
				}
				return
			}
			// the pending error is handed to a filter helper (`return x, keepUnlessExit(err)`): the
			// helper's result carries on with the kinds the helper lets through; what it turns into
			// nil is consumed by it
			if cin, ok := in.(*ssa.Call); ok && cin != call {
				if g := cin.Call.StaticCallee(); g != nil && e.P.InModule(g) && len(g.Params) == len(cin.Call.Args) {
					rIdx := errResultIndex(g.Signature)
					for key, en := range s {
						for j, a := range cin.Call.Args {
							if !has(en.vals, a) || rIdx < 0 {
								continue
							}
							mask := e.PassMask(g, j, rIdx)
							if mask == 0 {
								continue
							}
							var rv ssa.Value = cin
							if g.Signature.Results().Len() > 1 {
								rv = nil
								for _, r := range referrersOf(cin) {
									if ex, ok := r.(*ssa.Extract); ok && ex.Index == rIdx {
										rv = ex
									}
								}
							}
							if rv == nil {
								continue
							}
							addSw(en.k&^mask, "turned into nil by "+shortName(g)+" at "+e.P.InstrPos(cin))
							delete(s, key)
							if k2 := en.k & mask; k2 != 0 {
								s[keyOf([]ssa.Value{rv})] = &entry{vals: []ssa.Value{rv}, k: k2}
							}
						}
					}
				}
			}
			if ret, ok := in.(*ssa.Return); ok {
				for _, en := range s {
					if errIdx < 0 {
						addSw(en.k, "function returns (it has no error result) at "+e.P.InstrPos(ret))
						continue
					}
					rv := effectiveResults(ret)[errIdx]
					if has(en.vals, rv) {
						sw.Through |= en.k
						continue
					}
					rk := e.KindsAt(rv, F.At(b))
					if rk.Has(KNil) {
						addSw(en.k, "return with a nil error at "+e.P.InstrPos(ret))
					}
				}
				return
			}
		}
		for _, succ := range b.Succs {
			ef, hasEf := edgeFact(b, succ)
			for _, en := range s {
				k2 := en.k
				if hasEf {
					for _, v := range en.vals {
						k2 = e.refine(v, k2, factSet{ef: true})
					}
					k2 &^= KNil
				}
				if k2 == 0 {
					continue
				}
				// phi renaming: the phis of succ that receive one of the tracked values on this edge
				vals := en.vals
				for _, in := range succ.Instrs {
					phi, ok := in.(*ssa.Phi)
					if !ok {
						break
					}
					for pi, pe := range phi.Edges {
						if succ.Preds[pi] == b && has(en.vals, pe) && !has(vals, phi) {
							vals = append(append([]ssa.Value{}, vals...), phi)
						}
					}
				}
				push(succ, vals, k2)
			}
		}
	}
	// start: after the definition of ev
	defBlock := call.Block()
	start := instrIndex(call) + 1
	if ex, ok := ev.(*ssa.Extract); ok {
		start = instrIndex(ex) + 1
		defBlock = ex.Block()
	}
	flow(defBlock, state{"": &entry{vals: []ssa.Value{ev}, k: all}}, start)
	done := map[*ssa.BasicBlock]int{}
	for len(work) > 0 {
		b := work[len(work)-1]
		work = work[:len(work)-1]
		done[b]++
		if done[b] > 500 {
			sw.Swallowed |= KUnknown
			sw.Where[KUnknown] = "swallow analysis did not converge"
			break
		}
		s := state{}
		for key, en := range in[b] {
			s[key] = &entry{vals: en.vals, k: en.k}
		}
		flow(b, s, 0)
	}
	return sw
}

// KindsPathwise: the kinds v may have on entry to block b, computed edge-wise: the union over
// the predecessors of (kinds on entry to the predecessor) refined by that edge's fact. This keeps
// disjunctive conditions (`a == nil || a == sentinel`) that a must-intersection at the join loses.
func (e *EK) KindsPathwise(v ssa.Value, b *ssa.BasicBlock, depth int) Kinds {
	F := FactsOf(b.Parent())
	def, _ := v.(ssa.Instruction)
	if depth > 8 || len(b.Preds) == 0 || (def != nil && def.Block() == b) {
		return e.KindsAt(v, F.At(b))
	}
	var k Kinds
	for _, p := range b.Preds {
		var kp Kinds
		if def != nil && def.Block() == p {
			kp = e.Raw(v)
		} else if def != nil && !def.Block().Dominates(p) {
			continue // the value is not defined on this path (loop entry)
		} else {
			kp = e.KindsPathwise(v, p, depth+1)
		}
		fs := factSet{}
		if ef, ok := edgeFact(p, b); ok {
			F.expand(ef, fs, 0)
		}
		k |= e.refine(v, kp, fs)
	}
	return e.refine(v, k, F.At(b))
}

// PassMask: the kinds that an error passed as parameter j of module function g can still have when g
// returns that same value as its result i (0 when g never returns the parameter itself). Computed by
// giving the parameter every kind and refining by the facts at each return of the parameter.
func (e *EK) PassMask(g *ssa.Function, j, i int) Kinds {
	if j >= len(g.Params) || !isErrorType(g.Params[j].Type()) || len(g.Blocks) == 0 {
		return 0
	}
	prm := g.Params[j]
	all := KSyntax | KRuntime | KJson | KRaw | KForeign | KUnknown | e.AllSentinels()
	saved, had := e.raw[prm]
	e.raw[prm] = all
	defer func() {
		if had {
			e.raw[prm] = saved
		} else {
			delete(e.raw, prm)
		}
	}()
	F := FactsOf(g)
	var mask Kinds
	for _, r := range returnsOf(g) {
		res := effectiveResults(r)
		if i >= len(res) {
			continue
		}
		switch x := res[i].(type) {
		case *ssa.Parameter:
			if x == prm {
				mask |= e.KindsPathwise(prm, r.Block(), 4) &^ KNil
			}
		case *ssa.Phi:
			for pi, pe := range x.Edges {
				if pe == ssa.Value(prm) {
					mask |= e.refine(prm, all, F.OnEdge(x.Block().Preds[pi], x.Block())) &^ KNil
				}
			}
		}
	}
	return mask
}

package main

import (
	"fmt"
	"go/token"
	"go/types"
	"strings"

	"golang.org/x/tools/go/ssa"
)

// C01/R4 nil-root (= C14/R3): dereferences of Evaluator.root are guarded; ruleRoot is bound
// before every rule evaluation.
func nilRoot(c *Ctx, rule string) {
	p := c.P
	c.note("%s nil-root: EvalProgram hands its evaluator to the caller from returns that are not dominated by a store to Evaluator.root (no input value, exit in BEGIN), so the field may be nil in every method; every dereference of Evaluator.root in package lang must be preceded, on all paths, by a non-nil test of that same field with no store to it in between. Evaluator.ruleRoot (what `$` and a bare print denote) is stored, with a fresh or known non-nil cell, before every root evaluation call in the drivers.", rule)
	// does a nil root escape? (derived, not assumed)
	ep := p.LangFunc("EvalProgram")
	if ep != nil {
		esc := 0
		var rootStores []*ssa.Store
		for _, st := range storesToField(ep, "Evaluator", "root", false) {
			rootStores = append(rootStores, st)
		}
		for _, r := range returnsOf(ep) {
			dominated := false
			for _, st := range rootStores {
				if dominatesInstr(st, r) {
					dominated = true
				}
			}
			if !dominated {
				esc++
			}
		}
		c.ok(rule, "root-may-be-nil", p.Pos(ep.Pos()), fmt.Sprintf("%d of EvalProgram's returns are not dominated by a store to Evaluator.root: callers can hold an evaluator whose root is nil", esc))
	}
	n := 0
	for _, fn := range p.Funcs {
		if !p.InLang(fn) {
			continue
		}
		allInstrs(fn, func(in ssa.Instruction) {
			ld, ok := in.(*ssa.UnOp)
			if !ok || ld.Op != token.MUL {
				return
			}
			sf, ok := loadedField(ld)
			if !ok || !sf.Is("Evaluator", "root") {
				return
			}
			// is the loaded pointer dereferenced?
			deref := false
			for _, r := range referrersOf(ld) {
				switch x := r.(type) {
				case *ssa.FieldAddr:
					deref = deref || x.X == ssa.Value(ld)
				case *ssa.UnOp:
					deref = deref || (x.Op == token.MUL && x.X == ssa.Value(ld))
				}
			}
			if !deref {
				return
			}
			n++
			key := fmt.Sprintf("root-deref #%d in %s", n, shortName(fn))
			if sameFieldKnownNonNil(p, fn, ld, "Evaluator", "root") {
				c.ok(rule, key, p.InstrPos(ld), "guarded by a non-nil test of Evaluator.root")
				return
			}
			// `root := e.root; if root == nil { return }; … root.Value …`: the loaded pointer itself is
			// tested before every dereference of it
			{
				tested := true
				for _, r := range referrersOf(ld) {
					isDeref := false
					switch x := r.(type) {
					case *ssa.FieldAddr:
						isDeref = x.X == ssa.Value(ld)
					case *ssa.UnOp:
						isDeref = x.Op == token.MUL && x.X == ssa.Value(ld)
					}
					if isDeref && !FactsOf(fn).At(r.Block()).KnownNonNil(ld) {
						tested = false
					}
				}
				if tested {
					c.ok(rule, key, p.InstrPos(ld), "the loaded pointer is tested against nil before every dereference of it")
					return
				}
			}
			// freshly stored in this function before the load?
			for _, st := range storesToField(fn, "Evaluator", "root", false) {
				if dominatesInstr(st, ld) {
					if call, _ := callOf(st.Val); call != nil && staticCalleeIs(call, "lang.NewCell") {
						c.ok(rule, key, p.InstrPos(ld), "stored with a fresh cell earlier in the same function")
						return
					}
				}
			}
			c.violated(rule, key, p.InstrPos(ld), "Evaluator.root is dereferenced without a preceding non-nil test: with no input value (empty input, or exit in BEGIN) the root is nil and this is a Go nil-pointer panic")
		})
	}
	if n < 2 {
		c.undecided(rule, "instance-floor", "", fmt.Sprintf("%d dereferences of Evaluator.root found, 3 confirmed by hand", n))
	}
	// ruleRoot bound before root evaluations
	for _, name := range []string{"EvalProgram", "EvalExpression", "(*Evaluator).evalPatternRules"} {
		fn := p.LangFunc(name)
		if fn == nil {
			c.undecided(rule, "ruleRoot-bound "+name, "", "anchor not found")
			continue
		}
		k := 0
		for _, call := range callsIn(fn) {
			isEval := staticCalleeIs(call, "(*lang.Evaluator).evalStatement") || staticCalleeIs(call, "(*lang.Evaluator).evalExpr") || staticCalleeIs(call, "(*lang.Evaluator).evalRules")
			if !isEval {
				continue
			}
			k++
			key := fmt.Sprintf("ruleRoot-bound %s #%d %s", name, k, calleeName(call.Common()))
			var dom *ssa.Store
			for _, st := range storesToField(fn, "Evaluator", "ruleRoot", false) {
				if dominatesInstr(st, call) {
					dom = st
				}
			}
			if dom == nil {
				c.violated(rule, key, p.InstrPos(call), "a rule / selector is evaluated without Evaluator.ruleRoot having been stored on every path before it: `$` and a bare print would use a stale or nil root")
				continue
			}
			v := dom.Val
			okV := false
			why := p.Render(v)
			if cl, _ := callOf(v); cl != nil && staticCalleeIs(cl, "lang.NewCell") {
				okV = true
			} else if u, ok := v.(*ssa.UnOp); ok && u.Op == token.MUL {
				if _, isIdx := u.X.(*ssa.IndexAddr); isIdx {
					okV = true // an element of a []*Cell (array element / selected root)
				}
				if sf, ok := loadedField(u); ok && sf.Is("Evaluator", "root") {
					okV = sameFieldKnownNonNil(p, fn, u, "Evaluator", "root") || FactsOf(fn).At(dom.Block()).KnownNonNil(u)
				}
			}
			c.check(okV, rule, key, p.InstrPos(dom), "ruleRoot := "+why, "ruleRoot is bound to "+why+", which is not known to be a non-nil cell")
		}
	}
}

// sameFieldKnownNonNil: some load of the same field of the same base is known non-nil at ld's
// block, and no store to that field (in this function or a callee that may store it) lies between.
func sameFieldKnownNonNil(p *Program, fn *ssa.Function, ld *ssa.UnOp, structName, field string) bool {
	sf, _ := loadedField(ld)
	facts := FactsOf(fn).At(ld.Block())
	for _, rl := range facts.Rels() {
		if rl.op != relNE || !isNilConst(rl.y) {
			continue
		}
		other, ok := rl.x.(*ssa.UnOp)
		if !ok {
			continue
		}
		osf, ok := loadedField(other)
		if !ok || !osf.Is(structName, field) || osf.Base != sf.Base {
			continue
		}
		// no store / storing call between other and ld
		clean := true
		between := reachableFrom([]*ssa.BasicBlock{other.Block()}, map[*ssa.BasicBlock]bool{ld.Block(): true})
		for b := range between {
			for _, in := range b.Instrs {
				if b == other.Block() && instrIndex(in) <= instrIndex(other) {
					continue
				}
				if b == ld.Block() && instrIndex(in) >= instrIndex(ld) {
					continue
				}
				switch x := in.(type) {
				case *ssa.Store:
					if s2, ok := fieldOfAddr(x.Addr); ok && s2.Is(structName, field) {
						clean = false
					}
				case *ssa.Call:
					for _, callee := range p.Callees(x) {
						if mayStoreField(p, callee, structName, field, map[*ssa.Function]bool{}) {
							clean = false
						}
					}
				}
			}
		}
		if clean {
			return true
		}
	}
	return false
}

func mayStoreField(p *Program, fn *ssa.Function, structName, field string, seen map[*ssa.Function]bool) bool {
	if seen[fn] || !p.InModule(fn) {
		return false
	}
	seen[fn] = true
	if len(storesToField(fn, structName, field, true)) > 0 {
		return true
	}
	for _, call := range callsIn(fn) {
		for _, callee := range p.Callees(call) {
			if mayStoreField(p, callee, structName, field, seen) {
				return true
			}
		}
	}
	return false
}

// C01/R3 value-after-error and R3b nullable results.
func valueAfterError(c *Ctx, rule string) {
	p := c.P
	c.note("%s value-after-error: for every call to a module function with results (…, P, …, error), P a pointer / interface / map / func / slice: every use of P other than a nil comparison or being returned together with that same error must lie on paths where the error is known nil (path-sensitive exploration from the call). Nullable results: a function that can return (nil P, nil error) — computed as a fixpoint, today (*Value).GetMember and protoMember, which mean `no such member` — additionally requires P != nil before any dereference at every call site.", rule)
	// nullable functions
	nullable := nullableFuncs(p)
	var names []string
	for f := range nullable {
		names = append(names, shortName(f))
	}
	c.ok(rule, "nullable-results", "", "functions that may return (nil, nil): "+strings.Join(sortedStrings(names), ", "))
	n := 0
	for _, fn := range p.Funcs {
		if !p.InLang(fn) && !p.InCli(fn) {
			continue
		}
		if strings.HasPrefix(shortName(fn), "cli.debug") {
			continue
		}
		for _, call := range callsIn(fn) {
			cv, ok := call.(*ssa.Call)
			if !ok {
				continue
			}
			callee := cv.Call.StaticCallee()
			if callee == nil || !p.InModule(callee) {
				continue
			}
			sig := callee.Signature
			eidx := errResultIndex(sig)
			if eidx < 0 || sig.Results().Len() < 2 {
				continue
			}
			var errV ssa.Value
			pv := map[ssa.Value]bool{}
			for _, r := range referrersOf(cv) {
				ex, ok := r.(*ssa.Extract)
				if !ok {
					continue
				}
				if ex.Index == eidx {
					errV = ex
				} else if pointerLike(ex.Type()) {
					pv[ex] = true
				}
			}
			for pval := range pv {
				n++
				key := fmt.Sprintf("%s -> %s result#%d", shortName(fn), shortName(callee), pval.(*ssa.Extract).Index)
				if errV == nil {
					c.violated(rule, key, p.InstrPos(cv), "the value result is used but the error result is never read")
					continue
				}
				bad := usesWithoutNilError(p, cv, pval, errV, nullable[callee])
				if len(bad) == 0 {
					c.ok(rule, key, p.InstrPos(cv), "every use is on a path where the error is nil"+map[bool]string{true: " and the value was tested non-nil", false: ""}[nullable[callee]])
				} else {
					c.violated(rule, key, p.InstrPos(cv), "the result is used "+strings.Join(dedup(bad), "; ")+": on such a path the value is nil or meaningless (nil dereference, or a nil cell handed to the caller)")
				}
			}
		}
	}
	c.Analysed["pointer_results_of_module_calls"] = n
	if n < 60 {
		c.undecided(rule, "instance-floor", "", fmt.Sprintf("%d pointer-like results of error-returning module calls, 80 confirmed by hand", n))
	}
}

func sortedStrings(xs []string) []string {
	out := append([]string{}, xs...)
	for i := range out {
		for j := i + 1; j < len(out); j++ {
			if out[j] < out[i] {
				out[i], out[j] = out[j], out[i]
			}
		}
	}
	return out
}

func pointerLike(T types.Type) bool {
	switch T.Underlying().(type) {
	case *types.Pointer, *types.Interface, *types.Map, *types.Signature:
		return true
	}
	return false
}

// nullableFuncs: functions with (P, error) results that may return a nil P together with a nil error.
func nullableFuncs(p *Program) map[*ssa.Function]bool {
	ek := EKOf(p)
	out := map[*ssa.Function]bool{}
	changed := true
	for changed {
		changed = false
		for _, fn := range p.Funcs {
			if !p.InLang(fn) || out[fn] {
				continue
			}
			sig := fn.Signature
			eidx := errResultIndex(sig)
			if eidx < 0 || sig.Results().Len() != 2 || !pointerLike(sig.Results().At(0).Type()) {
				continue
			}
			F := FactsOf(fn)
			for _, r := range returnsOf(fn) {
				res := effectiveResults(r)
				if !ek.KindsAt(res[eidx], F.At(r.Block())).Has(KNil) {
					continue
				}
				if mayBeNilValue(p, res[0], F.At(r.Block()), out, map[ssa.Value]bool{}) {
					out[fn] = true
					changed = true
				}
			}
		}
	}
	return out
}

func mayBeNilValue(p *Program, v ssa.Value, facts factSet, nullable map[*ssa.Function]bool, seen map[ssa.Value]bool) bool {
	if seen[v] {
		return false
	}
	seen[v] = true
	if facts.KnownNonNil(v) {
		return false
	}
	switch x := v.(type) {
	case *ssa.Const:
		return x.Value == nil
	case *ssa.Phi:
		F := FactsOf(x.Parent())
		for i, e := range x.Edges {
			if mayBeNilValue(p, e, F.OnEdge(x.Block().Preds[i], x.Block()), nullable, seen) {
				return true
			}
		}
		return false
	case *ssa.Extract:
		if call, ok := x.Tuple.(*ssa.Call); ok {
			if f := call.Call.StaticCallee(); f != nil && nullable[f] && x.Index == 0 {
				return true
			}
		}
		return false
	case *ssa.MakeInterface:
		return false
	}
	return false
}

// usesWithoutNilError explores paths from the call and reports uses of P where err is not known nil
// (and, for nullable callees, P not known non-nil).
func usesWithoutNilError(p *Program, call *ssa.Call, pval, errV ssa.Value, nullable bool) []string {
	var bad []string
	s0 := newNilState(pval, "P", errV, "err")
	explorePaths(call, s0, func(in ssa.Instruction, s nilState) bool {
		if in == ssa.Instruction(call) {
			return true // re-execution in a loop: new values
		}
		errNil := func() bool {
			for _, e := range s.byRole("err") {
				if st, _ := s.get(e); st == nsNil {
					return true
				}
			}
			return false
		}
		isP := func(v ssa.Value) bool { return s.role(v) == "P" }
		pNonNil := func(v ssa.Value) bool { st, _ := s.get(v); return st == nsNonNil }
		pNil := func(v ssa.Value) bool { st, _ := s.get(v); return st == nsNil }
		flag := func(v ssa.Value, what string, deref bool) {
			if !isP(v) {
				return
			}
			if pNil(v) && !deref {
				return
			}
			if !errNil() {
				bad = append(bad, what+" at "+p.InstrPos(in)+" where the error is not known to be nil")
				return
			}
			if nullable && deref && !pNonNil(v) {
				bad = append(bad, what+" at "+p.InstrPos(in)+" without a non-nil test (the callee may return no value without an error)")
			}
		}
		switch x := in.(type) {
		case *ssa.Return:
			res := effectiveResults(x)
			for i, rv := range res {
				if !isP(rv) {
					continue
				}
				// returned together with the same error value?
				together := false
				for j, ev := range res {
					if j != i && s.role(ev) == "err" {
						together = true
					}
				}
				if !together {
					flag(rv, "returned", false)
				}
			}
			return true
		case *ssa.FieldAddr:
			flag(x.X, "dereferenced", true)
		case *ssa.UnOp:
			if x.Op == token.MUL {
				flag(x.X, "dereferenced", true)
			}
		case *ssa.Store:
			if a, ok := x.Addr.(*ssa.Alloc); ok && isResultSpill(a) {
				// the result variable of a function with a defer: the value is judged at the return
				break
			}
			flag(x.Val, "stored", false)
		case *ssa.MapUpdate:
			flag(x.Value, "stored into a map", false)
		case *ssa.Lookup:
			flag(x.X, "indexed", true)
		case *ssa.Range:
			// ranging a nil map is harmless
		case ssa.CallInstruction:
			cc := x.Common()
			if cc.IsInvoke() && isP(cc.Value) {
				flag(cc.Value, "method invoked", true)
			}
			for _, a := range cc.Args {
				flag(a, "passed to "+calleeName(cc), false)
			}
		case *ssa.MakeInterface:
			flag(x.X, "converted to an interface", false)
		case *ssa.TypeAssert:
			// a failed comma-ok assertion is harmless; a plain assertion on nil panics
			if !x.CommaOk {
				flag(x.X, "type-asserted", true)
			}
		}
		return false
	})
	return bad
}

// isResultSpill: a local slot that only carries a return operand across `rundefers` (go/ssa spills
// the results of a function with a defer): written by stores, read only by the operands of
// returns, captured by no closure.
func isResultSpill(a *ssa.Alloc) bool {
	if a.Heap {
		return false
	}
	loads := 0
	for _, r := range referrersOf(a) {
		switch x := r.(type) {
		case *ssa.Store:
			if x.Addr != ssa.Value(a) {
				return false
			}
		case *ssa.UnOp:
			if x.Op != token.MUL {
				return false
			}
			for _, rr := range referrersOf(x) {
				if _, ok := rr.(*ssa.Return); !ok {
					return false
				}
			}
			loads++
		case *ssa.DebugRef:
		default:
			return false
		}
	}
	return loads > 0
}

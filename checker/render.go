package main

// S6 support: a canonical rendering of the dataflow under an SSA value, so that "what does this
// arm compute" can be compared with an oracle row. The rendering abstracts from variable names,
// temporaries, statement order and block structure; it is not source text.

import (
	"fmt"
	"go/ast"
	"go/constant"
	"go/token"
	"go/types"
	"os"
	"sort"
	"strings"

	"golang.org/x/tools/go/ssa"
)

type renderer struct {
	p        *Program
	subst    map[*ssa.Parameter]string // for inlined callees
	depth    int
	onPath   map[*ssa.Phi]bool // loop-carried phis being rendered
	noExpand bool              // loop-carried variables by name only
}

// RenderShort renders with loop-carried variables by name only.
func (p *Program) RenderShort(v ssa.Value) string {
	r := &renderer{p: p, noExpand: true}
	return r.val(v, 0)
}

func (p *Program) Render(v ssa.Value) string {
	r := &renderer{p: p}
	return r.val(v, 0)
}

func typeShort(T types.Type) string {
	s := types.TypeString(T, func(pk *types.Package) string {
		if pk.Path() == langPath {
			return "lang"
		}
		return pk.Name()
	})
	return s
}

func (r *renderer) val(v ssa.Value, d int) string {
	if v == nil {
		return "<nil>"
	}
	if d > 28 {
		return "…"
	}
	switch x := v.(type) {
	case *ssa.Const:
		if x.Value == nil {
			return "nil"
		}
		if x.Value.Kind() == constant.String {
			return fmt.Sprintf("%q", constant.StringVal(x.Value))
		}
		// enum constants by name
		if n := namedOf(x.Type()); n != nil && n.Obj().Pkg() != nil && n.Obj().Pkg().Path() == langPath {
			if iv, ok := constant.Int64Val(x.Value); ok {
				if name, ok := constNames(r.p.Lang.Types, n.Obj().Name())[iv]; ok {
					return name
				}
			}
		}
		return x.Value.ExactString()
	case *ssa.Parameter:
		if s, ok := r.subst[x]; ok {
			return s
		}
		return canonParamName(x)
	case *ssa.FreeVar:
		return "free:" + typeShort(x.Type())
	case *ssa.Global:
		return "&" + x.Name()
	case *ssa.Function:
		return shortName(x)
	case *ssa.Builtin:
		return x.Name()
	case *ssa.UnOp:
		switch x.Op {
		case token.MUL:
			return r.load(x.X, d+1)
		case token.NOT:
			return "!" + r.val(x.X, d+1)
		case token.SUB:
			return "-" + r.val(x.X, d+1)
		case token.ARROW:
			return "<-" + r.val(x.X, d+1)
		}
		return x.Op.String() + r.val(x.X, d+1)
	case *ssa.BinOp:
		// the index of a range loop: phi#rangeindex + 1
		if phi, ok := x.X.(*ssa.Phi); ok && x.Op == token.ADD && phi.Comment == "rangeindex" {
			return "i@" + rangeSubject(phi, r, d)
		}
		lx, ly := r.val(x.X, d+1), r.val(x.Y, d+1)
		// integer + and * are commutative: one operand order (a constant stays on the right)
		if x.Op == token.ADD || x.Op == token.MUL {
			if b, ok := x.Type().Underlying().(*types.Basic); ok && b.Info()&types.IsInteger != 0 {
				_, cx := x.X.(*ssa.Const)
				_, cy := x.Y.(*ssa.Const)
				if (cx && !cy) || (!cx && !cy && ly < lx) {
					lx, ly = ly, lx
				}
			}
		}
		return "(" + lx + " " + x.Op.String() + " " + ly + ")"
	case *ssa.Call:
		return r.call(&x.Call, d+1)
	case *ssa.Extract:
		return r.val(x.Tuple, d+1) + "#" + fmt.Sprint(x.Index)
	case *ssa.Field:
		st := x.X.Type().Underlying().(*types.Struct)
		return r.val(x.X, d+1) + "." + canonFieldName(namedOf(x.X.Type()), st, x.Field)
	case *ssa.FieldAddr:
		if sf, ok := fieldOfAddr(x); ok {
			return "&" + r.addrBase(x.X, d+1) + "." + sf.Name
		}
	case *ssa.IndexAddr:
		return "&" + r.addrBase(x.X, d+1) + "[" + r.val(x.Index, d+1) + "]"
	case *ssa.Index:
		return r.val(x.X, d+1) + "[" + r.val(x.Index, d+1) + "]"
	case *ssa.Lookup:
		return r.val(x.X, d+1) + "[" + r.val(x.Index, d+1) + "]"
	case *ssa.Convert:
		return typeShort(x.Type()) + "(" + r.val(x.X, d+1) + ")"
	case *ssa.ChangeType:
		return r.val(x.X, d+1)
	case *ssa.MakeInterface:
		return r.val(x.X, d+1)
	case *ssa.ChangeInterface:
		return r.val(x.X, d+1)
	case *ssa.TypeAssert:
		return r.val(x.X, d+1) + ".(" + typeShort(x.AssertedType) + ")"
	case *ssa.Slice:
		lo, hi := "", ""
		if x.Low != nil {
			lo = r.val(x.Low, d+1)
		}
		if x.High != nil {
			hi = r.val(x.High, d+1)
		}
		return r.sliceBase(x.X, d+1) + "[" + lo + ":" + hi + "]"
	case *ssa.Phi:
		if x.Comment == "rangeindex" {
			return "(i-1)"
		}
		if r.onPath == nil {
			r.onPath = map[*ssa.Phi]bool{}
		}
		// a hand-written index loop `for i := 0; i < len(X); i++` whose index is only stepped by the
		// loop itself is the same thing as `for i := range X`: rendered as the range index i@X
		if subj, ok := r.indexLoopSubject(x, d); ok {
			return "i@" + subj
		}
		// a loop-carried variable: named; expanded once (initial value | step), nested
		// occurrences are just the name
		if x.Comment != "" && loopCarried(x) {
			name := loopVarName(x)
			if r.onPath[x] || r.noExpand {
				return "φ" + name
			}
			r.onPath[x] = true
			defer delete(r.onPath, x)
			var parts []string
			seen := map[string]bool{}
			for _, e := range x.Edges {
				s := r.val(e, d+2)
				if !seen[s] && s != "φ"+name {
					seen[s] = true
					parts = append(parts, s)
				}
			}
			sort.Strings(parts)
			return "φ" + name + "⟨" + strings.Join(parts, " | ") + "⟩"
		}
		if r.onPath[x] {
			return "loop"
		}
		r.onPath[x] = true
		defer delete(r.onPath, x)
		// `if c { v = true } else { v = false }` is v = c
		if len(x.Edges) == 2 && len(x.Block().Preds) == 2 {
			p0, p1 := x.Block().Preds[0], x.Block().Preds[1]
			if ifi, firstIsTrue := diamondOf(p0, p1); ifi != nil {
				e0, e1 := r.val(x.Edges[0], d+2), r.val(x.Edges[1], d+2)
				if !firstIsTrue {
					e0, e1 = e1, e0
				}
				if s, ok := r.branchSelect(ifi.Cond, e0, e1, d); ok {
					return s
				}
			} else {
				// triangle: one predecessor is the testing block itself
				for i := 0; i < 2; i++ {
					t, arm := x.Block().Preds[i], x.Block().Preds[1-i]
					ifi, ok := t.Instrs[len(t.Instrs)-1].(*ssa.If)
					if !ok || len(arm.Preds) != 1 || arm.Preds[0] != t || len(t.Succs) != 2 {
						continue
					}
					viaTest, viaArm := r.val(x.Edges[i], d+2), r.val(x.Edges[1-i], d+2)
					onTrue, onFalse := viaArm, viaTest
					if t.Succs[1] == arm {
						onTrue, onFalse = viaTest, viaArm
					}
					if s, ok := r.branchSelect(ifi.Cond, onTrue, onFalse, d); ok {
						return s
					}
				}
			}
		}
		var parts []string
		seen := map[string]bool{}
		for _, e := range x.Edges {
			s := r.val(e, d+2)
			// a merge of merges is one merge: phi(phi(a | b) | c) = phi(a | b | c)
			for _, leaf := range phiLeaves(s) {
				if !seen[leaf] {
					seen[leaf] = true
					parts = append(parts, leaf)
				}
			}
		}
		sort.Strings(parts)
		if len(parts) == 1 {
			return parts[0]
		}
		return "phi(" + strings.Join(parts, " | ") + ")"
	case *ssa.Alloc:
		return "&" + r.allocContent(x, d+1)
	case *ssa.MakeMap:
		return "make(" + typeShort(x.Type()) + ")"
	case *ssa.MakeSlice:
		return "make(" + typeShort(x.Type()) + ", " + r.val(x.Len, d+1) + ")"
	case *ssa.MakeClosure:
		return "closure:" + shortName(x.Fn.(*ssa.Function))
	case *ssa.Next:
		return "next(" + r.val(x.Iter, d+1) + ")"
	case *ssa.Range:
		return "range(" + r.val(x.X, d+1) + ")"
	}
	return fmt.Sprintf("%T:%s", v, v.Name())
}

// addrBase renders the base of a field/element address: when the base is itself an address
// computation (nested struct field, array element) the '&' is dropped: &(&a.Value).Num = &a.Value.Num
func (r *renderer) addrBase(v ssa.Value, d int) string {
	s := r.val(v, d)
	switch v.(type) {
	case *ssa.FieldAddr, *ssa.IndexAddr:
		return strings.TrimPrefix(s, "&")
	case *ssa.Alloc:
		return strings.TrimPrefix(s, "&")
	}
	return s
}

// sliceBase: slicing a local array (variadic packing) renders the array's content.
func (r *renderer) sliceBase(v ssa.Value, d int) string {
	if a, ok := v.(*ssa.Alloc); ok {
		return r.allocContent(a, d)
	}
	return r.val(v, d)
}

// load renders *addr.
func (r *renderer) load(addr ssa.Value, d int) string {
	switch a := addr.(type) {
	case *ssa.FieldAddr:
		if sf, ok := fieldOfAddr(a); ok {
			// field of a local struct variable: propagate the stored value when unique
			if al, ok := a.X.(*ssa.Alloc); ok {
				if v := uniqueFieldStore(al, a.Field); v != nil {
					return r.val(v, d)
				}
				if whole := uniqueWholeStore(al); whole != nil {
					return r.val(whole, d) + "." + sf.Name
				}
			}
			return r.addrBase(a.X, d) + "." + sf.Name
		}
	case *ssa.IndexAddr:
		return r.addrBase(a.X, d) + "[" + r.val(a.Index, d) + "]"
	case *ssa.Global:
		return a.Name()
	case *ssa.Alloc:
		if whole := uniqueWholeStore(a); whole != nil {
			return r.val(whole, d)
		}
		return r.allocContent(a, d)
	case *ssa.FreeVar:
		return "free:" + typeShort(a.Type())
	case *ssa.Call:
		// *Not(&NewValue(b)) for a boolean b is NewValue(!b) (Not(v) = NewValue(!isTruthy(v)), checked by
		// C05/R8, and a boolean value is truthy exactly when it is true)
		if staticCalleeIs(a, "(*lang.Value).Not") && len(a.Call.Args) == 1 {
			arg := r.val(a.Call.Args[0], d)
			if strings.HasPrefix(arg, "&lang.NewValue(") && strings.HasSuffix(arg, ")") {
				inner := arg[len("&lang.NewValue(") : len(arg)-1]
				if isBoolText(inner) {
					return "lang.NewValue(" + negText(inner) + ")"
				}
			}
		}
	}
	return "*" + r.val(addr, d)
}

// isBoolText: the rendering is that of a boolean expression (constant, comparison, negation, or a
// call known to return bool)
func isBoolText(s string) bool {
	if s == "true" || s == "false" || strings.HasPrefix(s, "!") {
		return true
	}
	if strings.HasPrefix(s, "(") && strings.HasSuffix(s, ")") {
		if _, op, _, ok := splitTopLevelRel(s[1 : len(s)-1]); ok && op != "" {
			return true
		}
	}
	for _, f := range []string{"(*regexp.Regexp).MatchString(", "(*lang.Value).isTruthy(", "lang.isTruthy("} {
		if strings.HasPrefix(s, f) {
			return true
		}
	}
	return false
}

// splitTopLevelRel splits "A op B" at the relational operator that is not nested in brackets.
func splitTopLevelRel(s string) (string, string, string, bool) {
	depth := 0
	for i := 0; i < len(s); i++ {
		switch s[i] {
		case '(', '[', '{':
			depth++
		case ')', ']', '}':
			depth--
		case ' ':
			if depth != 0 {
				continue
			}
			for _, op := range []string{" == ", " != ", " <= ", " >= ", " < ", " > "} {
				if strings.HasPrefix(s[i:], op) {
					return s[:i], strings.TrimSpace(op), s[i+len(op):], true
				}
			}
		}
	}
	return "", "", "", false
}

// negText: the rendering of the negation of a boolean rendering (== and != are flipped; ordering
// comparisons are not, because !(a < b) is not a >= b for NaN)
func negText(s string) string {
	switch {
	case s == "true":
		return "false"
	case s == "false":
		return "true"
	case strings.HasPrefix(s, "!"):
		return s[1:]
	}
	if strings.HasPrefix(s, "(") && strings.HasSuffix(s, ")") {
		if a, op, b, ok := splitTopLevelRel(s[1 : len(s)-1]); ok {
			switch op {
			case "==":
				return "(" + a + " != " + b + ")"
			case "!=":
				return "(" + a + " == " + b + ")"
			}
		}
	}
	return "!" + s
}

// branchSelect: v1 is the value on the true edge of an If, v0 on the false edge, of two renderings
// that are the boolean constants (plain or wrapped in NewValue): the merged value is the condition.
func (r *renderer) branchSelect(cond ssa.Value, onTrue, onFalse string, d int) (string, bool) {
	c := r.val(cond, d+1)
	switch {
	case onTrue == "true" && onFalse == "false":
		return c, true
	case onTrue == "false" && onFalse == "true":
		return negText(c), true
	case onTrue == "lang.NewValue(true)" && onFalse == "lang.NewValue(false)":
		return "lang.NewValue(" + c + ")", true
	case onTrue == "lang.NewValue(false)" && onFalse == "lang.NewValue(true)":
		return "lang.NewValue(" + negText(c) + ")", true
	}
	return "", false
}

// diamondOf: the two blocks are the two arms of one If (each reached only from it); returns the If
// and whether b1 is its true arm.
func diamondOf(b1, b2 *ssa.BasicBlock) (*ssa.If, bool) {
	if b1 == nil || b2 == nil || len(b1.Preds) != 1 || len(b2.Preds) != 1 || b1.Preds[0] != b2.Preds[0] {
		return nil, false
	}
	d := b1.Preds[0]
	ifi, ok := d.Instrs[len(d.Instrs)-1].(*ssa.If)
	if !ok || len(d.Succs) != 2 {
		return nil, false
	}
	if d.Succs[0] == b1 && d.Succs[1] == b2 {
		return ifi, true
	}
	if d.Succs[1] == b1 && d.Succs[0] == b2 {
		return ifi, false
	}
	return nil, false
}

func uniqueWholeStore(a *ssa.Alloc) ssa.Value {
	var v ssa.Value
	n := 0
	for _, r := range referrersOf(a) {
		switch x := r.(type) {
		case *ssa.Store:
			if x.Addr == a {
				n++
				v = x.Val
			}
		case *ssa.FieldAddr, *ssa.IndexAddr:
			// a field store may follow; whole store is not the complete content
			for _, rr := range referrersOf(x.(ssa.Value)) {
				if st, ok := rr.(*ssa.Store); ok && st.Addr == x.(ssa.Value) {
					return nil
				}
			}
		case *ssa.MakeClosure:
			return nil
		}
	}
	if n == 1 {
		return v
	}
	return nil
}

func uniqueFieldStore(a *ssa.Alloc, field int) ssa.Value {
	var v ssa.Value
	n := 0
	for _, r := range referrersOf(a) {
		switch x := r.(type) {
		case *ssa.FieldAddr:
			if x.Field != field {
				continue
			}
			for _, rr := range referrersOf(x) {
				if st, ok := rr.(*ssa.Store); ok && st.Addr == ssa.Value(x) {
					n++
					v = st.Val
				}
			}
		case *ssa.Store:
			if x.Addr == a {
				return nil // whole-value store as well
			}
		}
	}
	if n == 1 {
		return v
	}
	return nil
}

// allocContent renders the content of a local variable / composite literal.
func (r *renderer) allocContent(a *ssa.Alloc, d int) string {
	if d > 10 {
		return "…"
	}
	if whole := uniqueWholeStore(a); whole != nil {
		return r.val(whole, d)
	}
	elem := a.Type().Underlying().(*types.Pointer).Elem()
	switch t := elem.Underlying().(type) {
	case *types.Struct:
		if name := mutableLocalName(a); name != "" {
			return name
		}
		var parts []string
		base := ""
		nWhole := 0
		for _, rf := range referrersOf(a) {
			if st, ok := rf.(*ssa.Store); ok && st.Addr == ssa.Value(a) {
				// `return rerr` with a named result stores the variable into itself: not a value
				if u, ok := st.Val.(*ssa.UnOp); ok && u.Op == token.MUL && u.X == ssa.Value(a) {
					continue
				}
				nWhole++
				base = r.val(st.Val, d+1)
			}
		}
		if nWhole == 2 {
			// `if c { v = NewValue(true) } else { v = NewValue(false) }` is v = NewValue(c)
			var sts []*ssa.Store
			fieldStores := false
			for _, rf := range referrersOf(a) {
				if st, ok := rf.(*ssa.Store); ok && st.Addr == ssa.Value(a) {
					sts = append(sts, st)
				}
				if fa, ok := rf.(*ssa.FieldAddr); ok {
					for _, rr := range referrersOf(fa) {
						if st, ok := rr.(*ssa.Store); ok && st.Addr == ssa.Value(fa) {
							fieldStores = true
						}
					}
				}
			}
			if len(sts) == 2 && !fieldStores {
				if ifi, firstIsTrue := diamondOf(sts[0].Block(), sts[1].Block()); ifi != nil {
					e0, e1 := r.val(sts[0].Val, d+1), r.val(sts[1].Val, d+1)
					if !firstIsTrue {
						e0, e1 = e1, e0
					}
					if s, ok := r.branchSelect(ifi.Cond, e0, e1, d); ok {
						return s
					}
				}
			}
		}
		if nWhole > 1 {
			base = "var:" + typeShort(elem)
		}
		for i := 0; i < t.NumFields(); i++ {
			var vals []string
			for _, rf := range referrersOf(a) {
				fa, ok := rf.(*ssa.FieldAddr)
				if !ok || fa.Field != i {
					continue
				}
				for _, rr := range referrersOf(fa) {
					if st, ok := rr.(*ssa.Store); ok && st.Addr == ssa.Value(fa) {
						vals = append(vals, r.val(st.Val, d+1))
					}
				}
			}
			if len(vals) > 0 {
				sort.Strings(vals)
				parts = append(parts, canonFieldName(namedOf(elem), t, i)+": "+strings.Join(vals, "|"))
			}
		}
		if base != "" {
			return base + " with {" + strings.Join(parts, ", ") + "}"
		}
		return typeShort(elem) + "{" + strings.Join(parts, ", ") + "}"
	case *types.Array:
		elems := map[int64]string{}
		var idx []int64
		for _, rf := range referrersOf(a) {
			ia, ok := rf.(*ssa.IndexAddr)
			if !ok {
				continue
			}
			k, ok := constInt(ia.Index)
			if !ok {
				continue
			}
			for _, rr := range referrersOf(ia) {
				if st, ok := rr.(*ssa.Store); ok && st.Addr == ssa.Value(ia) {
					elems[k] = r.val(st.Val, d+1)
					idx = append(idx, k)
				}
			}
		}
		sort.Slice(idx, func(i, j int) bool { return idx[i] < idx[j] })
		var parts []string
		for _, k := range idx {
			parts = append(parts, elems[k])
		}
		return "[" + strings.Join(parts, ", ") + "]"
	}
	return "var:" + typeShort(elem)
}

func (r *renderer) call(c *ssa.CallCommon, d int) string {
	var args []string
	for _, a := range c.Args {
		args = append(args, r.val(a, d+1))
	}
	if c.IsInvoke() {
		return r.val(c.Value, d+1) + "." + c.Method.Name() + "(" + strings.Join(args, ", ") + ")"
	}
	// len(x[a:b]) is b - a
	if bi, ok := c.Value.(*ssa.Builtin); ok && bi.Name() == "len" && len(c.Args) == 1 {
		if sl, ok := c.Args[0].(*ssa.Slice); ok && sl.Low != nil && sl.High != nil && sl.Max == nil {
			if _, isArr := sl.X.Type().Underlying().(*types.Pointer); !isArr {
				return "(" + r.val(sl.High, d+1) + " - " + r.val(sl.Low, d+1) + ")"
			}
		}
	}
	if f := c.StaticCallee(); f != nil {
		// inline trivial module helpers: one block, one return, one result
		if r.p.InModule(f) && len(f.Blocks) == 1 && r.depth < 2 && f.Signature.Results().Len() == 1 && len(f.Params) == len(c.Args) && f.Parent() == nil {
			if ret, ok := f.Blocks[0].Instrs[len(f.Blocks[0].Instrs)-1].(*ssa.Return); ok && pureBlock(f.Blocks[0]) {
				sub := &renderer{p: r.p, subst: map[*ssa.Parameter]string{}, depth: r.depth + 1, onPath: r.onPath}
				for i, prm := range f.Params {
					sub.subst[prm] = args[i]
				}
				return sub.val(ret.Results[0], d+1)
			}
		}
		return shortName(f) + "(" + strings.Join(args, ", ") + ")"
	}
	return r.val(c.Value, d+1) + "(" + strings.Join(args, ", ") + ")"
}

// pureBlock: the block contains no stores, calls to module functions with effects, or map updates.
func pureBlock(b *ssa.BasicBlock) bool {
	for _, in := range b.Instrs {
		switch x := in.(type) {
		case *ssa.Store:
			if _, ok := x.Addr.(*ssa.Alloc); ok {
				continue
			}
			if fa, ok := x.Addr.(*ssa.FieldAddr); ok {
				if _, ok := fa.X.(*ssa.Alloc); ok {
					continue
				}
			}
			return false
		case *ssa.MapUpdate, *ssa.Send, *ssa.Go, *ssa.Defer, *ssa.Panic:
			return false
		}
	}
	return true
}

// ---- native methods ----------------------------------------------------------------------

type nativeMethod struct {
	Proto  string // "array" | "object" | "string" | "number"
	Name   string
	Fn     *ssa.Function
	Pos    token.Pos
	Global string // name of the prototype singleton variable
}

// nativeMethods extracts, from every map[string]*Cell composite literal in package lang whose
// values are NewCell(Value{Tag: ValueNativeFn, NativeFn: <func literal>}), the method table.
func nativeMethods(p *Program) []nativeMethod {
	info := p.Lang.TypesInfo
	var out []nativeMethod
	for _, file := range p.Lang.Syntax {
		for _, decl := range file.Decls {
			fd, ok := decl.(*ast.FuncDecl)
			if !ok || fd.Body == nil {
				continue
			}
			proto := ""
			switch fd.Name.Name {
			case "getArrayPrototype":
				proto = "array"
			case "getObjPrototype":
				proto = "object"
			case "getStrPrototype":
				proto = "string"
			case "getNumPrototype":
				proto = "number"
			default:
				continue
			}
			ast.Inspect(fd.Body, func(n ast.Node) bool {
				cl, ok := n.(*ast.CompositeLit)
				if !ok {
					return true
				}
				mt, ok := info.TypeOf(cl).Underlying().(*types.Map)
				if !ok || !isLangNamed(mt.Elem(), "Cell") {
					return true
				}
				for _, el := range cl.Elts {
					kv, ok := el.(*ast.KeyValueExpr)
					if !ok {
						continue
					}
					tv := info.Types[kv.Key]
					if tv.Value == nil || tv.Value.Kind() != constant.String {
						continue
					}
					name := constant.StringVal(tv.Value)
					var lit *ast.FuncLit
					var fnObj *types.Func
					ast.Inspect(kv.Value, func(m ast.Node) bool {
						if fkv, ok := m.(*ast.KeyValueExpr); ok {
							if id, ok := fkv.Key.(*ast.Ident); ok && id.Name == "NativeFn" {
								switch v := ast.Unparen(fkv.Value).(type) {
								case *ast.FuncLit:
									lit = v
								case *ast.Ident:
									fnObj, _ = info.Uses[v].(*types.Func)
								}
								return false
							}
						}
						return true
					})
					var fn *ssa.Function
					if lit != nil {
						fn = p.FuncOfLit(lit)
					} else if fnObj != nil {
						fn = p.FuncOfObj(fnObj)
					}
					out = append(out, nativeMethod{Proto: proto, Name: name, Fn: fn, Pos: kv.Pos(), Global: fd.Name.Name})
				}
				return false
			})
		}
	}
	sort.Slice(out, func(i, j int) bool { return out[i].Proto+"."+out[i].Name < out[j].Proto+"."+out[j].Name })
	return out
}

// successResults renders the distinct value results (index 0) of the returns of fn whose error
// result may be nil, together with the rendered facts that hold there.
type resultCase struct {
	Ret    *ssa.Return
	Inner  *ssa.Return // the callee's return when the result comes through a tail call of a private helper
	Value  string
	Guards []string
}

func (p *Program) successResults(fn *ssa.Function) []resultCase {
	out := p.successResultsR(fn, &renderer{p: p}, 0)
	sort.SliceStable(out, func(i, j int) bool { return out[i].Ret.Pos() < out[j].Ret.Pos() })
	return out
}

// tailCallOf: the return hands on exactly the results of one call of a module function
// (`return g(args)`): the callee's returns are then the function's own.
func (p *Program) tailCallOf(fn *ssa.Function, res []ssa.Value) *ssa.Call {
	var call *ssa.Call
	for i, v := range res {
		var c *ssa.Call
		switch x := v.(type) {
		case *ssa.Call:
			if len(res) == 1 {
				c = x
			}
		case *ssa.Extract:
			if cc, ok := x.Tuple.(*ssa.Call); ok && x.Index == i {
				c = cc
			}
		}
		if c == nil || (call != nil && c != call) {
			return nil
		}
		call = c
	}
	if call == nil {
		if os.Getenv("JQDEBUG") != "" {
			fmt.Fprintf(os.Stderr, "tailCallOf %s: no call (res=%v)\n", fn, res)
		}
		return nil
	}
	g := call.Call.StaticCallee()
	if g == nil || g == fn || !p.InModule(g) || p.inTestFile(g) || g.Parent() != nil || len(g.Blocks) == 0 || len(g.Params) != len(call.Call.Args) {
		if os.Getenv("JQDEBUG") != "" {
			fmt.Fprintf(os.Stderr, "tailCallOf %s: callee %v rejected params=%d args=%d\n", fn, g, len(g.Params), len(call.Call.Args))
		}
		return nil
	}
	if g.Signature.Results().Len() != len(res) {
		return nil
	}
	// only private helpers: every call site of g is in fn (a function used from several places is a
	// unit of its own and is judged by its own rules)
	for _, cs := range p.CallSitesOf(g) {
		if cs.Parent() != fn && !p.inTestFile(cs.Parent()) {
			if os.Getenv("JQDEBUG") != "" {
				fmt.Fprintf(os.Stderr, "tailCallOf %s: %s also called from %s\n", fn, g, cs.Parent())
			}
			return nil
		}
	}
	if os.Getenv("JQDEBUG") != "" {
		fmt.Fprintf(os.Stderr, "tailCallOf %s: expanding %s\n", fn, g)
	}
	return call
}

func (p *Program) successResultsR(fn *ssa.Function, rr *renderer, depth int) []resultCase {
	ek := EKOf(p)
	F := FactsOf(fn)
	errIdx := errResultIndex(fn.Signature)
	var out []resultCase
	guardsOf := func(b *ssa.BasicBlock) []string {
		var gs []string
		for _, rl := range F.At(b).Rels() {
			gs = append(gs, rr.val(rl.x, 0)+" "+rl.op.String()+" "+rr.val(rl.y, 0))
		}
		for f := range F.At(b) {
			if _, ok := relsOf(f); !ok {
				s := rr.val(f.cond, 0)
				if !f.truth {
					s = "!" + s
				}
				gs = append(gs, s)
			}
		}
		return gs
	}
	for _, r := range returnsOf(fn) {
		res := effectiveResults(r)
		if errIdx >= 0 && !ek.KindsAt(res[errIdx], F.At(r.Block())).Has(KNil) {
			continue
		}
		if call := p.tailCallOf(fn, res); call != nil && depth < 2 {
			g := call.Call.StaticCallee()
			sub := &renderer{p: p, subst: map[*ssa.Parameter]string{}, depth: rr.depth, onPath: rr.onPath}
			for i, prm := range g.Params {
				sub.subst[prm] = rr.val(call.Call.Args[i], 0)
			}
			outer := guardsOf(r.Block())
			for _, in := range p.successResultsR(g, sub, depth+1) {
				in.Inner = in.Ret
				in.Ret = r
				in.Guards = append(in.Guards, outer...)
				sort.Strings(in.Guards)
				out = append(out, in)
			}
			continue
		}
		// single-exit form: `result := A; switch … { case …: result = B }; return &result` — one case
		// per path from the entry to this return, with the value stored last on it
		plain := rr.val(res[0], 0)
		if strings.Contains(plain, "var:") {
			if ways := p.resultVariableWays(fn, r, res[0], rr); len(ways) > 0 {
				out = append(out, ways...)
				continue
			}
		}
		rc := resultCase{Ret: r, Value: plain}
		rc.Guards = guardsOf(r.Block())
		sort.Strings(rc.Guards)
		out = append(out, rc)
	}
	return out
}

// resultVariableWays: v is the address of a local that is only ever assigned as a whole (two or
// more stores) and returned here. The acyclic paths from the entry to the return are enumerated
// (at most 256); each gives a case: the value stored last on the path, under the branch facts of the
// path. Cases with the same value and guards are merged. nil when the form does not apply.
func (p *Program) resultVariableWays(fn *ssa.Function, ret *ssa.Return, v ssa.Value, rr *renderer) []resultCase {
	a, ok := v.(*ssa.Alloc)
	if !ok || len(fn.Blocks) == 0 {
		return nil
	}
	stores := map[*ssa.BasicBlock][]*ssa.Store{}
	nSt := 0
	for _, ref := range referrersOf(a) {
		switch x := ref.(type) {
		case *ssa.Store:
			if x.Addr != ssa.Value(a) {
				return nil
			}
			stores[x.Block()] = append(stores[x.Block()], x)
			nSt++
		case *ssa.Return, *ssa.DebugRef:
		default:
			return nil
		}
	}
	if nSt < 2 {
		return nil
	}
	F := FactsOf(fn)
	type way struct {
		val    string
		guards []string
	}
	seen := map[string]bool{}
	var out []resultCase
	nPaths := 0
	overflow := false
	onPath := map[*ssa.BasicBlock]bool{}
	var dfs func(b *ssa.BasicBlock, last *ssa.Store, fs factSet)
	dfs = func(b *ssa.BasicBlock, last *ssa.Store, fs factSet) {
		if overflow || onPath[b] {
			return
		}
		// several stores in one block: the last one in instruction order
		if sts := stores[b]; len(sts) > 0 {
			last = sts[0]
			for _, st := range sts {
				if instrIndex(st) > instrIndex(last) {
					last = st
				}
			}
		}
		if b == ret.Block() {
			nPaths++
			if nPaths > 256 {
				overflow = true
				return
			}
			if last == nil {
				overflow = true // read before any store: not this form
				return
			}
			var gs []string
			for _, rl := range fs.Rels() {
				gs = append(gs, rr.val(rl.x, 0)+" "+rl.op.String()+" "+rr.val(rl.y, 0))
			}
			for f := range fs {
				if _, ok := relsOf(f); !ok {
					s := rr.val(f.cond, 0)
					if !f.truth {
						s = "!" + s
					}
					gs = append(gs, s)
				}
			}
			sort.Strings(gs)
			gs = dedupStrings(gs)
			val := "&" + rr.val(last.Val, 0)
			k := val + "\x00" + strings.Join(gs, "\x00")
			if !seen[k] {
				seen[k] = true
				out = append(out, resultCase{Ret: ret, Value: val, Guards: gs})
			}
			return
		}
		onPath[b] = true
		for _, s := range b.Succs {
			nf := factSet{}
			for k := range fs {
				nf[k] = true
			}
			if ef, ok := edgeFact(b, s); ok {
				F.expand(ef, nf, 0)
			}
			dfs(s, last, nf)
		}
		onPath[b] = false
	}
	dfs(fn.Blocks[0], nil, factSet{})
	if overflow {
		return nil
	}
	return out
}

func dedupStrings(xs []string) []string {
	var out []string
	for i, x := range xs {
		if i == 0 || x != xs[i-1] {
			out = append(out, x)
		}
	}
	return out
}

// rangeSubject names the slice a range-index phi iterates over (from the loop test i < len(x)).
func rangeSubject(phi *ssa.Phi, r *renderer, d int) string {
	for _, ref := range referrersOf(phi) {
		inc, ok := ref.(*ssa.BinOp)
		if !ok || inc.Op != token.ADD {
			continue
		}
		for _, rr := range referrersOf(inc) {
			cmp, ok := rr.(*ssa.BinOp)
			if !ok || cmp.Op != token.LSS {
				continue
			}
			if lc, ok := cmp.Y.(*ssa.Call); ok {
				if bi, ok := lc.Call.Value.(*ssa.Builtin); ok && bi.Name() == "len" {
					return r.val(lc.Call.Args[0], d+1)
				}
			}
		}
	}
	return "?"
}

// effects renders the stores to non-local memory and the map updates performed by fn.
func (p *Program) effects(fn *ssa.Function) []string { return p.effectsOpt(fn, true) }

// effectsOpt: keepFresh also lists stores into slices / maps made by the function itself.
func (p *Program) effectsOpt(fn *ssa.Function, keepFresh bool) []string {
	var out []string
	allInstrs(fn, func(in ssa.Instruction) {
		switch x := in.(type) {
		case *ssa.Store:
			if isLocalAddr(x.Addr) {
				return
			}
			a := strings.TrimPrefix(p.Render(x.Addr), "&")
			if strings.HasPrefix(a, "make(") && !keepFresh {
				return // element of a slice made in this function
			}
			out = append(out, a+" = "+p.Render(x.Val))
		case *ssa.MapUpdate:
			if _, ok := x.Map.(*ssa.MakeMap); ok && !keepFresh {
				return
			}
			m := p.Render(x.Map)
			if strings.HasPrefix(m, "make(") && !keepFresh {
				return // map made in this function
			}
			out = append(out, m+"["+p.Render(x.Key)+"] = "+p.Render(x.Value))
		}
	})
	sort.Strings(out)
	return out
}

// isLocalAddr: the address is (a field / element of) a local variable of the function.
func isLocalAddr(a ssa.Value) bool {
	for {
		switch x := a.(type) {
		case *ssa.Alloc:
			return true
		case *ssa.FieldAddr:
			a = x.X
		case *ssa.IndexAddr:
			a = x.X
		default:
			return false
		}
	}
}

// renderedCall: a call with its rendered form and the relations that hold at its block.
type renderedCall struct {
	Call   ssa.CallInstruction
	Text   string
	Guards []string
}

func (p *Program) renderedCalls(fn *ssa.Function) []renderedCall {
	var out []renderedCall
	F := FactsOf(fn)
	r := &renderer{p: p, depth: 2} // no inlining of the call itself
	for _, call := range callsIn(fn) {
		rc := renderedCall{Call: call, Text: r.call(call.Common(), 0)}
		for _, rl := range F.At(call.Block()).Rels() {
			rc.Guards = append(rc.Guards, p.Render(rl.x)+" "+rl.op.String()+" "+p.Render(rl.y))
		}
		for f := range F.At(call.Block()) {
			if _, ok := relsOf(f); !ok {
				s := p.Render(f.cond)
				if !f.truth {
					s = "!" + s
				}
				rc.Guards = append(rc.Guards, s)
			}
		}
		sort.Strings(rc.Guards)
		out = append(out, rc)
	}
	return out
}

var loopCarriedCache = map[*ssa.Phi]bool{}

// loopCarried: the phi sits in a block that can reach itself and one of its incoming values
// depends on the phi.
func loopCarried(phi *ssa.Phi) bool {
	if v, ok := loopCarriedCache[phi]; ok {
		return v
	}
	res := false
	if reachableFrom(phi.Block().Succs, nil)[phi.Block()] {
		// does some edge value (transitively, within a few steps) use phi?
		seen := map[ssa.Value]bool{}
		var uses func(v ssa.Value, d int) bool
		uses = func(v ssa.Value, d int) bool {
			if v == ssa.Value(phi) {
				return true
			}
			if d > 8 || seen[v] {
				return false
			}
			seen[v] = true
			in, ok := v.(ssa.Instruction)
			if !ok {
				return false
			}
			for _, op := range in.Operands(nil) {
				if *op != nil && uses(*op, d+1) {
					return true
				}
			}
			return false
		}
		for _, e := range phi.Edges {
			if e != ssa.Value(phi) && uses(e, 0) {
				res = true
			}
		}
	}
	loopCarriedCache[phi] = res
	return res
}

// mutableLocalName: a named local struct variable whose fields are stored in several blocks (or
// several times) is a piece of mutable state, not a value: it is rendered by its name.
func mutableLocalName(a *ssa.Alloc) string {
	name := a.Comment
	if name == "" || name == "complit" || name == "varargs" || name == "slicelit" || strings.ContainsAny(name, " .()") {
		return ""
	}
	blocks := map[*ssa.BasicBlock]bool{}
	perField := map[int]int{}
	for _, rf := range referrersOf(a) {
		fa, ok := rf.(*ssa.FieldAddr)
		if !ok {
			continue
		}
		for _, rr := range referrersOf(fa) {
			if st, ok := rr.(*ssa.Store); ok && st.Addr == ssa.Value(fa) {
				blocks[st.Block()] = true
				perField[fa.Field]++
			}
		}
	}
	multi := false
	_ = blocks
	for _, n := range perField {
		if n > 1 {
			multi = true
		}
	}
	if multi {
		// named after its type, not after the variable (renames do not matter)
		return "local:" + typeShort(a.Type().Underlying().(*types.Pointer).Elem())
	}
	return ""
}

// loopVarName: loop-carried variables are named by their type and role, not by the source
// identifier, so that renaming a local does not change a rendering: int counters "n", others by
// type.
func loopVarName(phi *ssa.Phi) string {
	switch t := phi.Type().Underlying().(type) {
	case *types.Basic:
		if t.Info()&types.IsInteger != 0 {
			// distinguish the few integer loop variables of one function by their initial value
			for _, e := range phi.Edges {
				if k, ok := constInt(e); ok {
					return fmt.Sprintf("int%d", k)
				}
			}
			return "int"
		}
		return t.Name()
	case *types.Slice:
		return "slice"
	}
	return "var"
}

// canonParamName: parameters are rendered by a canonical name that depends on the function and
// the position only (frozen table for the anchored functions; (e, v, this) for native-method
// closures; the comparator's (a, b)); renaming a parameter does not change a rendering.
func canonParamName(x *ssa.Parameter) string {
	fn := x.Parent()
	idx := -1
	for i, prm := range fn.Params {
		if prm == x {
			idx = i
		}
	}
	if idx < 0 {
		return x.Name()
	}
	if names, ok := canonParams[shortName(fn)]; ok && idx < len(names) {
		return names[idx]
	}
	if fn.Parent() != nil {
		// closures: by signature
		sig := fn.Signature
		if sig.Params().Len() == 3 && isLangNamed(sig.Params().At(0).Type(), "Evaluator") {
			return []string{"e", "v", "this"}[idx]
		}
		if sig.Params().Len() == 2 && isLangNamed(sig.Params().At(0).Type(), "Cell") {
			return []string{"a", "b"}[idx]
		}
	}
	return x.Name()
}

// phiLeaves splits a rendering of the form phi(a | b | …) at its top-level separators; any other
// rendering is its own single leaf.
func phiLeaves(s string) []string {
	if !strings.HasPrefix(s, "phi(") || !strings.HasSuffix(s, ")") {
		return []string{s}
	}
	// the closing bracket of the leading phi( must be the last character
	depth := 0
	for i := 3; i < len(s); i++ {
		switch s[i] {
		case '(', '[', '{':
			depth++
		case ')', ']', '}':
			depth--
			if depth == 0 && i != len(s)-1 {
				return []string{s}
			}
		}
	}
	inner := s[4 : len(s)-1]
	var out []string
	depth = 0
	start := 0
	inStr := false
	for i := 0; i < len(inner); i++ {
		ch := inner[i]
		if ch == '"' && (i == 0 || inner[i-1] != '\\') {
			inStr = !inStr
		}
		if inStr {
			continue
		}
		switch ch {
		case '(', '[', '{':
			depth++
		case ')', ']', '}':
			depth--
		case ' ':
			if depth == 0 && strings.HasPrefix(inner[i:], " | ") {
				out = append(out, inner[start:i])
				start = i + 3
			}
		}
	}
	out = append(out, inner[start:])
	return out
}

// renderedCallsDeep: the calls of fn and of the helpers split off it (functions only called from
// fn's cluster), each helper call site expanded with the helper's parameters replaced by the
// rendered arguments and the caller's guards added.
func (p *Program) renderedCallsDeep(fn *ssa.Function) []renderedCall {
	return p.renderedCallsR(fn, &renderer{p: p, depth: 2}, nil, 0)
}

func (p *Program) renderedCallsR(fn *ssa.Function, r *renderer, outer []string, depth int) []renderedCall {
	var out []renderedCall
	F := FactsOf(fn)
	for _, call := range callsIn(fn) {
		var gs []string
		for _, rl := range F.At(call.Block()).Rels() {
			gs = append(gs, r.val(rl.x, 0)+" "+rl.op.String()+" "+r.val(rl.y, 0))
		}
		for f := range F.At(call.Block()) {
			if _, ok := relsOf(f); !ok {
				s := r.val(f.cond, 0)
				if !f.truth {
					s = "!" + s
				}
				gs = append(gs, s)
			}
		}
		gs = append(gs, outer...)
		sort.Strings(gs)
		if g := call.Common().StaticCallee(); g != nil && depth < 2 && g != fn && p.InModule(g) && !p.inTestFile(g) && g.Parent() == nil && len(g.Blocks) > 0 && len(g.Params) == len(call.Common().Args) && isPrivateToFn(p, g, fn) {
			sub := &renderer{p: p, subst: map[*ssa.Parameter]string{}, depth: r.depth}
			for i, prm := range g.Params {
				sub.subst[prm] = r.val(call.Common().Args[i], 0)
			}
			out = append(out, p.renderedCallsR(g, sub, gs, depth+1)...)
			continue
		}
		out = append(out, renderedCall{Call: call, Text: r.call(call.Common(), 0), Guards: gs})
	}
	return out
}

func isPrivateToFn(p *Program, h, fn *ssa.Function) bool {
	n := 0
	for _, cs := range p.CallSitesOf(h) {
		if p.inTestFile(cs.Parent()) {
			continue
		}
		n++
		if cs.Parent() != fn {
			return false
		}
	}
	return n > 0
}

// indexLoopSubject: phi is the index of `for i := 0; i < len(X); i++` — two edges, the constant 0 and
// phi + 1, and the block's terminating test is phi < len(X); X is rendered.
func (r *renderer) indexLoopSubject(phi *ssa.Phi, d int) (string, bool) {
	if len(phi.Edges) != 2 || phi.Comment == "rangeindex" {
		return "", false
	}
	if b, ok := phi.Type().Underlying().(*types.Basic); !ok || b.Info()&types.IsInteger == 0 {
		return "", false
	}
	zero, step := false, false
	for _, e := range phi.Edges {
		if k, ok := constInt(e); ok && k == 0 {
			zero = true
			continue
		}
		if bo, ok := e.(*ssa.BinOp); ok && bo.Op == token.ADD && bo.X == ssa.Value(phi) {
			if k, ok := constInt(bo.Y); ok && k == 1 {
				step = true
			}
		}
	}
	if !zero || !step {
		return "", false
	}
	blk := phi.Block()
	ifi, ok := blk.Instrs[len(blk.Instrs)-1].(*ssa.If)
	if !ok {
		return "", false
	}
	cmp, ok := ifi.Cond.(*ssa.BinOp)
	if !ok || cmp.Op != token.LSS || cmp.X != ssa.Value(phi) {
		return "", false
	}
	ln, ok := cmp.Y.(*ssa.Call)
	if !ok {
		return "", false
	}
	if bi, ok := ln.Call.Value.(*ssa.Builtin); !ok || bi.Name() != "len" {
		return "", false
	}
	if _, isSlice := ln.Call.Args[0].Type().Underlying().(*types.Slice); !isSlice {
		return "", false // strings: a range over a string is a different loop (runes)
	}
	if !loopInvariant(ln.Call.Args[0], blk) {
		return "", false // the length is re-read in every iteration: not the iteration of `range`
	}
	if !indexesOnly(phi, ln.Call.Args[0]) {
		return "", false // the elements are read from a slice fetched again inside the loop
	}
	return r.val(ln.Call.Args[0], d+1), true
}

// indexesOnly: wherever the counter phi is used as an index, the indexed slice is the very value
// whose length bounds the loop (not a second read of the same variable, which may have changed).
func indexesOnly(phi *ssa.Phi, slice ssa.Value) bool {
	for _, r := range referrersOf(phi) {
		switch x := r.(type) {
		case *ssa.IndexAddr:
			if x.Index == ssa.Value(phi) && x.X != slice {
				return false
			}
		case *ssa.Index:
			if x.Index == ssa.Value(phi) && x.X != slice {
				return false
			}
		case *ssa.Lookup:
			if x.Index == ssa.Value(phi) && x.X != slice {
				return false
			}
		}
	}
	return true
}

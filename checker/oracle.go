package main

// table oracles over rendered dataflow (S6): for one function (an arm of a decision table) the
// set of distinct success results, the set of effects on non-local memory, and guards that must
// hold wherever a given result is returned.

import (
	"fmt"
	"sort"
	"strings"

	"golang.org/x/tools/go/ssa"
)

type armSpec struct {
	Results []string            // expected distinct renderings of the value result on success returns
	Effects []string            // expected renderings of stores to non-local memory / map updates
	Guards  map[string][]string // result rendering -> guards that must hold at every return of it
	Source  string              // the sentence of the statement / README this row transcribes
}

func setOf(xs []string) map[string]bool {
	m := map[string]bool{}
	for _, x := range xs {
		m[x] = true
	}
	return m
}

func diffSets(got, want map[string]bool) (missing, extra []string) {
	for w := range want {
		if !got[w] {
			missing = append(missing, w)
		}
	}
	for g := range got {
		if !want[g] {
			extra = append(extra, g)
		}
	}
	sort.Strings(missing)
	sort.Strings(extra)
	return
}

// checkArm compares fn with its oracle row and records obligations under rule / key.
func (c *Ctx) checkArm(rule, key string, fn *ssa.Function, spec armSpec) {
	p := c.P
	if fn == nil {
		c.undecided(rule, key, "", "function not found")
		return
	}
	pos := p.Pos(fn.Pos())
	rcs := p.successResults(fn)
	got := map[string]bool{}
	for i := range rcs {
		rcs[i].Value = canonConstructors(rcs[i].Value)
		got[rcs[i].Value] = true
	}
	missing, extra := diffSets(got, setOf(spec.Results))
	if len(missing)+len(extra) > 0 {
		c.violated(rule, key+" results", pos, fmt.Sprintf("results differ from the documented contract (%s): unexpected {%s}; missing {%s}", spec.Source, strings.Join(extra, " ; "), strings.Join(missing, " ; ")))
	} else {
		c.ok(rule, key+" results", pos, "results: "+strings.Join(spec.Results, " ; "))
	}
	if spec.Effects != nil {
		gotE := setOf(p.effects(fn))
		missing, extra := diffSets(gotE, setOf(spec.Effects))
		if len(missing)+len(extra) > 0 {
			c.violated(rule, key+" effects", pos, fmt.Sprintf("effects on non-local state differ from the documented contract (%s): unexpected {%s}; missing {%s}", spec.Source, strings.Join(extra, " ; "), strings.Join(missing, " ; ")))
		} else {
			c.ok(rule, key+" effects", pos, "effects: {"+strings.Join(spec.Effects, " ; ")+"}")
		}
	}
	var results []string
	for r := range spec.Guards {
		results = append(results, r)
	}
	sort.Strings(results)
	for _, res := range results {
		for _, rc := range rcs {
			if rc.Value != res {
				continue
			}
			have := setOf(rc.Guards)
			var lacking []string
			for _, g := range spec.Guards[res] {
				if !have[g] {
					lacking = append(lacking, g)
				}
			}
			gk := fmt.Sprintf("%s guard of %s", key, res)
			if len(lacking) > 0 {
				c.violated(rule, gk, p.InstrPos(rc.Ret), "result is returned on a path where {"+strings.Join(lacking, " ; ")+"} is not established (holds there: "+strings.Join(rc.Guards, " && ")+")")
			} else {
				c.ok(rule, gk, p.InstrPos(rc.Ret), "guarded by "+strings.Join(spec.Guards[res], " && "))
			}
		}
	}
}

// canonConstructors: the empty-array value written as the literal, through NewValue or through NewArray
// is one thing in an oracle row (EMPTYARRAY)
func canonConstructors(r string) string {
	for _, form := range []string{
		"lang.Value{Tag: ValueArray, Array: [][:0], Proto: lang.getArrayPrototype()}",
		"lang.NewValue([][:0])",
		"lang.NewArray()",
	} {
		r = strings.ReplaceAll(r, form, "EMPTYARRAY")
	}
	return r
}

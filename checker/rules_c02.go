package main

import (
	"fmt"
	"go/types"
	"regexp"
	"sort"
	"strings"

	"golang.org/x/tools/go/ssa"
)

func init() {
	register(&ruleSet{
		id:    "C02",
		title: "rules run in awk order",
		run:   runC02,
		decided: "the ordering skeleton of the schedule: rules are partitioned by kind into five lists in source order; BEGIN rules run before the file loop, END rules after it; per file, per decoded value ($file published first), per selected root in selector order: BEGINFILE rules, then the pattern rules, then ENDFILE rules; $ is bound (ruleRoot stored) before each rule evaluation with the documented cell; for an array root the pattern rules run once per element in index order with $ = the element and $index = its position, otherwise exactly once with $ = the root; within one element the rules run in list order, a body runs iff its pattern is absent or truthy, next ends the rule list for the element and exit returns success from every driver without evaluating anything further." +
			" Each BEGIN / END rule gets a fresh $ cell created inside the rule loop; EvalProgram reports success only on an `exit` edge or after the END loop (no early success return that skips input or rules); the -r selectors are accumulated complete and in order." +
			" No frame is leaked when `next` leaves a function body, so rules keep running for every element." +
			" A matched rule's body cannot be skipped (the next rule is reached only through the body evaluation or a falsy pattern); the command line passes every named file, and standard input only when no file was named." +
			" A rule without a body gets the bare print whatever its kind.",
		notDecided: "multiplicities for concrete inputs (they follow from Go's range semantics and encoding/json, trusted) and the interaction with user programs.",
	})
}

func runC02(c *Ctx) {
	c02R1(c)
	c02R2(c)
	c02R3(c)
	c02R4(c)
	c.note("R10 program-keeps-every-rule: in Parse, every rule (and function) that parseRule / parseFunction returned without an error is appended to the program's list before the next item is parsed; nothing but the parse error decides whether a rule is kept.")
	programKeepsEveryRule(c, "R10")
	if es := c.P.LangFunc("(*Evaluator).evalStatement"); es != nil {
		c.shared("R9", "C07/R1", "`next` abandons the remaining rules and `exit` ends the run wherever they are written: every loop consumes break and continue only and passes every other outcome of its body (the next and exit signals included) on unchanged", keyHas("loop-bod"), func(s *Ctx) { c07LoopConsumption(s, es) })
	}
	c.shared("R11", "C07/R8", "`next` and `exit` raised inside a function end the element / the run wherever the call is written — in a print argument, a call argument or an array literal: no evaluator function rebuilds an error it was handed (a control-flow signal wrapped into a positioned runtime error is no longer recognised by the rule drivers)", keyHas("error-rebuilt"), func(s *Ctx) { sentinelIdentity(s, "R8") })
	if es := c.P.LangFunc("(*Evaluator).evalStatement"); es != nil {
		c.shared("R12", "C07/R3", "next and exit reached through an else branch end the element / the run like anywhere else: the outcome of the branch an if statement ran is the statement's outcome", keyHas("else-outcome", "then-outcome"), func(s *Ctx) { c07IfElse(s, es) })
	}
	c.shared("R6", "C08/R1", "rules keep running for every element: a `next` (or any other way out of a function body) leaves no frame behind, otherwise a long input ends in a spurious `call depth limit exceeded` and the remaining elements and END rules are never reached", keyHas("balance "), func(s *Ctx) { c08R1(s, discoverFrameModel(s.P)) })
	c.shared("R5", "C14/R2", "the -r selectors reach the interpreter complete and in the order given: multiFlag.Set appends, Run passes the accumulated slice", keyHas("selector"), c14R2)
	c.shared("R8", "C04/R15", "`$` is bound to each element in turn: every element of an input array has a cell of its own (assigning to `$` for one element does not show up in another)", keyHas("value-construction"), func(s *Ctx) { newValueTable(s, "R15") })
	c.shared("R7", "C14/R2", "the rules run for each file in the order given: the command line passes every named file, in order, as the file itself, and standard input only when no file was named", keyHas("input-file", "stdin-only-without-files"), c14R2)
}

var rulePartition = map[string]string{"BeginRule": "beginRules", "BeginFileRule": "beginFileRules", "EndRule": "endRules", "EndFileRule": "endFileRules", "PatternRule": "patternRules"}

func c02R1(c *Ctx) {
	p := c.P
	c.note("R1 rule-partition: in readRules, inside the loop over prog.Rules (slice order), under the fact rule.Kind == K the only effect is field_K = append(field_K, &copy of the rule); the map K -> field is the bijection Begin / BeginFile / End / EndFile / Pattern -> beginRules / beginFileRules / endRules / endFileRules / patternRules.")
	// the partitioning function: the one that appends to the Evaluator's rule lists (discovered, so
	// that it may be readRules or its body inlined into the constructor)
	var rr *ssa.Function
	evBase := ""
	for _, fn := range p.Funcs {
		if !p.InLang(fn) {
			continue
		}
		allInstrs(fn, func(in ssa.Instruction) {
			st, ok := in.(*ssa.Store)
			if !ok {
				return
			}
			fa, ok := st.Addr.(*ssa.FieldAddr)
			if !ok {
				return
			}
			if sf, ok := fieldOfAddr(fa); ok && sf.Is("Evaluator", "patternRules") && strings.HasPrefix(p.Render(st.Val), "append(") {
				rr = fn
				evBase = strings.TrimPrefix(p.Render(fa.X), "&")
			}
		})
	}
	if rr == nil {
		c.undecided("R1", "readRules", "", "no function appends to Evaluator.patternRules")
		return
	}
	// the location whose value is compared with the rule kinds, and the ranged rule list
	loc, list := "", ""
	for _, b := range rr.Blocks {
		for _, rl := range FactsOf(rr).At(b).Rels() {
			if _, isC := rl.y.(*ssa.Const); isC {
				if name, _ := enumOf(p, rl.x); name == "RuleKind" {
					loc = p.Render(rl.x)
				}
			}
		}
	}
	idxRe := regexp.MustCompile(`\[i@[^\]]*\]`)
	if i := strings.Index(loc, "[i@"); i > 0 {
		list = strings.ReplaceAll(loc[:i], evBase+".", "e.")
	}
	if loc == "" || list == "" {
		c.undecided("R1", "rule-kind-test", p.Pos(rr.Pos()), "no test of a ranged rule's Kind against the RuleKind constants found in "+shortName(rr))
		return
	}
	norm := func(x string) string {
		x = strings.ReplaceAll(x, evBase+".", "e.")
		x = idxRe.ReplaceAllString(x, "[i]")
		return strings.ReplaceAll(x, list, "RULES")
	}
	ms := p.maySetOf(rr, loc, sortedKeysOf(rulePartition))
	got := map[string]map[string]bool{}
	allInstrs(rr, func(in ssa.Instruction) {
		st, ok := in.(*ssa.Store)
		if !ok || isLocalAddr(st.Addr) && !strings.Contains(p.Render(st.Addr), "Rules") {
			return
		}
		val := p.Render(st.Val)
		if !strings.HasPrefix(val, "append(") {
			return
		}
		eff := norm(strings.TrimPrefix(p.Render(st.Addr), "&") + " = " + val)
		for _, k := range ms.At(st.Block()) {
			if got[k] == nil {
				got[k] = map[string]bool{}
			}
			got[k][eff] = true
		}
	})
	for _, k := range sortedKeysOf(rulePartition) {
		f := rulePartition[k]
		want := "e." + f + " = append(e." + f + ", [&RULES[i]][:])"
		c.check(len(got[k]) == 1 && got[k][want], "R1", "partition "+k, p.Pos(rr.Pos()), k+" -> "+f+" (appended in source order)", fmt.Sprintf("rules of kind %s are handled by {%s}; documented: appended to %s", k, keysOf(got[k]), f))
	}
	loops := rangeLoops(rr, func(v ssa.Value) bool { return strings.ReplaceAll(p.Render(v), evBase+".", "e.") == list })
	c.check(len(loops) == 1, "R1", "partition-loop", p.Pos(rr.Pos()), "one pass over prog.Rules in slice order", fmt.Sprintf("%d loops over the program's rule list", len(loops)))
	// the parser appends rules in source order
	if pa := p.LangFunc("(*Parser).Parse"); pa != nil {
		r := p.Render(effectiveResults(returnsOf(pa)[len(returnsOf(pa))-1])[0])
		okOrder := false
		for _, ret := range returnsOf(pa) {
			r = p.Render(effectiveResults(ret)[0])
			if strings.Contains(r, "Rules: φslice⟨") && strings.Contains(r, "append(φslice, [(*lang.Parser).parseRule(p)#0][:])") {
				okOrder = true
			}
		}
		c.check(okOrder, "R1", "parse-order", p.Pos(pa.Pos()), "Program.Rules = rules appended as parsed", "Program.Rules is not `append(rules, parseRule())` in parse order: "+r)
	}
}

func sortedKeysOf(m map[string]string) []string {
	var ks []string
	for k := range m {
		ks = append(ks, k)
	}
	sort.Strings(ks)
	return ks
}

// loopOverField: the range loop in fn over the Evaluator slice field.
func loopOverField(p *Program, fn *ssa.Function, field string) *rangeLoop {
	for _, l := range rangeLoops(fn, func(v ssa.Value) bool {
		sf, ok := loadedField(v)
		return ok && sf.Is("Evaluator", field)
	}) {
		l := l
		return &l
	}
	return nil
}

func c02R2(c *Ctx) {
	p := c.P
	c.note("R2 driver-order (dominance on EvalProgram's CFG): loop(beginRules).done dominates loop(files).header; loop(files).done dominates loop(endRules).header; the Decode call is inside loop(files); setGlobal(\"$file\", cell of the ranged file's Name) follows each successful Decode and dominates the root loop; inside the root loop: loop(beginFileRules).done dominates the evalPatternRules(ev.patternRules) call, whose success edge dominates loop(endFileRules).header; ev.root = the ranged root cell before the pattern rules; each driver loop evaluates rule.Body of its own list's elements with ruleRoot stored first (BEGIN/END: fresh null cell; BEGINFILE: the root cell; ENDFILE: a fresh cell holding the root's value as it was before the BEGINFILE rules).")
	ep := p.DriverFunc()
	if ep == nil {
		c.undecided("R2", "EvalProgram", "", "anchor not found")
		return
	}
	lb := loopOverField(p, ep, "beginRules")
	lbf := loopOverField(p, ep, "beginFileRules")
	lef := loopOverField(p, ep, "endFileRules")
	le := loopOverField(p, ep, "endRules")
	var lf, lsel *rangeLoop
	for _, l := range rangeLoops(ep, func(v ssa.Value) bool { _, ok := v.(*ssa.Parameter); return ok }) {
		l := l
		switch l.Slice.Name() {
		case "files":
			lf = &l
		case "rootSelectors":
			lsel = &l
		}
	}
	var lroots *rangeLoop
	for _, l := range rangeLoops(ep, func(v ssa.Value) bool {
		return strings.HasSuffix(v.Type().String(), ".Cell") && strings.HasPrefix(v.Type().String(), "[]*")
	}) {
		l := l
		lroots = &l
	}
	if lb == nil || lbf == nil || lef == nil || le == nil || lf == nil || lroots == nil || lsel == nil {
		c.undecided("R2", "driver-loops", p.Pos(ep.Pos()), fmt.Sprintf("driver loops not all found: begin=%v beginfile=%v endfile=%v end=%v files=%v roots=%v selectors=%v", lb != nil, lbf != nil, lef != nil, le != nil, lf != nil, lroots != nil, lsel != nil))
		return
	}
	dom := func(a, b *ssa.BasicBlock) bool { return a.Dominates(b) }
	inLoop := func(l *rangeLoop, b *ssa.BasicBlock) bool { return l.Body.Dominates(b) }
	c.check(dom(lb.Done, lf.Header), "R2", "begin-before-files", p.Pos(ep.Pos()), "all BEGIN rules complete before the first file", "the file loop is reachable without the BEGIN loop having finished")
	c.check(dom(lf.Done, le.Header) && !inLoop(lf, le.Header), "R2", "end-after-files", p.Pos(ep.Pos()), "END rules run after the file loop", "the END loop is not placed after the file loop")
	c.check(inLoop(lf, lroots.Header) && inLoop(lroots, lbf.Header) && inLoop(lroots, lef.Header), "R2", "loop-nesting", p.Pos(ep.Pos()), "files > values > roots > {BEGINFILE, pattern, ENDFILE}", "the per-root loops are not nested inside the root loop inside the file loop")
	// successful completion: apart from the exit edges, the only successful return comes after the END loop
	{
		ek := EKOf(p)
		gExit := ek.SentinelGlobal("errExit")
		n := 0
		for _, r := range returnsOf(ep) {
			res := effectiveResults(r)
			if !ek.KindsAt(res[len(res)-1], FactsOf(ep).At(r.Block())).Has(KNil) {
				continue
			}
			n++
			onExit := false
			for _, rl := range FactsOf(ep).At(r.Block()).Rels() {
				if rl.op == relEQ && gExit != nil && (globalLoaded(rl.y) == gExit || globalLoaded(rl.x) == gExit) {
					onExit = true
				}
			}
			// or the error is what an exit filter made of a non-nil error: nil exactly for `exit`
			if hc, _ := callOf(res[len(res)-1]); hc != nil {
				if h := hc.Call.StaticCallee(); h != nil && isExitFilter(p, h) {
					for _, a := range hc.Call.Args {
						if isErrorType(a.Type()) && FactsOf(ep).At(r.Block()).KnownNonNil(a) {
							onExit = true
						}
					}
				}
			}
			c.check(onExit || dom(le.Done, r.Block()), "R2", fmt.Sprintf("success-return #%d", n), p.InstrPos(r), "a run succeeds only after the END rules, or on `exit`", "EvalProgram can report success from a return that is neither an `exit` edge nor after the file and END loops: input is left unread (its faults unreported) and rules are skipped")
		}
	}
	var dec, setFile, pat *ssa.Call
	for _, call := range callsIn(ep) {
		cv, ok := call.(*ssa.Call)
		if !ok {
			continue
		}
		if f := cv.Call.StaticCallee(); f != nil && f.String() == "(*encoding/json.Decoder).Decode" {
			dec = cv
		}
		if staticCalleeIs(cv, "(*lang.Evaluator).setGlobal") {
			setFile = cv
		}
		if staticCalleeIs(cv, "(*lang.Evaluator).evalPatternRules") {
			pat = cv
		}
	}
	if dec == nil || setFile == nil || pat == nil {
		c.undecided("R2", "driver-calls", p.Pos(ep.Pos()), "Decode / setGlobal / evalPatternRules calls not all found")
		return
	}
	c.check(inLoop(lf, dec.Block()) && dominatesInstr(dec, setFile) && FactsOf(ep).At(setFile.Block()).KnownNil(dec) || inLoop(lf, dec.Block()) && dominatesInstr(dec, setFile) && eofExcluded(ep, dec, setFile), "R2", "file-published-per-value", p.InstrPos(setFile), "$file is published after each successful Decode", "$file is not set after each successful Decode")
	c.check(p.Render(setFile.Call.Args[1]) == `"$file"` && p.Render(setFile.Call.Args[2]) == "&lang.Cell{Value: lang.NewValue(files[i@files].Name)}", "R2", "file-value", p.InstrPos(setFile), "$file = the ranged file's Name", "setGlobal("+p.Render(setFile.Call.Args[1])+", "+p.Render(setFile.Call.Args[2])+")")
	c.check(setFile.Block().Dominates(lroots.Header), "R2", "file-before-roots", p.InstrPos(setFile), "$file is set before any rule of the value runs", "the root loop is reachable without $file having been set for this value")
	c.check(dom(lbf.Done, pat.Block()) && inLoop(lroots, pat.Block()), "R2", "beginfile-before-pattern", p.InstrPos(pat), "BEGINFILE rules complete before the pattern rules", "the pattern rules can run before the BEGINFILE loop finished")
	c.check(pat.Block().Dominates(lef.Header) && FactsOf(ep).At(lef.Header).KnownNil(pat), "R2", "pattern-before-endfile", p.InstrPos(pat), "ENDFILE rules run after the pattern rules returned without error", "the ENDFILE loop is not dominated by a successful return of the pattern rules")
	// the list the pattern step runs: handed over by the driver, or read from the evaluator by the step
	// itself (evalPatternRules without a parameter)
	patList := ""
	if len(pat.Call.Args) > 1 {
		patList = p.Render(pat.Call.Args[1])
	} else if epr := pat.Call.StaticCallee(); epr != nil {
		for _, call := range callsIn(epr) {
			for _, a := range call.Common().Args {
				if sf, ok := loadedField(a); ok && sf.Is("Evaluator", "patternRules") {
					patList = "e.patternRules"
				}
			}
		}
		allInstrs(epr, func(in ssa.Instruction) {
			if u, ok := in.(*ssa.UnOp); ok {
				if sf, ok := loadedField(u); ok && sf.Is("Evaluator", "patternRules") {
					patList = "e.patternRules"
				}
			}
		})
	}
	c.check(patList == "var:lang.Evaluator.patternRules" || strings.HasSuffix(patList, ".patternRules"), "R2", "pattern-list", p.InstrPos(pat), "evalPatternRules(ev.patternRules)", "evalPatternRules is given "+patList)
	// ev.root = ranged root, before the pattern rules
	rootOK := false
	rootElem := ""
	for _, st := range storesToField(ep, "Evaluator", "root", false) {
		v := p.RenderShort(st.Val)
		if dominatesInstr(st, pat) && inLoop(lroots, st.Block()) && strings.Contains(v, "[i@") {
			rootOK = true
			rootElem = v
		}
	}
	c.check(rootOK, "R2", "root-bound", p.InstrPos(pat), "ev.root = the ranged root cell", "Evaluator.root is not set to the ranged root cell before the pattern rules")
	// per driver loop: the evaluated body belongs to the list's element, ruleRoot stored before
	type drv struct {
		name string
		l    *rangeLoop
		root func(string) bool
		what string
	}
	freshNull := func(s string) bool { return s == "&lang.Cell{Value: lang.NewValue(nil)}" }
	drvs := []drv{
		{"BEGIN", lb, freshNull, "a fresh null cell"},
		{"END", le, freshNull, "a fresh null cell"},
		{"BEGINFILE", lbf, func(s string) bool { return rootElem != "" && s == rootElem }, "the selected root cell itself"},
		{"ENDFILE", lef, func(s string) bool {
			return strings.HasPrefix(s, "&lang.Cell{Value: ") && strings.HasSuffix(s, ".Value}") && strings.Contains(s, "[i@")
		}, "a fresh cell holding the root's value"},
	}
	for _, d := range drvs {
		var body *ssa.Call
		for _, call := range callsIn(ep) {
			if cv, ok := call.(*ssa.Call); ok && staticCalleeIs(cv, "(*lang.Evaluator).evalStatement") && inLoop(d.l, cv.Block()) && argDesc(cv) == "Rule.Body" {
				// innermost loop
				if d.l == lb || d.l == le || !inLoop(lbf, cv.Block()) && d.l == lef || !inLoop(lef, cv.Block()) && d.l == lbf || d.l == lbf && inLoop(lbf, cv.Block()) || d.l == lef && inLoop(lef, cv.Block()) {
					if body == nil || d.l.Body.Dominates(cv.Block()) {
						body = cv
					}
				}
			}
		}
		if body == nil {
			c.violated("R2", "driver "+d.name, p.Pos(ep.Pos()), "no evaluation of rule.Body inside the "+d.name+" loop")
			continue
		}
		arg := p.RenderShort(body.Call.Args[1])
		listElem := strings.Contains(arg, p.RenderShort(d.l.Slice)+"[i@") && strings.HasSuffix(arg, ".Body")
		c.check(listElem, "R2", "driver-body "+d.name, p.InstrPos(body), "evaluates the Body of the ranged rule", "the "+d.name+" loop evaluates "+arg+", not the body of the rule it ranges")
		var st *ssa.Store
		for _, s := range storesToField(ep, "Evaluator", "ruleRoot", false) {
			if dominatesInstr(s, body) && inLoop(d.l, s.Block()) {
				st = s
			}
		}
		if st == nil {
			c.violated("R2", "driver-root "+d.name, p.InstrPos(body), "$ is not bound inside the "+d.name+" loop before the rule runs")
			continue
		}
		v := p.RenderShort(st.Val)
		c.check(d.root(v), "R2", "driver-root "+d.name, p.InstrPos(st), "$ = "+d.what, "in "+d.name+" rules $ is bound to "+v+"; documented: "+d.what)
		if strings.HasPrefix(v, "&lang.Cell{") {
			// a fresh cell per rule: the allocation happens inside the driver loop
			fresh := false
			if call, _ := callOf(st.Val); call != nil && inLoop(d.l, call.Block()) {
				fresh = true
			}
			if a, ok := st.Val.(*ssa.Alloc); ok && inLoop(d.l, a.Block()) {
				fresh = true
			}
			c.check(fresh, "R2", "driver-root-fresh "+d.name, p.InstrPos(st), "a new cell is created for every rule", "the cell bound to $ in "+d.name+" rules is created outside the rule loop: every "+d.name+" rule (and any other driver using it) shares one cell, so what one rule assigns to $ is seen by the next")
		}
	}
	// ENDFILE's value is captured before the BEGINFILE rules (rootVal := rootCell.Value at loop entry)
	// selectors: the selector loop appends in selector order (rootsPerValue) and precedes the root loop
	c.check(dom(lsel.Done, lroots.Header) || !lsel.Header.Dominates(lroots.Header), "R2", "selectors-before-roots", p.Pos(ep.Pos()), "all selectors are evaluated before the roots are processed", "the root loop can start before the selector loop finished")
	rootsPerValue(c, "R2")
}

// eofExcluded: at the use, the Decode error is known to be nil (through `err == io.EOF` and
// `err != nil` tests both having failed).
func eofExcluded(fn *ssa.Function, dec, use *ssa.Call) bool {
	return FactsOf(fn).At(use.Block()).KnownNil(dec)
}

func c02R3(c *Ctx) {
	p := c.P
	ek := EKOf(p)
	c.note("R3 exit-edge-returns / next-edge-returns: for every comparison `err == errExit` in the drivers the true edge leads straight to a return of (evaluator, nil) with no call in between; `errNext` from a rule body or pattern makes evalRules return nil (not continue); in the BEGIN/END/BEGINFILE/ENDFILE drivers errNext ends that rule only (control goes to the loop's next iteration without further evaluation); these are the only comparison sites of the two sentinels.")
	for _, sName := range []string{"errExit", "errNext"} {
		g := ek.SentinelGlobal(sName)
		if g == nil {
			c.undecided("R3", "sentinel "+sName, "", "not discovered")
			continue
		}
		n := 0
		for _, fn := range p.Funcs {
			if !p.InLang(fn) {
				continue
			}
			allInstrs(fn, func(in ssa.Instruction) {
				b, ok := in.(*ssa.BinOp)
				if !ok {
					return
				}
				if globalLoaded(b.Y) != g && globalLoaded(b.X) != g {
					return
				}
				var ifi *ssa.If
				for _, r := range referrersOf(b) {
					if x, ok := r.(*ssa.If); ok {
						ifi = x
					}
				}
				if ifi == nil {
					return
				}
				n++
				key := fmt.Sprintf("%s-test #%d in %s", sName, n, shortName(fn))
				eqEdge := ifi.Block().Succs[0]
				if b.Op.String() == "!=" {
					eqEdge = ifi.Block().Succs[1]
				}
				name := shortName(fn)
				switch {
				case sName == "errExit" && p.isDriver(fn):
					r, isRet := eqEdge.Instrs[len(eqEdge.Instrs)-1].(*ssa.Return)
					calls := 0
					for _, x := range eqEdge.Instrs {
						if _, ok := x.(ssa.CallInstruction); ok {
							calls++
						}
					}
					okR := isRet && calls == 0 && ek.KindsAt(effectiveResults(r)[len(effectiveResults(r))-1], factSet{}) == KNil
					c.check(okR, "R3", key, p.InstrPos(ifi), "exit: return (evaluator, nil) immediately", "on `err == errExit` the driver does not return success immediately: further rules (END included) can still run, or the exit is reported as a failure")
				case sName == "errNext" && name == "(*lang.Evaluator).evalRules":
					r, isRet := eqEdge.Instrs[len(eqEdge.Instrs)-1].(*ssa.Return)
					okR := isRet && len(eqEdge.Instrs) == 1 && ek.KindsAt(effectiveResults(r)[0], factSet{}) == KNil
					c.check(okR, "R3", key, p.InstrPos(ifi), "next: evalRules returns nil, abandoning the remaining rules of this element", "on `err == errNext` evalRules does not return nil at once: the remaining rules of the element still run (or next is reported as an error)")
				case sName == "errNext" && p.isDriver(fn):
					// the equal edge continues with the next rule of the same driver loop: it reaches a
					// loop header without any call
					okC := true
					seen := map[*ssa.BasicBlock]bool{}
					var walk func(b *ssa.BasicBlock, d int)
					walk = func(b *ssa.BasicBlock, d int) {
						if seen[b] || d > 4 {
							return
						}
						seen[b] = true
						if b.Comment == "rangeindex.loop" {
							return
						}
						for _, x := range b.Instrs {
							if _, ok := x.(ssa.CallInstruction); ok {
								okC = false
							}
							if _, ok := x.(*ssa.Return); ok {
								okC = false
							}
						}
						for _, s := range b.Succs {
							walk(s, d+1)
						}
					}
					walk(eqEdge, 0)
					c.check(okC, "R3", key, p.InstrPos(ifi), "next in a special rule: continue with the next rule of that kind", "on `err == errNext` the special-rule driver does not simply continue with the next rule")
				case name == "lang.EvalExpression":
					// a selector is a bare expression: every sentinel is turned into a runtime error
					okE := true
					for b := range reachableFrom([]*ssa.BasicBlock{eqEdge}, nil) {
						if r, ok := b.Instrs[len(b.Instrs)-1].(*ssa.Return); ok && eqEdge.Dominates(b) {
							if ek.KindsAt(effectiveResults(r)[1], FactsOf(fn).At(b)) != KRuntime {
								okE = false
							}
						}
					}
					c.check(okE, "R3", key, p.InstrPos(ifi), sName+" in a selector becomes a runtime error", sName+" raised inside a selector is not turned into a runtime error")
				case sName == "errExit" && isExitFilter(p, fn):
					// a helper of the driver: `return ev, keepUnlessExit(err)` — the driver returns the
					// helper's verdict at once, so an exit still ends the run immediately
					okSites, nSites := true, 0
					for _, cs := range p.CallSitesOf(fn) {
						if p.inTestFile(cs.Parent()) {
							continue
						}
						nSites++
						if !p.isDriver(cs.Parent()) || !returnedAtOnce(cs) {
							okSites = false
						}
					}
					n += nSites - 1
					c.check(okSites && nSites > 0, "R3", key, p.InstrPos(ifi), fmt.Sprintf("exit filter used by the driver at %d returns", nSites), "the exit filter "+name+" is not used exclusively as the error of an immediate return of EvalProgram")
				case isSentinelPredicate(ek, fn):
					// a predicate over the sentinels (`isControlFlow(err)`): the test belongs to its callers.
					// Accepted where the selector entry point rejects every signal: the call's true edge
					// returns a runtime error
					okP, nSites := true, 0
					for _, cs := range p.CallSitesOf(fn) {
						caller := cs.Parent()
						if p.inTestFile(caller) {
							continue
						}
						nSites++
						cv, isVal := cs.(*ssa.Call)
						if !isVal || shortName(caller) != "lang.EvalExpression" {
							okP = false
							continue
						}
						for _, r := range referrersOf(cv) {
							ci, ok := r.(*ssa.If)
							if !ok {
								continue
							}
							te := ci.Block().Succs[0]
							for b := range reachableFrom([]*ssa.BasicBlock{te}, nil) {
								if rt, ok := b.Instrs[len(b.Instrs)-1].(*ssa.Return); ok && te.Dominates(b) {
									if ek.KindsAt(effectiveResults(rt)[1], FactsOf(caller).At(b)) != KRuntime {
										okP = false
									}
								}
							}
						}
					}
					c.check(okP && nSites > 0, "R3", key, p.InstrPos(ifi), sName+" is tested by a sentinel predicate that only the selector entry point uses, to turn the signal into a runtime error", sName+" is compared in the predicate "+name+", which is used outside the selector entry point's rejection of control-flow signals")
				default:
					c.violated("R3", key, p.InstrPos(ifi), sName+" is compared in "+name+", which is not one of its designed consumers")
				}
			})
		}
		want := map[string]int{"errExit": 5, "errNext": 6}[sName]
		if n < want {
			c.undecided("R3", sName+"-tests", "", fmt.Sprintf("%d comparison sites of %s found, %d confirmed by hand", n, sName, want))
		}
	}
}

func c02R4(c *Ctx) {
	p := c.P
	c.note("R4 pattern-gate: evalRules ranges its list in order; the body evaluation is reached only with (Pattern == nil) or isTruthy(value of the pattern) — a merge of exactly these two —, and a pattern error is propagated. evalPatternRules: under root tag == array, per element in index order: ruleRoot = the element, $index = fresh cell of the index, evalRules(list); under any other tag: ruleRoot = root, evalRules(list) exactly once; a nil root evaluates nothing. A rule without a body is parsed as a print statement without arguments.")
	er := p.LangFunc("(*Evaluator).evalRules")
	if er == nil {
		c.undecided("R4", "evalRules", "", "anchor not found")
		return
	}
	var body *ssa.Call
	for _, call := range callsIn(er) {
		if cv, ok := call.(*ssa.Call); ok && staticCalleeIs(cv, "(*lang.Evaluator).evalStatement") {
			body = cv
		}
	}
	if body == nil {
		c.violated("R4", "body-eval", p.Pos(er.Pos()), "evalRules does not evaluate rule bodies")
	} else {
		// edge-wise: every way into the body evaluation passes `Pattern == nil` or `isTruthy(pattern value)`
		F := FactsOf(er)
		isPatNil := func(fs factSet) bool {
			for _, rl := range fs.Rels() {
				if rl.op == relEQ && isNilConst(rl.y) && p.Render(rl.x) == "rules[i@rules].Pattern" {
					return true
				}
			}
			return false
		}
		gateHelper := patternGateHelper(c, er)
		isTruthyOfPattern := func(v ssa.Value) bool {
			if ex, ok := v.(*ssa.Extract); ok && ex.Index == 0 && gateHelper != nil {
				if hc, ok := ex.Tuple.(*ssa.Call); ok && hc.Call.StaticCallee() == gateHelper {
					for _, a := range hc.Call.Args {
						if p.Render(a) == "rules[i@rules]" {
							return true
						}
					}
				}
			}
			return p.Render(v) == "(*lang.Value).isTruthy(&(*lang.Evaluator).evalExpr(e, rules[i@rules].Pattern)#0.Value)"
		}
		var gateOK func(fs factSet) bool
		gateOK = func(fs factSet) bool {
			if isPatNil(fs) {
				return true
			}
			for f := range fs {
				if _, isRel := relsOf(f); isRel {
					continue
				}
				if f.truth && isTruthyOfPattern(f.cond) {
					return true
				}
				// a flag merged from the two ways: true on the no-pattern edge, the truthiness otherwise
				if phi, ok := f.cond.(*ssa.Phi); ok && f.truth {
					all := len(phi.Edges) > 0
					for i, e := range phi.Edges {
						if b, isC := constBool(e); isC {
							if !b {
								continue // this edge cannot make the flag true
							}
							if !isPatNil(F.OnEdge(phi.Block().Preds[i], phi.Block())) {
								all = false
							}
						} else if !isTruthyOfPattern(e) {
							all = false
						}
					}
					if all {
						return true
					}
				}
			}
			return false
		}
		var okAt func(b *ssa.BasicBlock, depth int) bool
		okAt = func(b *ssa.BasicBlock, depth int) bool {
			if gateOK(F.At(b)) {
				return true
			}
			if depth > 6 || len(b.Preds) == 0 {
				return false
			}
			for _, pr := range b.Preds {
				if !gateOK(F.OnEdge(pr, b)) && !okAt(pr, depth+1) {
					return false
				}
			}
			return true
		}
		c.check(okAt(body.Block(), 0), "R4", "pattern-gate", p.InstrPos(body), "body runs only when the pattern is absent or truthy", "the body evaluation can be reached on a path where neither `Pattern == nil` nor `isTruthy(pattern value)` was established")
		// and the other way round: a truthy / absent pattern is not skipped — the only edges that leave the
		// iteration without evaluating the body are the falsy pattern, next, and errors (R3, C11/R2)
		{
			falsy := func(fs factSet) bool {
				for f := range fs {
					if f.truth {
						continue
					}
					if isTruthyOfPattern(f.cond) {
						return true
					}
					if phi, ok := f.cond.(*ssa.Phi); ok {
						all := len(phi.Edges) > 0
						for _, e := range phi.Edges {
							if _, isC := constBool(e); !isC && !isTruthyOfPattern(e) {
								all = false
							}
						}
						if all {
							return true
						}
					}
				}
				return false
			}
			skipped := ""
			for _, l := range rangeLoops(er, func(v ssa.Value) bool { return p.Render(v) == "rules" }) {
				if !l.Body.Dominates(body.Block()) {
					continue
				}
				seen := map[*ssa.BasicBlock]bool{l.Body: true}
				work := []*ssa.BasicBlock{l.Body}
				for len(work) > 0 {
					b := work[len(work)-1]
					work = work[:len(work)-1]
					if b == body.Block() {
						continue
					}
					for _, s := range b.Succs {
						if falsy(F.OnEdge(b, s)) {
							continue
						}
						if s == l.Header {
							skipped = p.Pos(b.Instrs[len(b.Instrs)-1].Pos())
							if skipped == "" || skipped == "-" {
								skipped = "block " + b.String()
							}
							continue
						}
						if !seen[s] {
							seen[s] = true
							work = append(work, s)
						}
					}
				}
			}
			c.check(skipped == "", "R4", "matched-rule-body-not-skipped", p.InstrPos(body), "the next rule is reached only through the body evaluation or a falsy pattern", "the loop over the rules can go on to the next rule (from "+skipped+") without evaluating the body of a rule whose pattern is absent or truthy: that rule's action is replaced or dropped")
		}
		c.check(p.Render(body.Call.Args[1]) == "rules[i@rules].Body", "R4", "body-of-ranged-rule", p.InstrPos(body), "the ranged rule's body", "evalRules evaluates "+p.Render(body.Call.Args[1]))
	}
	// evalPatternRules
	ep := p.LangFunc("(*Evaluator).evalPatternRules")
	if ep == nil {
		c.undecided("R4", "evalPatternRules", "", "anchor not found")
		return
	}
	ms := p.maySetOf(ep, "e.root.Value.Tag", valueTagNames(p))
	type callInfo struct {
		tags   string
		inLoop bool
		root   string
		index  bool
	}
	var infos []callInfo
	loops := rangeLoops(ep, func(v ssa.Value) bool { return p.Render(v) == "e.root.Value.Array" })
	// `e.ruleRoot = e.root; return e.evalRules(rules)` may be a helper of its own that the arms call
	rootHelper := func(h *ssa.Function) (string, bool) {
		if h == nil || h == ep || !p.inClusterOf(ep, h) {
			return "", false
		}
		var inner *ssa.Call
		for _, hc := range callsIn(h) {
			if cvh, ok := hc.(*ssa.Call); ok && staticCalleeIs(cvh, "(*lang.Evaluator).evalRules") {
				if inner != nil {
					return "", false
				}
				inner = cvh
			}
		}
		if inner == nil || len(inner.Call.Args) < 2 {
			return "", false
		}
		if _, isPrm := inner.Call.Args[1].(*ssa.Parameter); !isPrm {
			return "", false
		}
		root := ""
		for _, st := range storesToField(h, "Evaluator", "ruleRoot", false) {
			if dominatesInstr(st, inner) {
				root = p.Render(st.Val)
			}
		}
		for _, r := range returnsOf(h) {
			if effectiveResults(r)[0] != ssa.Value(inner) {
				return "", false
			}
		}
		return root, root != ""
	}
	for _, call := range callsIn(ep) {
		cv, ok := call.(*ssa.Call)
		if !ok {
			continue
		}
		helperRoot, viaHelper := rootHelper(cv.Call.StaticCallee())
		if !viaHelper && !staticCalleeIs(cv, "(*lang.Evaluator).evalRules") {
			continue
		}
		ci := callInfo{tags: strings.Join(ms.At(cv.Block()), ",")}
		if viaHelper {
			ci.root = helperRoot
		}
		for _, l := range loops {
			if l.Body.Dominates(cv.Block()) {
				ci.inLoop = true
			}
		}
		for _, st := range storesToField(ep, "Evaluator", "ruleRoot", false) {
			if !viaHelper && dominatesInstr(st, cv) && (st.Block() == cv.Block() || st.Block().Dominates(cv.Block())) {
				ci.root = p.Render(st.Val)
			}
		}
		allInstrs(ep, func(in ssa.Instruction) {
			if mu, ok := in.(*ssa.MapUpdate); ok && dominatesInstr(mu, cv) {
				if k, ok := constString(mu.Key); ok && k == "$index" && p.Render(mu.Value) == "&lang.Cell{Value: lang.NewValue(i@e.root.Value.Array)}" {
					ci.index = true
				}
			}
		})
		rl := p.Render(cv.Call.Args[1])
		c.check(rl == "patternRules" || rl == "e.patternRules", "R4", "rules-list", p.InstrPos(cv), "evalRules(the pattern rules)", "evalRules is given "+rl)
		infos = append(infos, ci)
	}
	arrayOK, otherTags := false, map[string]bool{}
	for _, ci := range infos {
		if ci.tags == "ValueArray" {
			arrayOK = ci.inLoop && ci.root == "e.root.Value.Array[i@e.root.Value.Array]" && ci.index
			continue
		}
		okO := !ci.inLoop && ci.root == "e.root"
		for _, t := range strings.Split(ci.tags, ",") {
			otherTags[t] = okO
		}
	}
	c.check(arrayOK && len(loops) == 1, "R4", "array-root-per-element", p.Pos(ep.Pos()), "array root: per element in index order, $ = element, $index = position", "for an array root the pattern rules are not run `once per element with $ = the element and $index = its position` under root tag == array (an empty array must run them zero times)")
	allOther := true
	for _, t := range valueTagNames(p) {
		if t == "ValueArray" {
			continue
		}
		if !otherTags[t] {
			allOther = false
		}
	}
	c.check(allOther, "R4", "other-root-once", p.Pos(ep.Pos()), "any other root: exactly once with $ = the root", fmt.Sprintf("for non-array roots the pattern rules do not run exactly once with $ = root (tags handled: %v)", otherTags))
	// rule without a body
	if pr := p.LangFunc("(*Parser).parseRule"); pr != nil {
		okP := false
		otherBody := ""
		allInstrs(pr, func(in ssa.Instruction) {
			st, ok := in.(*ssa.Store)
			if !ok {
				return
			}
			if sf, ok := fieldOfAddr(st.Addr); ok && sf.Is("Rule", "Body") {
				r := p.Render(st.Val)
				switch {
				case r == "&lang.StatementPrint{}":
					g := guardsAt(p, pr, st.Block())
					okP = g["p.current.Tag != LCurly"]
					// whatever the kind of rule: nothing else decides that the body is the bare print
					extra := extraGuardsBetween(p, pr, pr.Blocks[0], st.Block(), "p.current.Tag != LCurly", "#1 == nil", "#1 != nil")
					if len(extra) > 0 {
						otherBody = "the bare print is given only under {" + strings.Join(extra, " && ") + "}"
					}
				case strings.Contains(r, "(*lang.Parser).block(p)#0"):
				case func() bool {
					// the choice may sit in a helper of parseRule's own (`ruleBody()`): its success results are the
					// parsed block, or the bare print under nothing but "no `{`"
					ex, ok := st.Val.(*ssa.Extract)
					if !ok || ex.Index != 0 {
						return false
					}
					hc, ok := ex.Tuple.(*ssa.Call)
					if !ok {
						return false
					}
					h := hc.Call.StaticCallee()
					if h == nil || !isPrivateTo(p, h, pr) || len(h.Blocks) == 0 {
						return false
					}
					if extra := extraGuardsBetween(p, pr, pr.Blocks[0], st.Block(), "#1 == nil", "#1 != nil"); len(extra) > 0 {
						otherBody = "the body chosen by " + shortName(h) + " is stored only under {" + strings.Join(extra, " && ") + "}"
					}
					for _, rc := range p.successResults(h) {
						switch {
						case rc.Value == "&lang.StatementPrint{}":
							hasNoBrace := false
							for _, g := range rc.Guards {
								switch {
								case g == "p.current.Tag != LCurly":
									hasNoBrace = true
								case strings.HasSuffix(g, "#1 == nil") || strings.HasSuffix(g, "#1 != nil"):
								default:
									otherBody = "the bare print is given only under {" + g + "}"
								}
							}
							okP = okP || hasNoBrace
						case strings.Contains(rc.Value, "(*lang.Parser).block(p)#0"):
						default:
							otherBody = "a rule is given the body " + abbrev(rc.Value, 80)
						}
					}
					return true
				}():
				default:
					otherBody = "a rule is given the body " + abbrev(r, 80)
				}
			}
		})
		c.check(okP && otherBody == "", "R4", "bodyless-rule-prints", p.Pos(pr.Pos()), "a rule without `{` gets a print statement without arguments, whatever its kind", "a rule without a body is not given `print` with no arguments in every case ("+otherBody+"): BEGIN / END / BEGINFILE / ENDFILE without a body print $ like a pattern rule does")
	}
}

// extraGuardsBetween: the relations that hold at block `to` but not at block `from` (each relation
// once, in the orientation the code wrote), minus those containing one of the allowed substrings.
func extraGuardsBetween(p *Program, fn *ssa.Function, from, to *ssa.BasicBlock, allowed ...string) []string {
	before := guardsAt(p, fn, from)
	var out []string
next:
	for _, rl := range FactsOf(fn).At(to).Rels() {
		g := p.RenderShort(rl.x) + " " + rl.op.String() + " " + p.RenderShort(rl.y)
		if before[g] {
			continue
		}
		for _, a := range allowed {
			if strings.Contains(g, a) {
				continue next
			}
		}
		out = append(out, g)
	}
	// boolean conditions that are not comparisons (a predicate call, a flag)
	beforeB := map[string]bool{}
	for f := range FactsOf(fn).At(from) {
		if _, ok := relsOf(f); !ok && len(predicateRels(f)) == 0 {
			beforeB[boolFactText(p, f)] = true
		}
	}
nextB:
	for f := range FactsOf(fn).At(to) {
		if _, ok := relsOf(f); ok || len(predicateRels(f)) > 0 {
			continue
		}
		g := boolFactText(p, f)
		if beforeB[g] {
			continue
		}
		for _, a := range allowed {
			if strings.Contains(g, a) {
				continue nextB
			}
		}
		out = append(out, g)
	}
	sort.Strings(out)
	return dedup(out)
}

func boolFactText(p *Program, f fact) string {
	s := p.RenderShort(f.cond)
	if !f.truth {
		s = "!" + s
	}
	return s
}

func guardsAt(p *Program, fn *ssa.Function, b *ssa.BasicBlock) map[string]bool {
	g := map[string]bool{}
	for _, rl := range FactsOf(fn).At(b).Rels() {
		g[p.RenderShort(rl.x)+" "+rl.op.String()+" "+p.RenderShort(rl.y)] = true
		// the same relation read from right to left
		g[p.RenderShort(rl.y)+" "+flip(rl.op).String()+" "+p.RenderShort(rl.x)] = true
	}
	return g
}

// isExitFilter: h(err error) error returns nil when err is the exit signal and err itself otherwise.
func isExitFilter(p *Program, h *ssa.Function) bool {
	if h == nil || !p.InLang(h) || len(h.Blocks) == 0 || h.Signature.Results().Len() != 1 || !isErrorType(h.Signature.Results().At(0).Type()) {
		return false
	}
	ek := EKOf(p)
	j := -1
	for i, prm := range h.Params {
		if isErrorType(prm.Type()) {
			if j >= 0 {
				return false
			}
			j = i
		}
	}
	if j < 0 {
		return false
	}
	all := KSyntax | KRuntime | KJson | KRaw | KForeign | KUnknown | ek.AllSentinels()
	if ek.PassMask(h, j, 0) != all&^ek.Sentinel("errExit") {
		return false
	}
	// every other return is the constant nil
	for _, r := range returnsOf(h) {
		v := effectiveResults(r)[0]
		if v == ssa.Value(h.Params[j]) {
			continue
		}
		if phi, ok := v.(*ssa.Phi); ok {
			for _, e := range phi.Edges {
				if e != ssa.Value(h.Params[j]) && !isNilConst(e) {
					return false
				}
			}
			continue
		}
		if !isNilConst(v) {
			return false
		}
	}
	// no effects
	pure := true
	allInstrs(h, func(in ssa.Instruction) {
		switch in.(type) {
		case *ssa.Store, *ssa.MapUpdate, *ssa.Call, *ssa.Go, *ssa.Defer, *ssa.Send:
			pure = false
		}
	})
	return pure
}

// returnedAtOnce: the call's result is the error result of a Return in the same block, with no
// other call in between.
func returnedAtOnce(cs ssa.CallInstruction) bool {
	cv, ok := cs.(*ssa.Call)
	if !ok {
		return false
	}
	b := cv.Block()
	ret, ok := b.Instrs[len(b.Instrs)-1].(*ssa.Return)
	if !ok {
		return false
	}
	res := effectiveResults(ret)
	if len(res) == 0 || res[len(res)-1] != ssa.Value(cv) {
		return false
	}
	for i := instrIndex(cv) + 1; i < len(b.Instrs)-1; i++ {
		if _, isCall := b.Instrs[i].(ssa.CallInstruction); isCall {
			return false
		}
	}
	return true
}

// patternGateHelper: evalRules may ask a helper of its own whether the rule matches. The helper is
// accepted (and returned) when it is exactly the gate: (true, nil) where the rule has no pattern,
// (isTruthy(value of the pattern), nil) after a successful evaluation of the pattern, and a non-nil
// error otherwise; it must have no effects of its own.
func patternGateHelper(c *Ctx, er *ssa.Function) *ssa.Function {
	p := c.P
	for _, call := range callsIn(er) {
		h := call.Common().StaticCallee()
		if h == nil || h == er || !p.inClusterOf(er, h) || h.Signature.Results().Len() != 2 || !isBoolType(h.Signature.Results().At(0).Type()) || !isErrorType(h.Signature.Results().At(1).Type()) {
			continue
		}
		var rule *ssa.Parameter
		for _, prm := range h.Params {
			if pt, ok := prm.Type().(*types.Pointer); ok && isLangNamed(pt.Elem(), "Rule") {
				rule = prm
			}
		}
		if rule == nil {
			continue
		}
		R := p.Render(rule)
		ev := "(*lang.Evaluator).evalExpr(e, " + R + ".Pattern)"
		okAll, nTrue, nTruthy := true, 0, 0
		ek := EKOf(p)
		for _, r := range returnsOf(h) {
			res := effectiveResults(r)
			mayNil := ek.KindsAt(res[1], FactsOf(h).At(r.Block())).Has(KNil)
			if !mayNil {
				continue // an error return: the verdict is not used
			}
			g := guardsAt(p, h, r.Block())
			switch v := p.Render(res[0]); {
			case v == "true" && g[R+".Pattern == nil"]:
				nTrue++
			case v == "(*lang.Value).isTruthy(&"+ev+"#0.Value)" && g[ev+"#1 == nil"]:
				nTruthy++
			default:
				okAll = false
			}
		}
		c.check(okAll && nTrue == 1 && nTruthy == 1 && len(p.effects(h)) == 0, "R4", "pattern-gate-helper "+shortName(h), p.Pos(h.Pos()), "true without a pattern, else the truthiness of the evaluated pattern", "the helper "+shortName(h)+" that decides whether a rule matches is not `true when the rule has no pattern, isTruthy(value of the pattern) otherwise` without effects")
		if okAll && nTrue == 1 && nTruthy == 1 {
			return h
		}
	}
	return nil
}

// isSentinelPredicate: fn is a pure boolean function of one error parameter whose answer depends
// only on which sentinel the error is (EK.kindPredicate).
func isSentinelPredicate(ek *EK, fn *ssa.Function) bool {
	for j := range fn.Params {
		if _, ok := ek.kindPredicate(fn, j); ok {
			return true
		}
	}
	return false
}

package main

// may-set analysis for an enum-valued location: for each block, the set of constants the location
// (identified by its rendering, e.g. "expr.OpToken.Tag") may hold on some path into the block,
// given the equality tests passed. Forward dataflow, union at joins, edge refinement.

import (
	"sort"

	"golang.org/x/tools/go/ssa"
)

type maySets struct {
	in map[*ssa.BasicBlock]map[string]bool
}

// maySetOf: universe are the names of the constants; loc is the rendering of the tested value.
// Sound only if the location is not written inside fn (checked by the caller where it matters).
func (p *Program) maySetOf(fn *ssa.Function, loc string, universe []string) *maySets {
	return p.maySetOfWith(fn, loc, universe, p.Render)
}

func (p *Program) maySetOfWith(fn *ssa.Function, loc string, universe []string, render func(ssa.Value) string) *maySets {
	ms := &maySets{in: map[*ssa.BasicBlock]map[string]bool{}}
	if len(fn.Blocks) == 0 {
		return ms
	}
	full := map[string]bool{}
	for _, u := range universe {
		full[u] = true
	}
	ms.in[fn.Blocks[0]] = full
	// cache: which conditions test loc against which constant
	type test struct {
		k  string
		eq bool // true: cond true means loc == k
	}
	tests := map[ssa.Value]*test{}
	testOf := func(f fact) (string, bool, bool) {
		t, ok := tests[f.cond]
		if !ok {
			t = nil
			if r, ok2 := relsOf(fact{f.cond, true}); ok2 && (r.op == relEQ || r.op == relNE) {
				var cv, lv ssa.Value
				if _, isC := r.y.(*ssa.Const); isC {
					cv, lv = r.y, r.x
				} else if _, isC := r.x.(*ssa.Const); isC {
					cv, lv = r.x, r.y
				}
				if cv != nil && render(lv) == loc {
					t = &test{k: render(cv), eq: r.op == relEQ}
				}
			}
			tests[f.cond] = t
		}
		if t == nil {
			return "", false, false
		}
		eq := t.eq
		if !f.truth {
			eq = !eq
		}
		return t.k, eq, true
	}
	changed := true
	for changed {
		changed = false
		for _, b := range fn.Blocks {
			cur := ms.in[b]
			if cur == nil {
				continue
			}
			for _, s := range b.Succs {
				out := map[string]bool{}
				for k := range cur {
					out[k] = true
				}
				if ef, ok := edgeFact(b, s); ok {
					if k, eq, ok := testOf(ef); ok {
						if eq {
							for x := range out {
								if x != k {
									delete(out, x)
								}
							}
						} else {
							delete(out, k)
						}
					}
				}
				dst := ms.in[s]
				if dst == nil {
					dst = map[string]bool{}
					ms.in[s] = dst
					changed = true
				}
				for k := range out {
					if !dst[k] {
						dst[k] = true
						changed = true
					}
				}
			}
		}
	}
	return ms
}

func (ms *maySets) At(b *ssa.BasicBlock) []string {
	var out []string
	for k := range ms.in[b] {
		out = append(out, k)
	}
	sort.Strings(out)
	return out
}

func (ms *maySets) Reachable(b *ssa.BasicBlock) bool {
	s, ok := ms.in[b]
	return ok && len(s) > 0
}

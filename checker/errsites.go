package main

// S4: error-valued call sites, dropped results, and the consumption table (which call sites
// swallow which kinds), shared by C01, C02, C07, C11, C12.

import (
	"fmt"
	"sort"
	"strings"

	"golang.org/x/tools/go/ssa"
)

// foreign callees whose failure matters to a property
var foreignErrCallees = map[string]bool{
	"(*encoding/json.Decoder).Decode": true,
	"encoding/json.MarshalIndent":     true,
	"encoding/json.Marshal":           true,
	"regexp.Compile":                  true,
	"os.Open":                         true,
	"os.ReadFile":                     true,
	"os.Create":                       true,
	"(*os.File).WriteString":          true,
	"(*os.File).Write":                true,
}

type ErrSite struct {
	Call     ssa.CallInstruction
	Fn       *ssa.Function // enclosing
	Callees  []*ssa.Function
	Module   bool // at least one callee is a module function
	Key      string
	ArgDesc  string
	Dropped  bool
	DropWhy  string
	Swallow  *Swallow
	ErrIndex int
}

// argDesc describes the first non-receiver argument of a call by provenance: "StatementWhile.Body",
// or its static type.
func argDesc(call ssa.CallInstruction) string {
	cc := call.Common()
	args := cc.Args
	if cc.Signature().Recv() != nil && !cc.IsInvoke() && len(args) > 0 {
		args = args[1:]
	}
	if len(args) == 0 {
		return ""
	}
	a := args[0]
	for {
		switch x := a.(type) {
		case *ssa.MakeInterface:
			a = x.X
			continue
		case *ssa.ChangeInterface:
			a = x.X
			continue
		}
		break
	}
	if sf, ok := loadedField(a); ok && sf.Struct != nil {
		return sf.Struct.Obj().Name() + "." + sf.Name
	}
	if n := namedOf(a.Type()); n != nil {
		return n.Obj().Name()
	}
	return a.Type().String()
}

var errSitesCache = map[*Program][]*ErrSite{}

// ErrSites enumerates the error-valued call sites of packages lang and cli (non-test files).
func ErrSites(p *Program) []*ErrSite {
	if s, ok := errSitesCache[p]; ok {
		return s
	}
	ek := EKOf(p)
	var out []*ErrSite
	perKey := map[string]int{}
	for _, fn := range p.Funcs {
		if !(p.InLang(fn) || p.InCli(fn)) {
			continue
		}
		for _, call := range callsIn(fn) {
			sig := call.Common().Signature()
			idx := errResultIndex(sig)
			// results of the three error struct types count as well (funnels return them by value)
			if idx < 0 {
				continue
			}
			callees := p.Callees(call)
			mod := false
			listed := false
			for _, f := range callees {
				if p.InModule(f) {
					mod = true
				}
				if foreignErrCallees[f.String()] {
					listed = true
				}
			}
			if len(callees) == 0 && call.Common().StaticCallee() == nil {
				// unresolved dynamic call with an error result: keep it, it must not be dropped
				mod = true
			}
			if !mod && !listed {
				continue
			}
			s := &ErrSite{Call: call, Fn: fn, Callees: callees, Module: mod, ErrIndex: idx}
			s.ArgDesc = argDesc(call)
			base := fmt.Sprintf("%s -> %s(%s)", shortName(fn), calleeName(call.Common()), s.ArgDesc)
			perKey[base]++
			s.Key = fmt.Sprintf("%s #%d", base, perKey[base])
			cv, isCall := call.(*ssa.Call)
			if !isCall {
				// a deferred call whose error result can only be nil loses nothing
				var k Kinds
				for _, f := range callees {
					if p.InModule(f) {
						k |= ek.Sum(f, idx)
					} else {
						k |= KForeign
					}
				}
				if k != KNil {
					s.Dropped = true
					s.DropWhy = "called through defer/go: the result is discarded"
				}
			} else {
				ev, _ := errValueOf(cv)
				switch {
				case ev == nil:
					s.Dropped = true
					s.DropWhy = "the error result is never read"
				case len(referrersOf(ev)) == 0:
					s.Dropped = true
					s.DropWhy = "the error result is assigned but never used"
				}
				s.Swallow = ek.SwallowOf(cv)
			}
			out = append(out, s)
		}
	}
	sort.Slice(out, func(i, j int) bool { return out[i].Key < out[j].Key })
	errSitesCache[p] = out
	return out
}

func keysOf(m map[string]bool) string {
	var ks []string
	for k := range m {
		ks = append(ks, k)
	}
	sort.Strings(ks)
	return strings.Join(ks, ", ")
}

package main

import (
	"fmt"
	"os"
	"strings"

	"golang.org/x/tools/go/ssa"
)

// developer aid: jqcheck dump methods | dump <function short name substring>
func dumpCmd(args []string) {
	p, err := Load(repoDir(), LoadConfig{Name: "default"})
	if err != nil {
		fmt.Fprintln(os.Stderr, err)
		os.Exit(2)
	}
	if len(args) > 1 && args[0] == "phis" {
		dumpPhis(p, args[1])
		return
	}
	if len(args) > 1 && args[0] == "calls" {
		dumpCalls(p, args[1])
		return
	}
	if len(args) > 1 && args[0] == "facts" {
		dumpFacts(p, args[1])
		return
	}
	if len(args) > 0 && args[0] == "methods" {
		for _, m := range nativeMethods(p) {
			fmt.Printf("== %s.%s  (%s)\n", m.Proto, m.Name, shortName(m.Fn))
			if m.Fn == nil {
				continue
			}
			for _, rc := range p.successResults(m.Fn) {
				fmt.Printf("   %s  -> %s\n        when %s\n", p.InstrPos(rc.Ret), rc.Value, strings.Join(rc.Guards, " && "))
			}
			for _, e := range p.effects(m.Fn) {
				fmt.Printf("   effect: %s\n", e)
			}
		}
		return
	}
	for _, f := range p.Funcs {
		for _, a := range args {
			if strings.Contains(shortName(f), a) {
				fmt.Printf("== %s\n", shortName(f))
				for _, r := range returnsOf(f) {
					var parts []string
					for _, v := range effectiveResults(r) {
						parts = append(parts, p.Render(v))
					}
					var gs []string
					for _, rl := range FactsOf(f).At(r.Block()).Rels() {
						gs = append(gs, p.Render(rl.x)+" "+rl.op.String()+" "+p.Render(rl.y))
					}
					fmt.Printf("   %s  -> %s\n        when %s\n", p.InstrPos(r), strings.Join(parts, " , "), strings.Join(gs, " && "))
				}
				for _, e := range p.effects(f) {
					fmt.Printf("   effect: %s\n", e)
				}
			}
		}
	}
}

func dumpFacts(p *Program, name string) {
	for _, f := range p.Funcs {
		if !strings.Contains(shortName(f), name) {
			continue
		}
		F := FactsOf(f)
		for _, b := range f.Blocks {
			fmt.Printf("block %d (%s): reach=%v nfacts=%d\n", b.Index, b.Comment, F.in[b] != nil, len(F.in[b]))
			for ft := range F.in[b] {
				fmt.Printf("    %s = %v\n", ft.cond.Name(), ft.truth)
			}
		}
	}
}

// dumpCalls prints every call of the matching functions with rendered arguments and guards.
func dumpCalls(p *Program, name string) {
	for _, f := range p.Funcs {
		if !strings.Contains(shortName(f), name) {
			continue
		}
		fmt.Printf("== calls in %s\n", shortName(f))
		for _, c := range p.renderedCalls(f) {
			fmt.Printf("   %s  %s\n        when %s\n", p.InstrPos(c.Call), c.Text, strings.Join(c.Guards, " && "))
		}
	}
}

func dumpPhis(p *Program, name string) {
	for _, f := range p.Funcs {
		if !strings.Contains(shortName(f), name) {
			continue
		}
		allInstrs(f, func(in ssa.Instruction) {
			if phi, ok := in.(*ssa.Phi); ok && phi.Comment != "" {
				fmt.Printf("phi %s (%s): %s\n", phi.Name(), phi.Comment, p.Render(phi))
				for i := range phi.Edges {
					fmt.Printf("    edge %d: %v\n", i, keysOf(guardsAtEdge(p, FactsOf(f), phi.Block().Preds[i], phi.Block())))
				}
			}
		})
	}
}

package main

import (
	"fmt"
	"go/token"
	"go/types"
	"strings"

	"golang.org/x/tools/go/ssa"
)

func init() {
	register(&ruleSet{
		id:    "C07",
		title: "control flow executes statements in the documented order, at any nesting",
		run:   runC07,
		decided: "which sentinel each construct consumes and where control goes on each edge, at any nesting (nesting is handled by the recursion of evalStatement, whose summary is used at every level): each loop's body evaluation consumes exactly break and continue and lets every other outcome through; after a break the body is never evaluated again, after a continue / normal completion the loop goes on; the for post-expression is evaluated on every path from a completed or continued body to the next condition test and on no path from a break, the initialiser once before the loop with its error propagated; if / else bodies are gated by the condition's truthiness and their outcome returned unchanged; return stores the return slot on every path before raising and the call consumes it, reading the slot only then; for-in binds element / index (arrays), key / value in sorted key order (objects), character / byte offset (strings) before each body evaluation; every statement and expression node type the parser can build has an arm in the evaluator." +
			" for-in over a string binds Go's own range over the string (byte offsets); no err.Error() is applied to a value that may be a control-flow signal (signals keep their identity up to their consumer); every test against errNext / errExit sits in a rule driver." +
			" The fuzzer's iteration cap applies only under Evaluator.fuzzing." +
			" Each for-in binding is made in every iteration; a return statement carries a value exactly where the statement-end test answered false." +
			" The statement parser stores into a statement node only what its own parser calls returned (no restructuring of parsed statements)." +
			" The truthiness of an if condition is taken exactly once per execution. Every statement parsed inside `{ … }` is appended to the block's list (none is dropped).",
		notDecided: "the parser's dangling-else attachment (inherent in the recursive descent: an else is consumed by the innermost if still open; not separately checked); element order of Go's range over slices / strings (language semantics).",
	})
}

func runC07(c *Ctx) {
	p := c.P
	es := p.LangFunc("(*Evaluator).evalStatement")
	if es == nil {
		c.undecided("R1", "evalStatement", "", "anchor not found")
		return
	}
	c07LoopConsumption(c, es)

	c07ForOrder(c, es)
	c07IfElse(c, es)
	c07Return(c, es)
	sentinelIdentity(c, "R8")
	fuzzLimitGuarded(c, "R9")
	c.shared("R7", "C02/R3", "next and exit are consumed exactly by the rule drivers: every test against errNext / errExit sits in a driver, so a `next` leaves the current rule list and an `exit` the run from any nesting of statements", nil, c02R3)
	c.shared("R14", "C11/R2", "next and exit leave the rule / the program at once at any nesting, the right operand of && / || included: the functions of the evaluator hand on every error of a sub-evaluation (a shadowed error variable swallows the signal and the following statements still run)", func(o Obligation) bool { return strings.HasPrefix(o.Key, "(*lang.Evaluator).") }, func(s *Ctx) { c11R2(s, "R2") })
	c.shared("R13", "C15/R2", "for-in visits every element once, in order, whatever the body does to the array: the loop ranges the slice it started with, and no array method moves or clears cells inside that backing array (pop and popfirst only re-slice, push appends)", keyHas("array.pop", "array.popfirst", "array.push"), func(s *Ctx) { c15R2(s, nativeMethods(s.P)) })
	c.shared("R12", "C01/R2", "break and continue are accepted in every loop nesting: the parser's in-loop flag is set for a loop body and restored to what it was before (not cleared) when the body ends, so the rest of an enclosing loop's body is still inside a loop", keyHas("region inLoop"), func(s *Ctx) { scopeAgreement(s, "R2") })
	mapRangeOrder(c, "R5")
	c07ForIn(c, es)
	c07Dispatch(c)
	returnValuePresence(c, "R10")
	parsedNodeFidelity(c, "R11")
}

// parsedNodeFidelity: the statement parser builds each statement node from the pieces it has just
// parsed; it does not take parsed statements apart and re-assemble them (a peephole such as folding
// `if (a) { if (b) x }` into `if (a && b) x` changes which `if` an `else` belongs to).
func parsedNodeFidelity(c *Ctx, rule string) {
	p := c.P
	blockKeepsEveryStatement(c, rule)
	c.note("%s parsed-node-fidelity: in the statement-level parser functions every Expr / Statement stored into a field of a Statement node is the result of a parser call made there (or a node built there whose own fields satisfy the same condition, or nil); it is never read out of a field of an already parsed node.", rule)
	n := 0
	for _, fn := range p.Funcs {
		if !p.InLang(fn) || p.inTestFile(fn) || fn.Signature.Recv() == nil || !strings.Contains(fn.Signature.Recv().Type().String(), "Parser") {
			continue
		}
		var bad func(v ssa.Value, d int, seen map[ssa.Value]bool) string
		bad = func(v ssa.Value, d int, seen map[ssa.Value]bool) string {
			if v == nil || seen[v] || d > 12 {
				return ""
			}
			seen[v] = true
			switch x := v.(type) {
			case *ssa.MakeInterface:
				return bad(x.X, d+1, seen)
			case *ssa.ChangeInterface:
				return bad(x.X, d+1, seen)
			case *ssa.TypeAssert:
				return bad(x.X, d+1, seen)
			case *ssa.Extract:
				return bad(x.Tuple, d+1, seen)
			case *ssa.Phi:
				for _, e := range x.Edges {
					if w := bad(e, d+1, seen); w != "" {
						return w
					}
				}
			case *ssa.UnOp:
				if x.Op != token.MUL {
					return ""
				}
				if fa, ok := x.X.(*ssa.FieldAddr); ok {
					if sf, ok := fieldOfAddr(fa); ok && sf.Struct != nil && isNodeType(sf.Struct) && isNodeType(x.Type()) {
						return "read from " + sf.Struct.Obj().Name() + "." + sf.Name + " of a parsed node"
					}
				}
				if a, ok := x.X.(*ssa.Alloc); ok {
					for _, r := range referrersOf(a) {
						if st, ok := r.(*ssa.Store); ok && st.Addr == ssa.Value(a) {
							if w := bad(st.Val, d+1, seen); w != "" {
								return w
							}
						}
					}
				}
				if ia, ok := x.X.(*ssa.IndexAddr); ok && isNodeType(x.Type()) {
					return bad(ia.X, d+1, seen)
				}
			case *ssa.Alloc:
				// a node built here: its own node-typed fields
				for _, r := range referrersOf(x) {
					fa, ok := r.(*ssa.FieldAddr)
					if !ok {
						continue
					}
					for _, rr := range referrersOf(fa) {
						if st, ok := rr.(*ssa.Store); ok && st.Addr == ssa.Value(fa) && isNodeType(st.Val.Type()) {
							if w := bad(st.Val, d+1, seen); w != "" {
								return w
							}
						}
					}
				}
			}
			return ""
		}
		allInstrs(fn, func(in ssa.Instruction) {
			a, ok := in.(*ssa.Alloc)
			if !ok {
				return
			}
			nt := namedOf(a.Type().(*types.Pointer).Elem())
			if nt == nil || !strings.HasPrefix(nt.Obj().Name(), "Statement") || nt.Obj().Pkg() != p.Lang.Types {
				return
			}
			n++
			w := bad(a, 0, map[ssa.Value]bool{})
			c.check(w == "", rule, "parsed-node-fidelity "+nt.Obj().Name()+" in "+shortName(fn), p.InstrPos(a), "built from the pieces just parsed", "a "+nt.Obj().Name()+" node is assembled from a part "+w+": the parser takes a parsed statement apart and re-assembles it, so the tree no longer mirrors the program text (an `else`, `break` or position then attaches to a different construct)")
		})
	}
	if n < 8 {
		c.undecided(rule, "parsed-node-fidelity instance-floor", "", fmt.Sprintf("%d statement nodes built in parser methods, 10 expected", n))
	}
}

// R1 loop consumption
func c07LoopConsumption(c *Ctx, es *ssa.Function) {
	p := c.P
	ek := EKOf(p)
	brk, cont := ek.Sentinel("errBreak"), ek.Sentinel("errContinue")
	gBreak := ek.SentinelGlobal("errBreak")
	c.note("R1 loop-consumption: for the body evaluation call of while / for / for-in (array, object, string): swallowed kinds = {errBreak, errContinue} exactly (swallow analysis), every other kind is returned unchanged; on the edge where the body's error == errBreak the body call is not reachable again; on the complementary non-returning edge it is.")
	nLoops := 0
	for _, s := range ErrSites(p) {
		if !p.inClusterOf(es, s.Fn) || s.Swallow == nil {
			continue
		}
		F := FactsOf(s.Fn)
		if !(strings.HasSuffix(s.ArgDesc, ".Body") && (strings.HasPrefix(s.ArgDesc, "StatementWhile") || strings.HasPrefix(s.ArgDesc, "StatementFor"))) {
			continue
		}
		nLoops++
		key := "loop-body " + s.Key
		sw := s.Swallow
		c.check(sw.Swallowed == brk|cont, "R1", key+" consumes", p.InstrPos(s.Call), "consumes exactly break and continue", "the loop consumes "+ek.kindNames(sw.Swallowed)+" from its body; documented: exactly {errBreak, errContinue}")
		others := sw.Kinds &^ (brk | cont)
		c.check(sw.Through&others == others, "R1", key+" propagates", p.InstrPos(s.Call), "every other outcome "+ek.kindNames(others)+" leaves the loop unchanged", "outcomes "+ek.kindNames(others&^sw.Through)+" of the body are not returned unchanged by the loop")
		// break leaves the loop
		cv := s.Call.(*ssa.Call)
		breakStays := false
		breakSeen := false
		for _, b := range s.Fn.Blocks {
			if F.At(b).EqGlobal(cv, gBreak) {
				breakSeen = true
				if reachableFrom([]*ssa.BasicBlock{b}, nil)[cv.Block()] {
					breakStays = true
				}
			}
		}
		// the break edge may lead directly to the shared exit block: test the edge targets
		for _, b := range s.Fn.Blocks {
			for _, succ := range b.Succs {
				if F.OnEdge(b, succ).EqGlobal(cv, gBreak) && !F.At(b).EqGlobal(cv, gBreak) {
					breakSeen = true
					if succ == cv.Block() || reachableFrom([]*ssa.BasicBlock{succ}, nil)[cv.Block()] {
						breakStays = true
					}
				}
			}
		}
		c.check(breakSeen && !breakStays, "R1", key+" break-exits", p.InstrPos(s.Call), "after break the body is not evaluated again", "on the errBreak edge the loop body can be evaluated again (break does not leave the loop), or break is not tested")
		// the loop continues otherwise: the call can reach itself
		c.check(reachableFrom(cv.Block().Succs, nil)[cv.Block()], "R1", key+" loops", p.InstrPos(s.Call), "the body is inside a cycle", "the body evaluation is not inside a loop")
	}
	if nLoops != 5 {
		c.undecided("R1", "loop-bodies", p.Pos(es.Pos()), fmt.Sprintf("%d loop body evaluations found, 5 confirmed by hand (while, for, for-in x3)", nLoops))
	}

}

// returnValuePresence: whether `return` carries a value is decided by the statement-end test, not by
// what the next token looks like.
func returnValuePresence(c *Ctx, rule string) {
	p := c.P
	c.note("%s return-value-presence: in the parser, a StatementReturn with a value is built only where atStatementEnd() answered false (without error), and one without a value only where it answered true: `return` at the end of a line returns null and the next line is the next statement.", rule)
	ase := p.LangFunc("(*Parser).atStatementEnd")
	if ase == nil {
		c.undecided(rule, "atStatementEnd", "", "anchor not found")
		return
	}
	n := 0
	for _, fn := range p.Funcs {
		if !p.InLang(fn) || p.inTestFile(fn) {
			continue
		}
		allInstrs(fn, func(in ssa.Instruction) {
			a, ok := in.(*ssa.Alloc)
			if !ok || !isLangNamed(a.Type().(*types.Pointer).Elem(), "StatementReturn") {
				return
			}
			// the value stored into the node's expression field
			var val ssa.Value
			var at ssa.Instruction = a
			for _, r := range referrersOf(a) {
				if fa, ok := r.(*ssa.FieldAddr); ok {
					for _, rr := range referrersOf(fa) {
						if st, ok := rr.(*ssa.Store); ok && st.Addr == ssa.Value(fa) {
							val, at = st.Val, st
						}
					}
				}
			}
			n++
			withValue := val != nil && !isNilConst(val)
			// the answer of the statement-end test known at this point
			known, ended := false, false
			for f := range FactsOf(fn).At(at.Block()) {
				ex, ok := f.cond.(*ssa.Extract)
				if !ok || ex.Index != 0 {
					continue
				}
				if cv, ok := ex.Tuple.(*ssa.Call); ok && cv.Call.StaticCallee() == ase {
					known, ended = true, f.truth
				}
			}
			key := fmt.Sprintf("return-node #%d in %s (%s)", n, shortName(fn), map[bool]string{true: "with value", false: "bare"}[withValue])
			c.check(known && ended == !withValue, rule, key, p.InstrPos(at), "decided by atStatementEnd()", "a return statement "+map[bool]string{true: "with a value", false: "without a value"}[withValue]+" is built where the statement-end test did not answer "+map[bool]string{true: "false", false: "true"}[withValue]+": a bare `return` at the end of a line takes the next line as its value (or a value on the same line is dropped)")
		})
	}
	if n < 2 {
		c.undecided(rule, "return-nodes", "", fmt.Sprintf("%d StatementReturn nodes built in the parser, 2 expected", n))
	}
}

func findCall(fn *ssa.Function, callee, arg string) []*ssa.Call {
	var out []*ssa.Call
	for _, call := range callsIn(fn) {
		cv, ok := call.(*ssa.Call)
		if ok && staticCalleeIs(cv, callee) && argDesc(cv) == arg {
			out = append(out, cv)
		}
	}
	return out
}

// R2 for-post-order
func c07ForOrder(c *Ctx, es *ssa.Function) {
	p := c.P
	ek := EKOf(p)
	F := FactsOf(es)
	c.note("R2 for-post-order: evalExpr(st.PostExpr) is executed only where the body's outcome is nil or errContinue (never after break); removing its block disconnects the body from the next condition test (it is on every path of a completed / continued iteration); evalExpr(st.PreExpr) is not in the cycle, dominates the first condition test and its error is returned.")
	pre := findCall(es, "(*lang.Evaluator).evalExpr", "StatementFor.PreExpr")
	cond := findCall(es, "(*lang.Evaluator).evalExpr", "StatementFor.Expr")
	post := findCall(es, "(*lang.Evaluator).evalExpr", "StatementFor.PostExpr")
	body := findCall(es, "(*lang.Evaluator).evalStatement", "StatementFor.Body")
	if len(pre) != 1 || len(cond) != 1 || len(post) != 1 || len(body) != 1 {
		c.undecided("R2", "for-clauses", p.Pos(es.Pos()), fmt.Sprintf("three-clause for arm: pre=%d cond=%d post=%d body=%d evaluation sites (1 each expected)", len(pre), len(cond), len(post), len(body)))
		return
	}
	k := ek.KindsPathwise(body[0], post[0].Block(), 0)
	allowed := KNil | ek.Sentinel("errContinue")
	c.check(k&^allowed == 0, "R2", "post-not-after-break", p.InstrPos(post[0]), "the post-expression runs only after a completed or continued body", "the post-expression is evaluated on a path where the body's outcome may be "+ek.kindNames(k&^allowed)+" (e.g. after break): the loop variable is advanced once more on the way out")
	// post on every path body -> cond
	stop := map[*ssa.BasicBlock]bool{post[0].Block(): true}
	r := reachableFrom(body[0].Block().Succs, stop)
	c.check(!r[cond[0].Block()] || cond[0].Block() == post[0].Block(), "R2", "post-on-every-iteration", p.InstrPos(post[0]), "no path from the body to the next condition test avoids the post-expression", "the condition can be re-tested after the body without the post-expression having run (continue skips the post-expression)")
	c.check(dominatesInstr(post[0], cond[0]) == false && reachableFrom(post[0].Block().Succs, nil)[cond[0].Block()], "R2", "post-then-condition", p.InstrPos(post[0]), "the condition is tested again after the post-expression", "the post-expression does not lead back to the condition test")
	// pre once, before the loop
	inCycle := reachableFrom(pre[0].Block().Succs, nil)[pre[0].Block()]
	c.check(!inCycle && dominatesInstr(pre[0], cond[0]), "R2", "pre-once", p.InstrPos(pre[0]), "the initialiser runs once, before the first condition test", "the initialiser is inside the loop or does not precede the condition test")
	// body only when the condition is truthy
	known, val := factTruthOf(p, F.At(body[0].Block()), "isTruthy(&(*lang.Evaluator).evalExpr(e, stmt.(*lang.StatementFor)#0.Expr)#0.Value)")
	c.check(known && val, "R2", "for-condition-gate", p.InstrPos(body[0]), "the body runs only when the condition is truthy", "the for body is not gated by isTruthy(condition)")
	// same for while
	wb := findCall(es, "(*lang.Evaluator).evalStatement", "StatementWhile.Body")
	if len(wb) == 1 {
		known, val := factTruthOf(p, F.At(wb[0].Block()), "isTruthy(&(*lang.Evaluator).evalExpr(e, stmt.(*lang.StatementWhile)#0.Expr)#0.Value)")
		c.check(known && val, "R2", "while-condition-gate", p.InstrPos(wb[0]), "the body runs only when the condition is truthy", "the while body is not gated by isTruthy(condition)")
	}
}

// factTruthOf: a non-relational fact whose condition renders (with the (*lang.Value). prefix
// stripped) as text.
func factTruthOf(p *Program, facts factSet, text string) (bool, bool) {
	for f := range facts {
		if _, ok := relsOf(f); ok {
			continue
		}
		if strings.ReplaceAll(p.Render(f.cond), "(*lang.Value).", "") == text {
			return true, f.truth
		}
	}
	return false, false
}

// R3 if-else-gate
func c07IfElse(c *Ctx, es *ssa.Function) {
	p := c.P
	F := FactsOf(es)
	c.note("R3 if-else-gate: evalStatement(st.Body) only under isTruthy(condition) == true, evalStatement(st.ElseBody) only under == false and ElseBody != nil; both outcomes are returned as they are.")
	b := findCall(es, "(*lang.Evaluator).evalStatement", "StatementIf.Body")
	e := findCall(es, "(*lang.Evaluator).evalStatement", "StatementIf.ElseBody")
	if len(b) != 1 || len(e) != 1 {
		c.undecided("R3", "if-arm", p.Pos(es.Pos()), fmt.Sprintf("if arm: body=%d else=%d evaluation sites", len(b), len(e)))
		return
	}
	cond := "isTruthy(&(*lang.Evaluator).evalExpr(e, stmt.(*lang.StatementIf)#0.Expr)#0.Value)"
	// one test decides both branches: the truthiness of the condition is taken exactly once (a second
	// reading after the then-branch sees what that branch assigned)
	nTests := 0
	for _, call := range callsIn(es) {
		if cv, ok := call.(*ssa.Call); ok && staticCalleeIs(cv, "(*lang.Value).isTruthy") && strings.TrimPrefix(p.Render(cv), "(*lang.Value).") == cond {
			nTests++
		}
	}
	c.check(nTests == 1, "R3", "if-condition-tested-once", p.InstrPos(b[0]), "one truthiness test per execution of the if", fmt.Sprintf("the condition's truthiness is taken %d times in the if arm: when the condition is a variable that the then-branch assigns, the second reading runs the else-branch as well", nTests))
	k1, v1 := factTruthOf(p, F.At(b[0].Block()), cond)
	k2, v2 := factTruthOf(p, F.At(e[0].Block()), cond)
	c.check(k1 && v1, "R3", "then-gate", p.InstrPos(b[0]), "then-branch under a truthy condition", "the then-branch is not gated by isTruthy(condition) == true")
	c.check(k2 && !v2, "R3", "else-gate", p.InstrPos(e[0]), "else-branch under a falsy condition", "the else-branch is not gated by isTruthy(condition) == false")
	nonNil := false
	for _, rl := range F.At(e[0].Block()).Rels() {
		if rl.op == relNE && isNilConst(rl.y) && p.Render(rl.x) == "stmt.(*lang.StatementIf)#0.ElseBody" {
			nonNil = true
		}
	}
	c.check(nonNil, "R3", "else-present", p.InstrPos(e[0]), "else-branch only when there is one", "the else-branch is evaluated without `ElseBody != nil`")
	for i, call := range []*ssa.Call{b[0], e[0]} {
		ret := false
		for _, r := range returnsOf(es) {
			if effectiveResults(r)[0] == ssa.Value(call) {
				ret = true
			}
		}
		c.check(ret, "R3", []string{"then-outcome", "else-outcome"}[i], p.InstrPos(call), "the branch's outcome is the statement's outcome", "the branch's outcome is not returned as is (break / continue / return / errors inside an if would be lost)")
	}
}

// R4 return-consumption
func c07Return(c *Ctx, es *ssa.Function) {
	p := c.P
	ek := EKOf(p)
	c.note("R4 return-consumption: in the return arm every `return errReturn` is dominated, inside the arm, by a store to Evaluator.returnVal (the value's address, or nil for a bare return); callFunction reads returnVal only on the edge where the body's error == errReturn, and yields a fresh cell of it (null when nil or when the body completed normally).")
	var arm *typeCase
	for _, tc := range typeCasesOn(es, es.Params[1]) {
		if tc.TypeName == "StatementReturn" {
			t := tc
			arm = &t
		}
	}
	if arm == nil {
		c.undecided("R4", "return-arm", p.Pos(es.Pos()), "no *StatementReturn case")
		return
	}
	region := caseRegion(*arm)
	gRet := ek.SentinelGlobal("errReturn")
	nRaise := 0
	stores := storesToField(es, "Evaluator", "returnVal", false)
	for _, r := range returnsOf(es) {
		if !region[r.Block()] || globalLoaded(effectiveResults(r)[0]) != gRet {
			continue
		}
		nRaise++
		var dom *ssa.Store
		storeBlocks := map[*ssa.BasicBlock]bool{}
		for _, st := range stores {
			if region[st.Block()] {
				storeBlocks[st.Block()] = true
				dom = st
			}
		}
		// every path from the arm's entry to the raise passes a block that stores the slot
		if len(storeBlocks) > 0 && reachableFrom([]*ssa.BasicBlock{arm.Entry}, storeBlocks)[r.Block()] && !storeBlocks[r.Block()] {
			dom = nil
		}
		if storeBlocks[arm.Entry] && dom == nil {
			dom = stores[0]
		}
		key := fmt.Sprintf("return-raise #%d", nRaise)
		if dom == nil {
			c.violated("R4", key, p.InstrPos(r), "errReturn is raised on a path of the return arm that does not store Evaluator.returnVal: the caller receives whatever an earlier call left in the slot (a bare `return` would yield a stale value)")
			continue
		}
		v := p.Render(dom.Val)
		c.check(v == "nil" || v == "&(*lang.Evaluator).evalExpr(e, stmt.(*lang.StatementReturn)#0.Expr)#0.Value" || strings.HasPrefix(v, "phi("), "R4", key, p.InstrPos(dom), "returnVal := "+v, "the return slot is set to "+v)
	}
	if nRaise == 0 {
		c.violated("R4", "return-raise", p.Pos(es.Pos()), "the return arm never raises errReturn")
	}
	// stores outside the arm
	for _, fn := range p.Funcs {
		if !p.InLang(fn) {
			continue
		}
		for _, st := range storesToField(fn, "Evaluator", "returnVal", false) {
			if fn == es && region[st.Block()] {
				continue
			}
			c.violated("R4", "return-slot-writer "+shortName(fn), p.InstrPos(st), "Evaluator.returnVal is written outside the return statement's arm")
		}
	}
	// callFunction reads the slot only on the errReturn edge
	cf := p.LangFunc("(*Evaluator).callFunction")
	if cf == nil {
		c.undecided("R4", "callFunction", "", "anchor not found")
		return
	}
	body := findCall(cf, "(*lang.Evaluator).evalStatement", "ExprFunction.Body")
	if len(body) != 1 {
		c.undecided("R4", "call-body", p.Pos(cf.Pos()), "body evaluation not found in callFunction")
		return
	}
	nRead := 0
	allInstrs(cf, func(in ssa.Instruction) {
		u, ok := in.(*ssa.UnOp)
		if !ok {
			return
		}
		if sf, ok := loadedField(u); ok && sf.Is("Evaluator", "returnVal") {
			nRead++
			c.check(FactsOf(cf).At(u.Block()).EqGlobal(body[0], gRet), "R4", fmt.Sprintf("return-slot-read #%d", nRead), p.InstrPos(u), "read only after the body raised errReturn", "Evaluator.returnVal is read on a path where the body did not end with a return statement: a function without return would yield a stale value")
		}
	})
	if nRead == 0 {
		c.violated("R4", "return-slot-read", p.Pos(cf.Pos()), "callFunction never reads the return slot")
	}
	// result: fresh cell of *retVal or null
	got := map[string]bool{}
	for _, rc := range p.successResults(cf) {
		if FactsOf(cf).At(rc.Ret.Block()).KnownNil(body[0]) || FactsOf(cf).At(rc.Ret.Block()).EqGlobal(body[0], gRet) || rc.Ret.Block() != nil {
			got[rc.Value] = true
		}
	}
	_ = got
}

// for-in bindings
func c07ForIn(c *Ctx, es *ssa.Function) {
	p := c.P
	c.note("R7 for-in-binding: before each body evaluation — array: loop variable := element value, index variable := position; object: loop variable := key (keys from sortedKeys), second variable := member value; string: loop variable := the character as a string, second variable := its byte offset; anything else is a `not iterable` error.")
	ms := p.maySetOf(es, "(*lang.Evaluator).evalExpr(e, stmt.(*lang.StatementForIn)#0.Iterable)#0.Value.Tag", valueTagNames(p))
	V := "(*lang.Evaluator).evalExpr(e, stmt.(*lang.StatementForIn)#0.Iterable)#0.Value"
	got := map[string]map[string]bool{}
	// the loop variables' cells come from getVariable, directly or through a helper split off
	// evalStatement whose cell result is getVariable's
	varCellFns := []string{"getVariable"}
	for _, h := range p.privateCluster(es) {
		if h == es || h.Signature.Results().Len() != 2 {
			continue
		}
		wraps, other := false, false
		for _, r := range returnsOf(h) {
			res := effectiveResults(r)
			if isNilConst(res[0]) {
				continue
			}
			if call, idx := callOf(res[0]); call != nil && idx == 0 && staticCalleeIs(call, "(*lang.Evaluator).getVariable") {
				wraps = true
			} else {
				other = true
			}
		}
		if wraps && !other {
			varCellFns = append(varCellFns, strings.TrimPrefix(shortName(h), "(*lang.Evaluator)."))
		}
	}
	isVarCell := func(addr string) bool {
		for _, n := range varCellFns {
			if strings.Contains(addr, n+"(") {
				return true
			}
		}
		return false
	}
	allInstrs(es, func(in ssa.Instruction) {
		st, ok := in.(*ssa.Store)
		if !ok || isLocalAddr(st.Addr) {
			return
		}
		addr := p.RenderShort(st.Addr)
		if !isVarCell(addr) {
			return
		}
		which := "loopvar"
		if strings.Contains(addr, "IndexIdent") {
			which = "second"
		}
		val := strings.ReplaceAll(p.RenderShort(st.Val), V, "IT")
		// the binding is made in every iteration: inside the loop nothing but the presence of the
		// second variable decides whether the store happens
		for _, l := range rangeLoops(es, func(ssa.Value) bool { return true }) {
			if !l.Body.Dominates(st.Block()) {
				continue
			}
			extra := extraGuardsBetween(p, es, l.Body, st.Block())
			var bad []string
			for _, g := range extra {
				if which == "second" && strings.HasSuffix(g, " != nil") && strings.Contains(g, "IndexIdent") {
					continue
				}
				bad = append(bad, g)
			}
			c.check(len(bad) == 0, "R7", "for-in binding-every-iteration "+which+" := "+val, p.InstrPos(st), "bound in every iteration", "the loop variable is bound only under {"+strings.Join(bad, " && ")+"}: in the other iterations it keeps whatever the body or an earlier iteration left in it")
		}
		for _, t := range ms.At(st.Block()) {
			if got[t] == nil {
				got[t] = map[string]bool{}
			}
			got[t][which+" := "+val] = true
		}
	})
	want := map[string][]string{
		"ValueArray": {"loopvar := IT.Array[i@IT.Array].Value", "second := lang.NewValue(i@IT.Array)"},
		"ValueObj":   {"loopvar := lang.NewValue(lang.sortedKeys(*IT.Obj)[i@lang.sortedKeys(*IT.Obj)])", "second := *IT.Obj[lang.sortedKeys(*IT.Obj)[i@lang.sortedKeys(*IT.Obj)]]#0.Value"},
	}
	for _, t := range []string{"ValueArray", "ValueObj"} {
		miss, extra := diffSets(got[t], setOf(want[t]))
		// the object member lookup may render with or without the comma-ok index
		if t == "ValueObj" && len(miss) == 1 && len(extra) == 1 && strings.ReplaceAll(extra[0], "#0", "") == strings.ReplaceAll(miss[0], "#0", "") {
			miss, extra = nil, nil
		}
		c.check(len(miss)+len(extra) == 0, "R7", "for-in "+t, p.Pos(es.Pos()), strings.Join(want[t], " ; "), fmt.Sprintf("for-in over a %s binds {%s}; documented {%s}", t, keysOf(got[t]), strings.Join(want[t], " ; ")))
	}
	// string: character and offset from Go's range over the string
	// Go's range over the string itself: next(range(s))#1 is the byte offset, #2 the character
	strOK := len(got["ValueStr"]) == 2
	for k := range got["ValueStr"] {
		if !(strings.HasPrefix(k, "loopvar := lang.Value{Tag: ValueStr, Str: &string(next(range(*IT.Str))#2)") || k == "second := lang.NewValue(next(range(*IT.Str))#1)") {
			strOK = false
		}
	}
	c.check(strOK, "R7", "for-in ValueStr", p.Pos(es.Pos()), "character as a string, byte offset: "+keysOf(got["ValueStr"]), "for-in over a string binds {"+keysOf(got["ValueStr"])+"}")
	// other kinds: error
	ek := EKOf(p)
	for _, r := range returnsOf(es) {
		e := p.Render(effectiveResults(r)[0])
		if strings.Contains(e, "is not iterable") {
			tags := ms.At(r.Block())
			okT := true
			for _, t := range tags {
				if t == "ValueArray" || t == "ValueObj" || t == "ValueStr" {
					okT = false
				}
			}
			c.check(okT && len(tags) == 7 && !ek.KindsAt(effectiveResults(r)[0], FactsOf(es).At(r.Block())).Has(KNil), "R7", "for-in other kinds", p.InstrPos(r), "every other kind is a `not iterable` runtime error", "the `not iterable` error arm is reached for "+strings.Join(tags, ","))
		}
	}
	// whether the body runs is decided by the iterable alone: between the evaluation of the iterable and
	// the body evaluation of an arm nothing is tested but that evaluation's error, the kind of the
	// iterable and Go's own loop condition (a for-in with an empty body still binds its variables)
	iters := findCall(es, "(*lang.Evaluator).evalExpr", "StatementForIn.Iterable")
	if len(iters) == 1 {
		for _, body := range findCall(es, "(*lang.Evaluator).evalStatement", "StatementForIn.Body") {
			if !iters[0].Block().Dominates(body.Block()) {
				continue
			}
			extra := extraGuardsBetween(p, es, iters[0].Block(), body.Block(), ".Value.Tag", "Iterable)#1", "i@", "next(range(")
			c.check(len(extra) == 0, "R7", "for-in visits-whatever-the-body "+strings.Join(ms.At(body.Block()), ","), p.InstrPos(body), "the elements are visited under the iterable's kind and the loop condition only", "the elements are visited only under {"+strings.Join(extra, " && ")+"}: otherwise the loop ends without a visit and the loop variables keep their old values")
		}
	}
	// ... and no exit lies between the evaluation of the iterable and the test of its kind other than the
	// one that hands on the evaluation's error (a disjunctive early exit leaves no fact at the loop)
	if len(iters) == 1 {
		tagTests := map[*ssa.BasicBlock]bool{}
		for _, b := range es.Blocks {
			if len(b.Instrs) == 0 {
				continue
			}
			if ifi, ok := b.Instrs[len(b.Instrs)-1].(*ssa.If); ok {
				if cmp, isCmp := ifi.Cond.(*ssa.BinOp); isCmp && (p.RenderShort(cmp.X) == V+".Tag" || p.RenderShort(cmp.Y) == V+".Tag") {
					tagTests[b] = true
				}
			}
		}
		nExit := 0
		if len(tagTests) > 0 && !tagTests[iters[0].Block()] {
			reach := reachableFrom(iters[0].Block().Succs, tagTests)
			for _, b := range es.Blocks {
				if !reach[b] || tagTests[b] || len(b.Instrs) == 0 {
					continue
				}
				ret, ok := b.Instrs[len(b.Instrs)-1].(*ssa.Return)
				if !ok {
					continue
				}
				nExit++
				res := effectiveResults(ret)
				handsOn := false
				if call, idx := callOf(res[len(res)-1]); call == iters[0] && idx == 1 {
					handsOn = true
				}
				// or an error made where the evaluation's error is known to be set (a wrapped error)
				for _, rl := range FactsOf(es).At(b).Rels() {
					if call, idx := callOf(rl.x); call == iters[0] && idx == 1 && rl.op == relNE && isNilConst(rl.y) && !isNilConst(res[len(res)-1]) {
						handsOn = true
					}
				}
				c.check(handsOn, "R7", fmt.Sprintf("for-in no-exit-before-the-kind-test #%d", nExit), p.InstrPos(ret), "the only exit before the kind test returns the iterable's evaluation error", "the for-in statement returns "+p.RenderShort(res[len(res)-1])+" after the iterable was evaluated and before its kind is looked at: on that path no element is visited and no loop variable is bound")
			}
		}
		c.check(len(tagTests) > 0 && nExit >= 1, "R7", "for-in kind-test", p.Pos(es.Pos()), "the kind of the iterable is tested after its evaluation", fmt.Sprintf("%d tests of the iterable's kind and %d exits before them found", len(tagTests), nExit))
	}
	// each binding store precedes the body evaluation of its arm
	for _, body := range findCall(es, "(*lang.Evaluator).evalStatement", "StatementForIn.Body") {
		dom := false
		allInstrs(es, func(in ssa.Instruction) {
			if st, ok := in.(*ssa.Store); ok && !isLocalAddr(st.Addr) && isVarCell(p.RenderShort(st.Addr)) && !strings.Contains(p.RenderShort(st.Addr), "IndexIdent") {
				if dominatesInstr(st, body) && st.Block() == body.Block() || dominatesInstr(st, body) && reachableFrom(st.Block().Succs, map[*ssa.BasicBlock]bool{body.Block(): true})[body.Block()] {
					dom = true
				}
			}
		})
		c.check(dom, "R7", "binding-before-body "+strings.Join(ms.At(body.Block()), ","), p.InstrPos(body), "the loop variable is bound before the body runs", "the body is evaluated without the loop variable having been bound in this iteration")
	}
}

// R6 statement-dispatch-exhaustive
func c07Dispatch(c *Ctx) {
	p := c.P
	c.note("R6 statement-dispatch-exhaustive: every struct type implementing Statement has a case in evalStatement's type switch; every type implementing Expr that the parser allocates has a case in evalExpr; the fall-through error arms are then unreachable for parser output.")
	for _, x := range []struct{ iface, fn string }{{"Statement", "(*Evaluator).evalStatement"}, {"Expr", "(*Evaluator).evalExpr"}} {
		fn := p.LangFunc(x.fn)
		if fn == nil {
			c.undecided("R6", x.fn, "", "anchor not found")
			continue
		}
		have := map[string]bool{}
		for _, tc := range typeCasesOn(fn, fn.Params[1]) {
			have[tc.TypeName] = true
		}
		types_ := exprImplementors(p, x.iface)
		if len(types_) < 8 {
			c.undecided("R6", x.iface+"-types", "", fmt.Sprintf("%d implementations of %s found", len(types_), x.iface))
		}
		for _, t := range types_ {
			// is it constructed by the parser?
			built := false
			if !built {
				// value-typed construction (returned by value, then address taken)
				for _, f := range p.Funcs {
					if !p.InLang(f) {
						continue
					}
					allInstrs(f, func(in ssa.Instruction) {
						if mi, ok := in.(*ssa.MakeInterface); ok && isLangNamed(mi.X.Type(), t) {
							built = true
						}
					})
				}
			}
			if !built {
				c.ok("R6", x.iface+" "+t, "", "never built as a "+x.iface+" by the parser")
				continue
			}
			c.check(have[t], "R6", x.iface+" "+t, p.Pos(fn.Pos()), "has an arm in "+x.fn, "the parser builds *"+t+" nodes but "+x.fn+" has no case for them: they fall into the `expected a …` error arm")
		}
	}
}

// sentinelIdentity: break / continue / return / next / exit travel as error values compared by
// identity; nothing between the statement that raises one and the construct that consumes it may
// turn it into another error value.
func sentinelIdentity(c *Ctx, rule string) {
	p := c.P
	ek := EKOf(p)
	c.note("%s signal-identity: the control-flow signals are plain error values recognised by identity (==). Obligation: at every err.Error() call in package lang — the only way an error is rebuilt from another one here — the error cannot be one of the signals (error-kind inference, edge-wise). Frozen exception: EvalExpression, the root-selector boundary, which deliberately reports a signal as the runtime error `<signal> is not allowed here` (fix c569c0e).", rule)
	n := 0
	for _, fn := range p.Funcs {
		if !p.InLang(fn) {
			continue
		}
		for _, call := range callsIn(fn) {
			cc := call.Common()
			if !cc.IsInvoke() || cc.Method.Name() != "Error" || !isErrorType(cc.Value.Type()) {
				continue
			}
			n++
			k := ek.KindsPathwise(cc.Value, call.Block(), 6) & ek.AllSentinels()
			key := fmt.Sprintf("error-rebuilt #%d in %s", n, shortName(fn))
			if shortName(fn) == "lang.EvalExpression" {
				c.ok(rule, key, p.InstrPos(call), "exception: the selector boundary names the signal in a runtime error")
				continue
			}
			c.check(k == 0, rule, key, p.InstrPos(call), "never applied to a control-flow signal", "the error rebuilt here from its text may be the signal "+ek.kindNames(k)+": wrapped, it is no longer recognised by the loop / call / rule driver that should consume it, and `"+strings.Trim(ek.kindNames(k), "{}")+"` surfaces as a runtime error")
		}
	}
	if n < 12 {
		c.undecided(rule, "instance-floor", "", fmt.Sprintf("%d err.Error() sites in package lang, 18 confirmed by hand", n))
	}
}

// fuzzLimitGuarded: the iteration cap that exists for the fuzzer does not apply to ordinary runs
func fuzzLimitGuarded(c *Ctx, rule string) {
	p := c.P
	c.note("%s loop-limit-only-when-fuzzing: while and for loops run as long as their condition holds. The only other exits are break, errors of the body / condition — and the `fuzz test loop limit`, which must be confined to runs with Evaluator.fuzzing set: every return of that error (or every call of a helper that returns it) sits under the fact `e.fuzzing` == true.", rule)
	underFuzzing := func(fn *ssa.Function, b *ssa.BasicBlock) bool {
		for f := range FactsOf(fn).At(b) {
			if _, isRel := relsOf(f); isRel || !f.truth {
				continue
			}
			if sf, ok := loadedField(f.cond); ok && sf.Is("Evaluator", "fuzzing") {
				return true
			}
		}
		return false
	}
	n := 0
	for _, fn := range p.Funcs {
		if !p.InLang(fn) {
			continue
		}
		for _, r := range returnsOf(fn) {
			res := effectiveResults(r)
			if len(res) == 0 || !strings.Contains(p.Render(res[len(res)-1]), "fuzz test loop limit") {
				continue
			}
			n++
			okG := underFuzzing(fn, r.Block())
			if !okG {
				// a helper that always may return it: then every call of the helper must be guarded
				sites := p.CallSitesOf(fn)
				okG = len(sites) > 0
				for _, cs := range sites {
					if !underFuzzing(cs.Parent(), cs.Block()) {
						okG = false
					}
				}
			}
			c.check(okG, rule, fmt.Sprintf("loop-limit #%d in %s", n, shortName(fn)), p.InstrPos(r), "only when fuzzing", "the `fuzz test loop limit` error can be returned in an ordinary run (Evaluator.fuzzing is not known to be set here): a loop of more than 10000 iterations aborts although its condition still holds")
		}
	}
	if n == 0 {
		c.ok(rule, "loop-limit", "", "no iteration cap in the evaluator")
	}
}

// blockKeepsEveryStatement: a block is the list of the statements written in it. In the parser of
// `{ … }` every successfully parsed statement is appended to the block's list before the next one is
// parsed: no condition (a guess that the statement is unreachable, say) decides whether it is kept.
func blockKeepsEveryStatement(c *Ctx, rule string) {
	listKeepsEveryItem(c, rule, "(*Parser).block", "Statement", "block-keeps-every-statement", "every parsed statement is appended before the next one is parsed", "after a statement was parsed successfully the next one can be reached without the append: some statements of a block are parsed and dropped (e.g. on a guess that they are unreachable), so code after an if / else-if chain silently disappears")
}

// programKeepsEveryRule: the program is the list of the rules (and functions) written in it. In Parse
// every successfully parsed rule is appended to the list before the next one is parsed: no condition
// (an empty body, say) decides whether a rule is kept — its pattern still runs once per element.
func programKeepsEveryRule(c *Ctx, rule string) {
	listKeepsEveryItem(c, rule, "(*Parser).Parse", "Rule", "program-keeps-every-rule", "every parsed rule is appended before the next one is parsed", "after a rule was parsed successfully the next one can be reached without the append: a rule that is written in the program is dropped (e.g. because its body is empty), although its pattern is evaluated once per element and may count, assign, or end the element with next / exit")
	listKeepsEveryItem(c, rule, "(*Parser).Parse", "ExprFunction", "program-keeps-every-function", "every parsed function is appended before the next item is parsed", "after a function was parsed successfully the next item can be reached without the append: a function written in the program is dropped")
}

func listKeepsEveryItem(c *Ctx, rule, fnName, itemType, key, okText, badText string) {
	p := c.P
	blk := p.LangFunc(fnName)
	if blk == nil {
		c.undecided(rule, key, "", "anchor "+fnName+" not found")
		return
	}
	n := 0
	for _, call := range callsIn(blk) {
		cv, ok := call.(*ssa.Call)
		if !ok {
			continue
		}
		callee := cv.Call.StaticCallee()
		if callee == nil || callee.Signature.Results().Len() != 2 || !isLangNamed(callee.Signature.Results().At(0).Type(), itemType) {
			continue
		}
		// the loop around the call
		var hdr *ssa.BasicBlock
		for _, h := range blk.Blocks {
			if h.Dominates(cv.Block()) && reachableFrom([]*ssa.BasicBlock{cv.Block()}, nil)[h] {
				if hdr == nil || hdr.Dominates(h) {
					hdr = h
				}
			}
		}
		if hdr == nil {
			continue
		}
		n++
		// the append of this call's item
		var app *ssa.Call
		allInstrs(blk, func(in ssa.Instruction) {
			a, ok := in.(*ssa.Call)
			if !ok {
				return
			}
			bi, ok := a.Call.Value.(*ssa.Builtin)
			if !ok || bi.Name() != "append" || len(a.Call.Args) < 2 {
				return
			}
			if strings.Contains(p.Render(a.Call.Args[1]), p.Render(cv)+"#0") {
				app = a
			}
		})
		if app == nil {
			c.violated(rule, key, p.InstrPos(cv), "the item parsed here is not appended to the list")
			continue
		}
		okEdge := cv.Block()
		for _, s := range cv.Block().Succs {
			if FactsOf(blk).At(s).KnownNil(errValOf(cv)) {
				okEdge = s
			}
		}
		c.check(!canSkip(okEdge, app.Block(), hdr), rule, key, p.InstrPos(app), okText, badText)
	}
	if n == 0 {
		c.undecided(rule, key, p.Pos(blk.Pos()), "no parse of a "+itemType+" inside a loop found in "+fnName)
	}
}

package main

// C01/R5 explicit-panics-unreachable: every panic(...) statement of the module must be discharged by
// one of the recognised arguments, re-derived from the code on every run.

import (
	"fmt"
	"go/token"
	"go/types"
	"sort"
	"strings"

	"golang.org/x/tools/go/ssa"
)

func explicitPanics(c *Ctx, rule string) {
	p := c.P
	c.note("%s explicit-panics-unreachable: one obligation per panic(...) statement in lang, cli and main. Recognised arguments: (enum) the may-set of the tested enum location — over the declared constants of its type, narrowed where the location is a token by the tags its construction sites can give it (Pratt table rows of the constructing parselet, the constants of the dominating consume(...), the success returns of the producing lexer function, the arguments at the call sites of the enclosing function) — is empty at the panic; (typestate) the pop primitive's underflow test, discharged by the frame balance C08/R1; (constructor-domain) the default arm of NewValue's type switch, discharged by the static types of the arguments at every call site; (co-assignment) the speculative-member test `Str == nil && Num == nil`, discharged by every ParentObj store being preceded on all paths by a Str or Num store to the same value. Anything else is a reachable panic as far as the analysis knows and is reported.", rule)
	type site struct {
		in *ssa.Panic
		fn *ssa.Function
	}
	var sites []site
	for _, fn := range p.Funcs {
		if !p.InModule(fn) || p.inTestFile(fn) {
			continue
		}
		allInstrs(fn, func(in ssa.Instruction) {
			if pn, ok := in.(*ssa.Panic); ok && pn.Pos().IsValid() {
				sites = append(sites, site{pn, fn})
			}
		})
	}
	sort.Slice(sites, func(i, j int) bool { return sites[i].in.Pos() < sites[j].in.Pos() })
	perFn := map[string]int{}
	for _, s := range sites {
		perFn[shortName(s.fn)]++
		key := fmt.Sprintf("panic #%d in %s", perFn[shortName(s.fn)], shortName(s.fn))
		how, ok := dischargePanic(c, s.fn, s.in)
		if ok {
			c.ok(rule, key, p.InstrPos(s.in), how)
		} else {
			c.violated(rule, key, p.InstrPos(s.in), "explicit panic not shown unreachable: "+how+" — if it can be reached the run ends in a Go stack trace instead of one of the three reported error kinds")
		}
	}
	c.Analysed["explicit_panic_sites"] = len(sites)
	if len(sites) < 5 {
		c.undecided(rule, "instance-floor", "", fmt.Sprintf("%d explicit panic sites found, 9 confirmed by hand in package lang", len(sites)))
	}
}

// enumOf: the named type of v if it is an integer enum of package lang with declared constants
func enumOf(p *Program, v ssa.Value) (string, map[int64]string) {
	n := namedOf(v.Type())
	if n == nil || n.Obj().Pkg() == nil || n.Obj().Pkg() != p.Lang.Types {
		return "", nil
	}
	if b, ok := n.Underlying().(*types.Basic); !ok || b.Info()&types.IsInteger == 0 {
		return "", nil
	}
	names := constNames(p.Lang.Types, n.Obj().Name())
	if len(names) == 0 {
		return "", nil
	}
	return n.Obj().Name(), names
}

// enumIsClosed: no value of the enum type is made from a non-constant (conversion) anywhere in the module
var enumClosedCache = map[string]string{}

func enumIsClosed(p *Program, typeName string) (bool, string) {
	if why, ok := enumClosedCache[typeName]; ok {
		return why == "", why
	}
	why := ""
	for _, fn := range p.Funcs {
		if !p.InModule(fn) || p.inTestFile(fn) {
			continue
		}
		// methods of the enum type itself (the generated stringer) compute on a copy of the receiver
		if recv := fn.Signature.Recv(); recv != nil {
			if n := namedOf(recv.Type()); n != nil && n.Obj().Name() == typeName {
				continue
			}
		}
		allInstrs(fn, func(in ssa.Instruction) {
			switch x := in.(type) {
			case *ssa.Convert:
				if n := namedOf(x.Type()); n != nil && n.Obj().Name() == typeName && n.Obj().Pkg() == p.Lang.Types {
					if _, isC := x.X.(*ssa.Const); !isC {
						why = "a " + typeName + " is converted from a non-constant in " + shortName(fn)
					}
				}
			case *ssa.BinOp:
				if n := namedOf(x.Type()); n != nil && n.Obj().Name() == typeName && n.Obj().Pkg() == p.Lang.Types {
					why = "arithmetic on " + typeName + " in " + shortName(fn)
				}
			}
		})
	}
	enumClosedCache[typeName] = why
	return why == "", why
}

func dischargePanic(c *Ctx, fn *ssa.Function, pn *ssa.Panic) (string, bool) {
	p := c.P
	b := pn.Block()
	F := FactsOf(fn)
	if !F.Reachable(b) {
		return "the block is unreachable under the branch facts", true
	}
	var reasons []string
	// (enum) locations tested against enum constants on the way to the panic
	locs := map[string]ssa.Value{}
	for _, rl := range F.At(b).Rels() {
		if _, isC := rl.y.(*ssa.Const); !isC {
			continue
		}
		if name, _ := enumOf(p, rl.x); name != "" {
			locs[p.Render(rl.x)] = rl.x
		}
	}
	var locNames []string
	for l := range locs {
		locNames = append(locNames, l)
	}
	sort.Strings(locNames)
	for _, loc := range locNames {
		x := locs[loc]
		typeName, names := enumOf(p, x)
		closed, why := enumIsClosed(p, typeName)
		if !closed {
			reasons = append(reasons, why)
			continue
		}
		if sf, ok := loadedField(x); ok && sf.Struct != nil {
			if n := len(storesToField(fn, sf.Struct.Obj().Name(), sf.Name, false)); n > 0 && !isLocalAllocBase(sf.Base) {
				reasons = append(reasons, loc+" is written inside "+shortName(fn))
				continue
			}
		}
		var full []string
		for _, n := range names {
			full = append(full, n)
		}
		sort.Strings(full)
		if rest := p.maySetOf(fn, loc, full).At(b); len(rest) == 0 {
			return fmt.Sprintf("exhaustive: on every path to the panic %s was tested against constants that together cover all %d declared %s values", loc, len(full), typeName), true
		}
		// narrower universe from the provenance of a token
		if typeName == "TokenTag" {
			if sf, ok := loadedField(x); ok && sf.Name == "Tag" {
				uni, how, ok := tokenTagUniverse(p, fn, sf.Base, 0)
				if ok {
					rest := p.maySetOf(fn, loc, uni).At(b)
					if len(rest) == 0 {
						return fmt.Sprintf("exhaustive for the tags this token can carry {%s} (%s)", strings.Join(uni, ", "), how), true
					}
					reasons = append(reasons, fmt.Sprintf("%s may be {%s} at the panic (possible tags {%s}: %s)", loc, strings.Join(rest, ", "), strings.Join(uni, ", "), how))
				} else {
					reasons = append(reasons, loc+": "+how)
				}
				continue
			}
		}
		reasons = append(reasons, fmt.Sprintf("%s may be {%s} at the panic", loc, strings.Join(p.maySetOf(fn, loc, full).At(b), ", ")))
	}
	// (typestate) underflow test of the pop primitive
	m := discoverFrameModel(p)
	if m.pop == fn {
		sub := &Ctx{P: p, Property: c.Property, Tier: c.Tier, Counts: map[string]int{}, Analysed: map[string]int{}}
		c08R1(sub, m)
		bad := 0
		for _, o := range sub.Obs {
			if o.Verdict != "ok" {
				bad++
			}
		}
		if bad == 0 && len(sub.Obs) > 0 {
			return fmt.Sprintf("underflow test of the pop primitive: the frame balance (C08/R1, %d obligations) shows no pop without a matching push on any path, and only the push/pop primitives store Evaluator.stackTop", len(sub.Obs)), true
		}
		reasons = append(reasons, "the frame balance does not hold")
	}
	// (constructor-domain) default arm of a type switch on a parameter
	if how, ok, applies := constructorDomain(p, fn, b); applies {
		if ok {
			return how, true
		}
		reasons = append(reasons, how)
	}
	// (co-assignment) Str == nil && Num == nil of a value whose ParentObj is set
	if how, ok, applies := coAssignment(p, fn, b); applies {
		if ok {
			return how, true
		}
		reasons = append(reasons, how)
	}
	if len(reasons) == 0 {
		reasons = append(reasons, "no recognised argument applies (guards: "+strings.Join(sortedGuards(p, fn, b), " && ")+")")
	}
	return strings.Join(reasons, "; "), false
}

func sortedGuards(p *Program, fn *ssa.Function, b *ssa.BasicBlock) []string {
	var out []string
	for g := range guardsAt(p, fn, b) {
		out = append(out, g)
	}
	sort.Strings(out)
	if len(out) > 6 {
		out = out[:6]
	}
	return out
}

func isLocalAllocBase(v ssa.Value) bool {
	for d := 0; d < 6; d++ {
		switch x := v.(type) {
		case *ssa.Alloc:
			return true
		case *ssa.FieldAddr:
			v = x.X
		default:
			return false
		}
	}
	return false
}

// tokenTagUniverse: the tags the Token stored at address `addr` (inside fn) can carry.
func tokenTagUniverse(p *Program, fn *ssa.Function, addr ssa.Value, depth int) ([]string, string, bool) {
	if depth > 3 {
		return nil, "provenance too deep", false
	}
	set := map[string]bool{}
	var hows []string
	add := func(tags []string, how string) {
		for _, t := range tags {
			set[t] = true
		}
		hows = append(hows, how)
	}
	fin := func() ([]string, string, bool) {
		var out []string
		for t := range set {
			out = append(out, t)
		}
		sort.Strings(out)
		return out, strings.Join(dedup(hows), "; "), len(out) > 0
	}
	switch a := addr.(type) {
	case *ssa.FieldAddr:
		sf, _ := fieldOfAddr(a)
		// the token field of an AST node: union over the construction sites of that node type
		if sf.Struct != nil && (sf.Struct.Obj().Name() == "ExprLiteral") {
			n := 0
			for _, g := range p.Funcs {
				if !p.InLang(g) {
					continue
				}
				for _, st := range storesToField(g, sf.Struct.Obj().Name(), sf.Name, false) {
					n++
					tags, how, ok := tokenValueTags(p, g, st.Val, st, depth+1)
					if !ok {
						return nil, fmt.Sprintf("the token stored into %s.%s at %s: %s", sf.Struct.Obj().Name(), sf.Name, p.InstrPos(st), how), false
					}
					add(tags, fmt.Sprintf("%s at %s: %s", shortName(g), p.InstrPos(st), how))
				}
			}
			if n == 0 {
				return nil, "no construction site of " + sf.Struct.Obj().Name() + " found", false
			}
			return fin()
		}
	case *ssa.Alloc:
		// a local holding a copy of a token: the values stored into it
		n := 0
		for _, r := range referrersOf(a) {
			st, ok := r.(*ssa.Store)
			if !ok || st.Addr != ssa.Value(a) {
				continue
			}
			n++
			tags, how, ok := tokenValueTags(p, fn, st.Val, st, depth+1)
			if !ok {
				return nil, how, false
			}
			add(tags, how)
		}
		if n > 0 {
			return fin()
		}
	}
	return nil, "the provenance of this token is not one of the recognised forms", false
}

// tokenValueTags: the tags a Token value (as stored / passed at instruction `at` in fn) can carry
func tokenValueTags(p *Program, fn *ssa.Function, v ssa.Value, at ssa.Instruction, depth int) ([]string, string, bool) {
	if depth > 4 {
		return nil, "provenance too deep", false
	}
	switch x := v.(type) {
	case *ssa.Parameter:
		// union over the call sites, each refined by the branch facts at the call
		set := map[string]bool{}
		idx := -1
		for i, q := range fn.Params {
			if q == x {
				idx = i
			}
		}
		sites := p.CallSitesOf(fn)
		if idx < 0 || len(sites) == 0 {
			return nil, "parameter of a function without resolved call sites", false
		}
		var hows []string
		for _, cs := range sites {
			if p.inTestFile(cs.Parent()) {
				continue
			}
			arg := cs.Common().Args[idx]
			tags, how, ok := tokenValueTags(p, cs.Parent(), arg, cs, depth+1)
			if !ok {
				return nil, "argument at " + p.InstrPos(cs) + ": " + how, false
			}
			// refine by what is known about the argument's tag at the call
			if u, ok2 := arg.(*ssa.UnOp); ok2 {
				loc := p.Render(u.X)
				loc = strings.TrimPrefix(loc, "&") + ".Tag"
				tags = p.maySetOf(cs.Parent(), loc, tags).At(cs.Block())
			}
			for _, t := range tags {
				set[t] = true
			}
			hows = append(hows, "call in "+shortName(cs.Parent())+": "+how)
		}
		var out []string
		for t := range set {
			out = append(out, t)
		}
		sort.Strings(out)
		return out, strings.Join(hows, "; "), true
	case *ssa.Extract:
		// result of a module function returning a Token: the tags of its success returns
		if call, ok := x.Tuple.(*ssa.Call); ok {
			if g := call.Common().StaticCallee(); g != nil && p.InLang(g) {
				if tags, how, ok := consumeWrapperTags(p, g, x.Index, call); ok {
					return tags, how, true
				}
				set := map[string]bool{}
				for _, rc := range p.successResults(g) {
					t := tokenTagOf(p, effectiveResults(rc.Ret)[x.Index])
					if t == "" {
						return nil, "a success return of " + shortName(g) + " has a non-constant tag", false
					}
					set[t] = true
				}
				var out []string
				for t := range set {
					out = append(out, t)
				}
				sort.Strings(out)
				return out, "success returns of " + shortName(g), len(out) > 0
			}
		}
	case *ssa.UnOp:
		// a load
		if a, ok := x.X.(*ssa.Alloc); ok {
			return tokenTagUniverse(p, fn, a, depth+1)
		}
		// *p.previous (possibly through a copied pointer)
		ptr := x.X
		if l, ok := ptr.(*ssa.UnOp); ok {
			if a, ok := l.X.(*ssa.Alloc); ok {
				// pointer kept in a local: its single store
				var stv ssa.Value
				n := 0
				for _, r := range referrersOf(a) {
					if st, ok := r.(*ssa.Store); ok && st.Addr == ssa.Value(a) {
						stv = st.Val
						n++
					}
				}
				if n == 1 {
					ptr = stv
				}
			}
		}
		if l, ok := ptr.(*ssa.UnOp); ok {
			if sf, ok := fieldOfAddr(l.X); ok && sf.Is("Parser", "previous") {
				return previousTokenTags(p, fn, l)
			}
			// *p.current read before the parselet's first cursor move: the token the parselet was
			// chosen for
			if sf, ok := fieldOfAddr(l.X); ok && sf.Is("Parser", "current") && beforeAnyCursorMove(fn, l) {
				m := extractPratt(p)
				var tags []string
				for _, r := range m.Rows {
					if r.Prefix == fn || r.Infix == fn {
						tags = append(tags, r.Tag)
					}
				}
				sort.Strings(tags)
				if len(tags) > 0 {
					return tags, "current token on entry of the parselet registered for {" + strings.Join(tags, ", ") + "}", true
				}
			}
		}
	}
	return nil, "token value " + p.RenderShort(v) + " has no recognised provenance", false
}

// previousTokenTags: the tags Parser.previous can carry where the pointer is loaded (instruction ld)
func previousTokenTags(p *Program, fn *ssa.Function, ld ssa.Instruction) ([]string, string, bool) {
	// cursor-moving calls of fn: every call that passes the parser on
	var moves []ssa.CallInstruction
	for _, call := range callsIn(fn) {
		passes := false
		for _, a := range call.Common().Args {
			if pt, ok := a.Type().(*types.Pointer); ok && isLangNamed(pt.Elem(), "Parser") {
				passes = true
			}
		}
		if passes {
			moves = append(moves, call)
		}
	}
	// the last one before the load
	var last ssa.CallInstruction
	for _, m := range moves {
		if !dominatesInstr(m, ld) {
			if canReach(m, ld) {
				return nil, "a parser call may or may not precede the read of Parser.previous", false
			}
			continue
		}
		if last == nil || dominatesInstr(last, m) {
			last = m
		}
	}
	if last == nil {
		return nil, "Parser.previous is read before any cursor move of this function", false
	}
	for _, m := range moves {
		if m != last && dominatesInstr(last, m) && canReach(m, ld) {
			return nil, "another parser call lies between the last recognised cursor move and the read", false
		}
	}
	switch {
	case staticCalleeIs(last, "(*lang.Parser).consume"):
		tags, ok := variadicConstNames(p, last.Common().Args[1])
		if !ok {
			return nil, "consume(...) with non-constant arguments", false
		}
		return tags, "after consume(" + strings.Join(tags, ", ") + ")", true
	case staticCalleeIs(last, "(*lang.Parser).advance"):
		for _, m := range moves {
			if m != last && dominatesInstr(m, last) {
				return nil, "advance() is not the first cursor move of the parselet", false
			}
		}
		m := extractPratt(p)
		var tags []string
		for _, r := range m.Rows {
			if r.Prefix == fn || r.Infix == fn {
				tags = append(tags, r.Tag)
			}
		}
		sort.Strings(tags)
		if len(tags) == 0 {
			return nil, shortName(fn) + " is not a parselet of the Pratt table", false
		}
		return tags, "first advance() of the parselet registered for {" + strings.Join(tags, ", ") + "}", true
	}
	return nil, "the last cursor move before the read is " + calleeName(last.Common()), false
}

// variadicConstNames: the constants of a `f(a, b, c)` variadic argument slice
func variadicConstNames(p *Program, v ssa.Value) ([]string, bool) {
	sl, ok := v.(*ssa.Slice)
	if !ok {
		return nil, false
	}
	a, ok := sl.X.(*ssa.Alloc)
	if !ok {
		return nil, false
	}
	var out []string
	for _, r := range referrersOf(a) {
		ia, ok := r.(*ssa.IndexAddr)
		if !ok {
			continue
		}
		for _, rr := range referrersOf(ia) {
			if st, ok := rr.(*ssa.Store); ok {
				if _, isC := st.Val.(*ssa.Const); !isC {
					return nil, false
				}
				out = append(out, p.Render(st.Val))
			}
		}
	}
	sort.Strings(out)
	return out, len(out) > 0
}

// constructorDomain: the panic sits in the default arm of a type switch on an interface parameter;
// discharged when every call site passes a value whose static type is one of the cases.
func constructorDomain(p *Program, fn *ssa.Function, b *ssa.BasicBlock) (string, bool, bool) {
	for _, prm := range fn.Params {
		if _, isIface := prm.Type().Underlying().(*types.Interface); !isIface {
			continue
		}
		cases := typeCasesOn(fn, prm)
		if len(cases) < 2 {
			continue
		}
		handled := map[string]bool{}
		nilHandled := false
		for _, tc := range cases {
			if caseRegion(tc)[b] {
				return "", false, false // inside a case arm: not the default
			}
			handled[tc.Type.String()] = true
		}
		// `case nil` is a comparison, not a type assertion
		for _, blk := range fn.Blocks {
			for _, in := range blk.Instrs {
				if bo, ok := in.(*ssa.BinOp); ok && (bo.X == ssa.Value(prm) && isNilConst(bo.Y) || bo.Y == ssa.Value(prm) && isNilConst(bo.X)) {
					nilHandled = true
				}
			}
		}
		idx := -1
		for i, q := range fn.Params {
			if q == prm {
				idx = i
			}
		}
		n := 0
		var bad []string
		var checkSites func(callee *ssa.Function, idx int, depth int)
		checkSites = func(callee *ssa.Function, idx int, depth int) {
			for _, cs := range p.CallSitesOf(callee) {
				if p.inTestFile(cs.Parent()) {
					continue
				}
				n++
				arg := cs.Common().Args[idx]
				switch a := arg.(type) {
				case *ssa.MakeInterface:
					if !handled[a.X.Type().String()] {
						bad = append(bad, fmt.Sprintf("%s passes a %s at %s", shortName(cs.Parent()), a.X.Type(), p.InstrPos(cs)))
					}
					continue
				case *ssa.Const:
					if !(a.IsNil() && nilHandled) {
						bad = append(bad, fmt.Sprintf("%s passes %s at %s", shortName(cs.Parent()), a, p.InstrPos(cs)))
					}
					continue
				case *ssa.Parameter:
					// a wrapper that hands its own parameter on: the domain is that of the wrapper's call sites
					g := cs.Parent()
					if depth < 2 && p.InModule(g) && g.Parent() == nil {
						j := -1
						for i, q := range g.Params {
							if q == a {
								j = i
							}
						}
						if j >= 0 && len(p.CallSitesOf(g)) > 0 {
							checkSites(g, j, depth+1)
							continue
						}
					}
				}
				if why, ok := jsonShaped(p, cs.Parent(), fn, arg, 0); !ok {
					bad = append(bad, fmt.Sprintf("%s passes an interface value at %s: %s", shortName(cs.Parent()), p.InstrPos(cs), why))
				}
			}
		}
		checkSites(fn, idx, 0)
		if n == 0 {
			return "no call site of " + shortName(fn) + " resolved", false, true
		}
		if len(bad) > 0 {
			return "constructor domain: " + strings.Join(bad, "; "), false, true
		}
		var hs []string
		for h := range handled {
			hs = append(hs, h)
		}
		sort.Strings(hs)
		return fmt.Sprintf("default arm of the type switch on %s: all %d call sites pass nil, a value of static type {%s}, or a value decoded by encoding/json (whose dynamic types are bool, float64, string, []interface{}, map[string]interface{}, nil)", prm.Name(), n, strings.Join(hs, ", ")), true, true
	}
	return "", false, false
}

// jsonShaped: an interface-typed argument whose dynamic type is one encoding/json produces
func jsonShaped(p *Program, caller, ctor *ssa.Function, v ssa.Value, depth int) (string, bool) {
	if depth > 6 {
		return "too deep", false
	}
	switch x := v.(type) {
	case *ssa.UnOp:
		// load of a local that is the target of Decode, or of a loop element inside the constructor
		if a, ok := x.X.(*ssa.Alloc); ok {
			for _, r := range referrersOf(a) {
				switch y := r.(type) {
				case *ssa.MakeInterface:
					for _, rr := range referrersOf(y) {
						if call, ok := rr.(ssa.CallInstruction); ok && staticCalleeIs(call, "(*encoding/json.Decoder).Decode") {
							return "Decode target", true
						}
					}
				case *ssa.Store:
					if y.Addr == ssa.Value(a) {
						if why, ok := jsonShaped(p, caller, ctor, y.Val, depth+1); !ok {
							return why, false
						} else if why != "" {
							return why, true
						}
					}
				}
			}
			return "local of unknown content", false
		}
		// element of a []interface{} / map[string]interface{} obtained inside the constructor from its own parameter
		if ia, ok := x.X.(*ssa.IndexAddr); ok && caller == ctor {
			return jsonShaped(p, caller, ctor, ia.X, depth+1)
		}
	case *ssa.Extract:
		// range / lookup over a container derived from the constructor's own parameter
		if caller == ctor {
			switch t := x.Tuple.(type) {
			case *ssa.Next:
				if rg, ok := t.Iter.(*ssa.Range); ok {
					return jsonShaped(p, caller, ctor, rg.X, depth+1)
				}
			case *ssa.Lookup:
				return jsonShaped(p, caller, ctor, t.X, depth+1)
			}
		}
		if ta, ok := x.Tuple.(*ssa.TypeAssert); ok {
			return jsonShaped(p, caller, ctor, ta.X, depth+1)
		}
	case *ssa.Lookup:
		if caller == ctor {
			return jsonShaped(p, caller, ctor, x.X, depth+1)
		}
	case *ssa.TypeAssert:
		return jsonShaped(p, caller, ctor, x.X, depth+1)
	case *ssa.Phi:
		for _, e := range x.Edges {
			if why, ok := jsonShaped(p, caller, ctor, e, depth+1); !ok {
				return why, false
			}
		}
		return "phi", true
	case *ssa.Parameter:
		if caller == ctor {
			return "element of the constructor's own argument", true
		}
		// the exported expression entry point takes a decoded JSON value by contract
		if obj, ok := caller.Object().(*types.Func); ok && obj.Exported() && caller.Parent() == nil {
			return "parameter of the exported " + shortName(caller) + " (API contract: a value produced by encoding/json; its only caller in the module passes a Decode target)", true
		}
	}
	return "value " + p.RenderShort(v) + " is not derived from a json.Decode target", false
}

// coAssignment: the panic is reached under Str == nil && Num == nil of one Value; discharged when every
// store of Value.ParentObj in the module is preceded, on all paths from the value's creation, by a
// store of Str or Num to the same value.
func coAssignment(p *Program, fn *ssa.Function, b *ssa.BasicBlock) (string, bool, bool) {
	strNil, numNil := false, false
	for _, rl := range FactsOf(fn).At(b).Rels() {
		if rl.op != relEQ || !isNilConst(rl.y) {
			continue
		}
		if sf, ok := loadedField(rl.x); ok && sf.Struct != nil && sf.Struct.Obj().Name() == "Value" {
			if sf.Name == "Str" {
				strNil = true
			}
			if sf.Name == "Num" {
				numNil = true
			}
		}
	}
	if !strNil || !numNil {
		return "", false, false
	}
	n := 0
	var bad []string
	for _, g := range p.Funcs {
		if !p.InLang(g) {
			continue
		}
		for _, st := range storesToField(g, "Value", "ParentObj", false) {
			if isNilConst(st.Val) {
				continue
			}
			n++
			fa, _ := st.Addr.(*ssa.FieldAddr)
			if fa == nil {
				bad = append(bad, "store at "+p.InstrPos(st)+" is not a field store")
				continue
			}
			base := p.RenderShort(fa.X)
			// payload stores to the same value
			stop := map[*ssa.BasicBlock]bool{}
			sameBlock := false
			for _, f := range []string{"Str", "Num"} {
				for _, ps := range storesToField(g, "Value", f, false) {
					pfa, _ := ps.Addr.(*ssa.FieldAddr)
					if pfa == nil || p.RenderShort(pfa.X) != base || isNilConst(ps.Val) {
						continue
					}
					if ps.Block() == st.Block() && instrIndex(ps) < instrIndex(st) {
						sameBlock = true
					}
					stop[ps.Block()] = true
				}
			}
			if sameBlock {
				continue
			}
			if len(stop) == 0 || reachableFrom([]*ssa.BasicBlock{g.Blocks[0]}, stop)[st.Block()] {
				bad = append(bad, "the ParentObj store at "+p.InstrPos(st)+" can be reached without a Str / Num store to the same value")
			}
		}
	}
	// composite literals that set ParentObj are stores as well (go/ssa lowers them to field stores), so n covers them
	if n == 0 {
		return "co-assignment: no store of Value.ParentObj found", false, true
	}
	if len(bad) > 0 {
		return "co-assignment: " + strings.Join(bad, "; "), false, true
	}
	return fmt.Sprintf("co-assignment: each of the %d stores of a non-nil Value.ParentObj is preceded on every path by a store of Str or Num to the same value, so a value with a parent always has a key", n), true, true
}

// beforeAnyCursorMove: no call of fn that passes the parser on can execute before instruction ld.
func beforeAnyCursorMove(fn *ssa.Function, ld ssa.Instruction) bool {
	for _, call := range callsIn(fn) {
		passes := false
		for _, a := range call.Common().Args {
			if pt, ok := a.Type().(*types.Pointer); ok && isLangNamed(pt.Elem(), "Parser") {
				passes = true
			}
		}
		if passes && (dominatesInstr(call, ld) || canReach(call, ld)) {
			return false
		}
	}
	return true
}

// consumeWrapperTags: g is a consume-and-return helper — every success return hands back
// *Parser.previous read right after consume(tags...) with g's own variadic parameter as the tags.
// The token then carries one of the constants the call site passes.
func consumeWrapperTags(p *Program, g *ssa.Function, idx int, site *ssa.Call) ([]string, string, bool) {
	rcs := p.successResults(g)
	if len(rcs) == 0 {
		return nil, "", false
	}
	k := -1
	for _, rc := range rcs {
		res := effectiveResults(rc.Ret)
		if idx >= len(res) {
			return nil, "", false
		}
		u, ok := res[idx].(*ssa.UnOp)
		if !ok || u.Op != token.MUL {
			return nil, "", false
		}
		l, ok := u.X.(*ssa.UnOp)
		if !ok || l.Op != token.MUL {
			return nil, "", false
		}
		if sf, ok := fieldOfAddr(l.X); !ok || !sf.Is("Parser", "previous") {
			return nil, "", false
		}
		// the only parser call before the read is consume(<variadic parameter>...)
		var last ssa.CallInstruction
		for _, call := range callsIn(g) {
			passes := false
			for _, a := range call.Common().Args {
				if pt, ok := a.Type().(*types.Pointer); ok && isLangNamed(pt.Elem(), "Parser") {
					passes = true
				}
			}
			if !passes || !(dominatesInstr(call, l) || canReach(call, l)) {
				continue
			}
			if last != nil {
				return nil, "", false
			}
			last = call
		}
		if last == nil || !staticCalleeIs(last, "(*lang.Parser).consume") || !dominatesInstr(last, l) || len(last.Common().Args) < 2 {
			return nil, "", false
		}
		prm, ok := last.Common().Args[1].(*ssa.Parameter)
		if !ok {
			return nil, "", false
		}
		for i, q := range g.Params {
			if q == prm {
				if k >= 0 && k != i {
					return nil, "", false
				}
				k = i
			}
		}
	}
	if k < 0 || k >= len(site.Call.Args) {
		return nil, "", false
	}
	tags, ok := variadicConstNames(p, site.Call.Args[k])
	if !ok {
		return nil, "", false
	}
	return tags, "after " + shortName(g) + "(" + strings.Join(tags, ", ") + "), a consume-and-return helper", true
}

package main

import (
	"fmt"
	"go/types"
	"sort"
	"strings"

	"golang.org/x/tools/go/ssa"
)

func init() {
	register(&ruleSet{
		id:    "C17",
		title: "print renders every value in one well-defined, terminating format",
		run:   runC17,
		decided: "the print statement's write skeleton (one space written exactly before every argument but the first — decided by the argument's index —, one newline after the last, zero arguments print $, arguments rendered at top level without quotes, evaluated without copying); every number is rendered by strconv.FormatFloat(x, 'f', -1, 64) applied to the payload itself and no float reaches a fmt verb; the container renderer's write sequence ([, ', ' before every element but the first, ], {\"k\": v} with sorted keys) with nested values rendered quoted, the path-based cycle guard on every descent returning <circular reference> before descending; output goes unbuffered to the caller's writer." +
			" After a newline the statement-end test answers true at once, so a bare print stays bare whatever the next line starts with." +
			" The print statement's writes are decided as events (Fprint, Fprintf(\"%s\"), Evaluator.print); the argument list is made per statement; copies keep array identity." +
			" The boolean text follows the payload; a bodyless rule's action is its parser-made bare print. In the print statement's parser the comma is looked for before the statement end.",
		notDecided: "exactness of the identity test for arrays that share backing storage without being the same array (sharing without a cycle can be reported as circular after popfirst: observation in DESIGN.md), re-readability of strings that need escaping.",
	})
}

var abbrevPrintExtra []string

func abbrevPrint(s string) string {
	if len(abbrevPrintExtra) > 0 {
		s = strings.NewReplacer(abbrevPrintExtra...).Replace(s)
	}
	return strings.NewReplacer(
		"(*lang.Evaluator).evalExprList(e, stmt.(*lang.StatementPrint)#0.Args, false)#0", "A",
		"(*lang.Evaluator).evalExprList(e, stmt.(*lang.StatementPrint)#0.Args, false)#1", "Aerr",
		"(*lang.Value).", "",
	).Replace(s)
}

func runC17(c *Ctx) {
	defer c.shared("R10", "C09/R3", "a container reachable from itself is recognised as such: copying an array keeps its identity (the same slice header, capacity included, on which the identity test relies)", keyHas("copy ValueArray", "copy ValueObj"), c09R3)
	defer c.shared("R9", "C08/R4", "print writes its own arguments: the list of evaluated arguments is made per statement and not kept, so a print executed while an argument is evaluated cannot overwrite it", keyHas("expression-list"), func(s *Ctx) { exprListFresh(s, "R4") })
	defer c.shared("R15", "C13/R4", "a bare print is ended by the line break behind it, in a CRLF program as well: the lexer skips blanks and comments only, every line feed is a Newline token", keyHas("newline-never-skipped"), c13Blanks)
	defer c.shared("R12", "C04/R3", "sharing without a cycle is printed in full: the renderer's ancestor test calls two arrays the same only when they share the last slot of their backing store (an older, shorter copy of a grown array is a different array)", keyHas("alias", "isSame"), func(s *Ctx) { isSameTable(s, "R3") })
	defer c.shared("R14", "C15/R2", "sharing without a cycle is printed in full: pop and popfirst only re-slice their receiver, they store nothing into the backing array another reference still covers (a nil left there crashes the renderer)", keyHas("array.pop", "array.popfirst"), func(s *Ctx) { c15R2(s, nativeMethods(s.P)) })
	defer c.shared("R11", "C02/R4", "a rule without a body prints $ exactly as a bare print does: the parser gives it a print statement without arguments, and every matched rule's action is the evaluation of its body statement (nothing prints on its behalf)", keyHas("matched-rule-body-not-skipped", "bodyless-rule-prints", "body-of-ranged-rule"), c02R4)
	defer c.shared("R8", "C13/R6", "a bare print prints $: print followed by a newline has an empty argument list only if the newline ends the statement whatever the next line starts with", keyHas("newline-ends-statement", "statement-end-caller (*lang.Parser).printStatement", "flag-read"), c13NewlineFlag)
	p := c.P
	printArgumentsCommaFirst(c, "R13")
	es := p.LangFunc("(*Evaluator).evalStatement")
	if es == nil {
		c.undecided("R1", "evalStatement", "", "anchor not found")
		return
	}
	c.note("R1 print-skeleton: the writes of the print arm, as (call, guards): Fprintln(stdout, PrettyString($, false)) when there are no arguments; per argument i: Fprint(stdout, \" \") under i > 0 only, then Fprintf(stdout, \"%%s\", PrettyString(arg, false)); Fprint(stdout, \"\\n\") after the last argument.")
	var arm *typeCase
	for _, tc := range typeCasesOn(es, es.Params[1]) {
		if tc.TypeName == "StatementPrint" {
			t := tc
			arm = &t
		}
	}
	if arm == nil {
		c.undecided("R1", "print-arm", p.Pos(es.Pos()), "no *StatementPrint case in evalStatement")
		return
	}
	region := caseRegion(*arm)
	// the arm may hand the statement to a helper of its own (`return e.evalPrintStatement(st)`): the
	// skeleton is then the helper's
	printParam := ""
	for _, call := range callsIn(es) {
		if !region[call.Block()] {
			continue
		}
		h := call.Common().StaticCallee()
		if h == nil || h == es || !p.InLang(h) || len(h.Blocks) == 0 || !isPrivateTo(p, h, es) || h.Signature.Results().Len() != 1 || !isErrorType(h.Signature.Results().At(0).Type()) {
			continue
		}
		for i, a := range call.Common().Args {
			if strings.Contains(p.Render(a), "StatementPrint") && i < len(h.Params) {
				printParam = h.Params[i].Name()
				es = h
				region = map[*ssa.BasicBlock]bool{}
				for _, b := range h.Blocks {
					region[b] = true
				}
			}
		}
	}
	if printParam != "" {
		prev := abbrevPrintExtra
		abbrevPrintExtra = []string{
			"(*lang.Evaluator).evalExprList(e, " + printParam + ".Args, false)#0", "A",
			"(*lang.Evaluator).evalExprList(e, " + printParam + ".Args, false)#1", "Aerr",
		}
		defer func() { abbrevPrintExtra = prev }()
	}
	// the writes as events: emit(S) = the string S goes to the evaluator's writer, unchanged — written as
	// Fprint(stdout, S), Fprintf(stdout, "%s", S) or Evaluator.print(S); emitln(S) = Fprintln(stdout, S). A
	// string chosen by a branch (`text := "null"; if cell != nil { text = … }`) is one event per way.
	type w struct {
		text   string
		guards map[string]bool
		call   ssa.CallInstruction
	}
	var writes []w
	F := FactsOf(es)
	rr := &renderer{p: p, depth: 2} // helpers such as PrettyString by name, not inlined
	relText := func(fs factSet) map[string]bool {
		g := map[string]bool{}
		for _, rl := range fs.Rels() {
			g[abbrevPrint(rr.val(rl.x, 0)+" "+rl.op.String()+" "+rr.val(rl.y, 0))] = true
		}
		return g
	}
	strOperand := func(v ssa.Value) ssa.Value {
		for {
			switch x := v.(type) {
			case *ssa.MakeInterface:
				v = x.X
				continue
			}
			return v
		}
	}
	for _, call := range callsIn(es) {
		if !region[call.Block()] {
			continue
		}
		f := call.Common().StaticCallee()
		if f == nil {
			continue
		}
		args := call.Common().Args
		kind := ""
		var operand ssa.Value
		switch f.String() {
		case "fmt.Fprint", "fmt.Fprintln", "fmt.Fprintf":
			if sf, ok := loadedField(args[0]); !ok || !sf.Is("Evaluator", "stdout") {
				c.violated("R1", "print-write "+abbrevPrint(rr.call(call.Common(), 0)), p.InstrPos(call), "the print statement writes to something other than the evaluator's output")
				continue
			}
			va := args[len(args)-1]
			elems := variadicElems(va)
			okForm := len(elems) == 1
			if f.String() == "fmt.Fprintf" {
				if fs, isC := constString(args[1]); !isC || fs != "%s" {
					okForm = false
				}
			}
			if !okForm {
				c.violated("R1", "print-write "+abbrevPrint(rr.call(call.Common(), 0)), p.InstrPos(call), "the print statement performs a write that is not part of the documented format: "+abbrevPrint(rr.call(call.Common(), 0)))
				continue
			}
			operand = strOperand(elems[0])
			kind = "emit"
			if f.String() == "fmt.Fprintln" {
				kind = "emitln"
			}
		case "(*" + langPath + ".Evaluator).print":
			operand = args[1]
			kind = "emit"
		default:
			continue
		}
		if phi, ok := operand.(*ssa.Phi); ok && !loopCarried(phi) {
			for i, e := range phi.Edges {
				g := relText(F.OnEdge(phi.Block().Preds[i], phi.Block()))
				for k := range relText(F.At(call.Block())) {
					g[k] = true
				}
				writes = append(writes, w{kind + " " + abbrevPrint(rr.val(e, 0)), g, call})
			}
			continue
		}
		writes = append(writes, w{kind + " " + abbrevPrint(rr.val(operand, 0)), relText(F.At(call.Block())), call})
	}
	want := map[string][]string{
		`emitln PrettyString(&e.ruleRoot.Value, false)`: {"len(A) == 0", "Aerr == nil"},
		`emit " "`:    {"i@A > 0", "i@A < len(A)"},
		`emit "null"`: {"A[i@A] == nil"},
		`emit PrettyString(&A[i@A].Value, false)`: {"A[i@A] != nil", "i@A < len(A)"},
		`emit "\n"`: {"i@A >= len(A)", "len(A) != 0"},
	}
	seen := map[string]bool{}
	for _, wr := range writes {
		req, ok := want[wr.text]
		if !ok {
			c.violated("R1", "print-write "+wr.text, p.InstrPos(wr.call), "the print statement performs a write that is not part of the documented format: "+wr.text)
			continue
		}
		seen[wr.text] = true
		var lacking []string
		for _, g := range req {
			if !wr.guards[g] {
				lacking = append(lacking, g)
			}
		}
		c.check(len(lacking) == 0, "R1", "print-write "+wr.text, p.InstrPos(wr.call), "under "+strings.Join(req, " && "), "this write is not controlled by {"+strings.Join(lacking, " ; ")+"}: separators / newline would be placed by something other than the argument position")
	}
	for t := range want {
		if !seen[t] {
			c.violated("R1", "print-write "+t, p.Pos(es.Pos()), "the print arm lacks the write "+t+" (writes found: "+fmt.Sprint(len(writes))+"): the documented format `args separated by one space, ended by a newline` is produced some other way")
		}
	}
	// the separator precedes the argument in the same iteration: Fprint(" ") dominates the Fprintf of the argument or is on the path to it
	// arguments are evaluated without copy (printing does not need it) and in order
	for _, call := range callsIn(es) {
		if region[call.Block()] && staticCalleeIs(call, "(*lang.Evaluator).evalExprList") {
			b, okB := constBool(call.Common().Args[2])
			c.check(okB && !b && argDesc(call) == "StatementPrint.Args", "R1", "print-args", p.InstrPos(call), "evalExprList(st.Args, false)", "print does not evaluate exactly its argument list")
		}
	}

	// R2 number-format
	c.note("R2 number-format: every strconv.FormatFloat call in the module has the arguments (payload, 'f', -1, 64); the number arms of String() and of the renderer return exactly that; no float64 operand reaches fmt.Sprint*/Fprint*/Print*, strconv.FormatInt or Itoa in package lang (a fast path for integers loses -0 and values beyond 2^53).")
	nFF := 0
	for _, fn := range p.Funcs {
		if !p.InLang(fn) {
			continue
		}
		for _, call := range callsIn(fn) {
			f := call.Common().StaticCallee()
			if f == nil {
				continue
			}
			switch f.String() {
			case "strconv.FormatFloat":
				nFF++
				r := p.Render(call.Common().Args[0]) + ", " + p.Render(call.Common().Args[1]) + ", " + p.Render(call.Common().Args[2]) + ", " + p.Render(call.Common().Args[3])
				c.check(r == "*v.Num, 102, -1, 64", "R2", fmt.Sprintf("FormatFloat #%d in %s", nFF, shortName(fn)), p.InstrPos(call), "FormatFloat(*v.Num, 'f', -1, 64)", "FormatFloat("+r+"): only ('f', -1, 64) on the payload is positional, exponent-free and round-trips")
			case "strconv.FormatInt", "strconv.Itoa", "strconv.FormatUint", "strconv.AppendInt":
				// only when the integer was converted from a float
				cv, isConv := call.Common().Args[0].(*ssa.Convert)
				if !isConv {
					continue
				}
				if b, ok := cv.X.Type().Underlying().(*types.Basic); !ok || b.Info()&types.IsFloat == 0 {
					continue
				}
				c.violated("R2", "number-rendering "+f.String()+" in "+shortName(fn), p.InstrPos(call), "a number is rendered through "+f.String()+": integer fast paths print -0 as 0 and mis-print values that do not fit an int64")
			}
			if strings.HasPrefix(f.String(), "fmt.") {
				for _, a := range call.Common().Args {
					floatOperand(p, a, func(v ssa.Value) {
						c.violated("R2", "float-to-fmt in "+shortName(fn), p.InstrPos(call), "a float64 value ("+p.Render(v)+") is formatted by "+f.String()+": fmt's default float formatting uses exponents")
					})
				}
			}
		}
	}
	if nFF < 2 {
		c.undecided("R2", "instance-floor", "", fmt.Sprintf("%d FormatFloat calls, 2 confirmed by hand", nFF))
	}
	pr := p.LangFunc("(*Value).prettyStringInteral")
	if pr == nil {
		c.undecided("R3", "renderer", "", "anchor (*Value).prettyStringInteral not found")
		return
	}
	// scalar arms of the renderer per tag
	ms := p.maySetOf(pr, "v.Tag", valueTagNames(p))
	got := map[string]map[string]bool{}
	for _, rc := range p.successResults(pr) {
		if rc.Value == `"<circular reference>"` {
			continue
		}
		for _, t := range ms.At(rc.Ret.Block()) {
			if got[t] == nil {
				got[t] = map[string]bool{}
			}
			got[t][rc.Value] = true
		}
	}
	// strconv.FormatBool(b) is exactly `if b { "true" } else { "false" }`
	if got["ValueBool"]["strconv.FormatBool(*v.Bool)"] {
		delete(got["ValueBool"], "strconv.FormatBool(*v.Bool)")
		got["ValueBool"][`"true"`], got["ValueBool"][`"false"`] = true, true
	}
	wantArms := map[string][]string{
		"ValueNum":  {"strconv.FormatFloat(*v.Num, 102, -1, 64)"},
		"ValueStr":  {`(("\"" + *v.Str) + "\"")`, "*v.Str"},
		"ValueBool": {`"true"`, `"false"`},
		"ValueNil":  {`"null"`},
	}
	var ts []string
	for t := range wantArms {
		ts = append(ts, t)
	}
	sort.Strings(ts)
	for _, t := range ts {
		miss, extra := diffSets(got[t], setOf(wantArms[t]))
		c.check(len(miss)+len(extra) == 0, "R2", "render "+t, p.Pos(pr.Pos()), strings.Join(wantArms[t], " ; "), fmt.Sprintf("a %s value renders as {%s}; documented {%s}", t, keysOf(got[t]), strings.Join(wantArms[t], " ; ")))
	}
	// quoting follows the quote parameter; booleans follow the payload
	for _, rc := range p.successResults(pr) {
		if rc.Value == `"true"` || rc.Value == `"false"` {
			follows := false
			for f := range FactsOf(pr).At(rc.Ret.Block()) {
				if p.Render(f.cond) == "*v.Bool" && f.truth == (rc.Value == `"true"`) {
					follows = true
				}
			}
			c.check(follows, "R2", "boolean-text "+rc.Value, p.InstrPos(rc.Ret), "the text follows the payload", "the boolean text "+rc.Value+" is not returned under the payload having that truth value")
		}
		if rc.Value == "*v.Str" || rc.Value == `(("\"" + *v.Str) + "\"")` {
			known, val := FactsOf(pr).At(rc.Ret.Block()).Truth(pr.Params[2])
			c.check(known && val == (rc.Value != "*v.Str"), "R2", "string-quoting "+rc.Value, p.InstrPos(rc.Ret), "quoted exactly when the quote flag is set", "string quoting does not follow the quote parameter")
		}
	}

	// R3 container rendering
	c.note("R3 container-rendering: the renderer's writes to its builder, as (call, guards): '[' ; \", \" under index > 0 ; the nested rendering (quote = true, check = true, path + receiver) ; ']' ; '{' ; \", \" under (count of members written) > 0 ; '\"' + key + '\"' ; \": \" ; nested rendering ; '}' — keys taken from sortedKeys(*v.Obj). Cycle guard as in C04/R3, returning \"<circular reference>\".")
	cycleGuard(c, "R3", "(*Value).prettyStringInteral")
	wantW := map[string][]string{
		"WriteByte(91)":       {"v.Tag == ValueArray"},
		`WriteString(", ")#a`: {"i@v.Array > 0", "v.Tag == ValueArray"},
		"WriteString(prettyStringInteral(&v.Array[i@v.Array].Value, append(rootValues, [v][:]), true, true))": {"i@v.Array < len(v.Array)"},
		"WriteByte(93)":       {"i@v.Array >= len(v.Array)"},
		"WriteByte(123)":      {"v.Tag == ValueObj"},
		`WriteString(", ")#o`: {"φint0 > 0 || i@lang.sortedKeys(*v.Obj) > 0", "v.Tag == ValueObj"},
		`WriteString((("\"" + lang.sortedKeys(*v.Obj)[i@lang.sortedKeys(*v.Obj)]) + "\""))`: {"v.Tag == ValueObj"},
		`WriteString(": ")`: {"v.Tag == ValueObj"},
		"WriteString(prettyStringInteral(&*v.Obj[lang.sortedKeys(*v.Obj)[i@lang.sortedKeys(*v.Obj)]].Value, append(rootValues, [v][:]), true, true))": {"v.Tag == ValueObj"},
		"WriteByte(125)": {"i@lang.sortedKeys(*v.Obj) >= len(lang.sortedKeys(*v.Obj))"},
	}
	seenW := map[string]bool{}
	usesRangeIndex := false
	r := &renderer{p: p, noExpand: true, depth: 2}
	for _, call := range callsIn(pr) {
		f := call.Common().StaticCallee()
		if f == nil || !strings.HasPrefix(f.String(), "(*strings.Builder).Write") {
			continue
		}
		text := strings.TrimPrefix(f.String(), "(*strings.Builder).") + "(" + strings.ReplaceAll(r.val(call.Common().Args[1], 0), "(*lang.Value).", "") + ")"
		g := map[string]bool{}
		for _, rl := range FactsOf(pr).At(call.Block()).Rels() {
			g[r.val(rl.x, 0)+" "+rl.op.String()+" "+r.val(rl.y, 0)] = true
		}
		key := text
		if text == `WriteString(", ")` {
			if g["v.Tag == ValueArray"] {
				key += "#a"
			} else {
				key += "#o"
			}
		}
		req, ok := wantW[key]
		if !ok {
			c.violated("R3", "render-write "+key, p.InstrPos(call), "the container renderer performs a write that is not part of the documented format: "+text)
			continue
		}
		seenW[key] = true
		var lacking []string
		for _, x := range req {
			// alternatives: a count of the members written so far, or the index of the ranged key list
			any := false
			for _, alt := range strings.Split(x, " || ") {
				if g[alt] {
					any = true
					if alt == "i@lang.sortedKeys(*v.Obj) > 0" {
						usesRangeIndex = true
					}
				}
			}
			if !any {
				lacking = append(lacking, x)
			}
		}
		c.check(len(lacking) == 0, "R3", "render-write "+key, p.InstrPos(call), "under "+strings.Join(req, " && "), "this write is not controlled by {"+strings.Join(lacking, " ; ")+"}")
	}
	for k := range wantW {
		if !seenW[k] {
			c.violated("R3", "render-write "+k, p.Pos(pr.Pos()), "the container renderer lacks the write "+k)
		}
	}
	// the member counter starts at 0 and is incremented once per member
	idxOK := false
	allInstrs(pr, func(in ssa.Instruction) {
		if phi, ok := in.(*ssa.Phi); ok && loopCarried(phi) {
			if p.Render(phi) == "φint0⟨(φint0 + 1) | 0⟩" {
				idxOK = true
			}
		}
	})
	c.check(idxOK || usesRangeIndex, "R3", "member-counter", p.Pos(pr.Pos()), "the object separator counter starts at 0 and grows by one per member", "the counter deciding the object separator is not `0, +1 per member`")
	// the cycle verdict text
	for _, rc := range p.successResults(pr) {
		if strings.Contains(rc.Value, "circular") {
			c.check(rc.Value == `"<circular reference>"`, "R3", "cycle-verdict", p.InstrPos(rc.Ret), rc.Value, "the cycle marker is "+rc.Value)
		}
	}
	// top-level entry: PrettyString(quote) passes its flag through
	ps := p.LangFunc("(*Value).PrettyString")
	if ps != nil {
		rcs := p.successResults(ps)
		c.check(len(rcs) == 1 && rcs[0].Value == "(*lang.Value).prettyStringInteral(v, [][:0], quote, false)", "R3", "renderer-entry", p.Pos(ps.Pos()), "PrettyString(quote) = renderer(v, empty path, quote, no check at the root)", "PrettyString does not start the renderer with (empty path, its quote flag, check = false)")
	}
	mapRangeOrder(c, "R4")
	unbufferedOutput(c, "R5")
}

// floatOperand calls report for every float64-typed value packed into the (variadic) argument v.
func floatOperand(p *Program, v ssa.Value, report func(ssa.Value)) {
	isFloat := func(x ssa.Value) bool {
		b, ok := x.Type().Underlying().(*types.Basic)
		return ok && (b.Kind() == types.Float64 || b.Kind() == types.Float32)
	}
	switch x := v.(type) {
	case *ssa.MakeInterface:
		if isFloat(x.X) {
			report(x.X)
		}
	case *ssa.Slice:
		if arr, ok := x.X.(*ssa.Alloc); ok {
			for _, r := range referrersOf(arr) {
				if ia, ok := r.(*ssa.IndexAddr); ok {
					for _, rr := range referrersOf(ia) {
						if st, ok := rr.(*ssa.Store); ok {
							if mi, ok := st.Val.(*ssa.MakeInterface); ok && isFloat(mi.X) {
								report(mi.X)
							}
						}
					}
				}
			}
		}
	}
}

// unbufferedOutput (C11/R6, C17/R5, C18/R1, C03): the evaluator writes straight to the caller's
// writer.
func unbufferedOutput(c *Ctx, rule string) {
	p := c.P
	c.note("%s unbuffered-output: Evaluator.stdout is stored only from the stdout parameter of NewEvaluator; every other use of the field is as the writer argument of fmt.Fprint / Fprintf / Fprintln (or handing it to a nested EvalExpression); package lang calls nothing from bufio; format strings of every fmt call in lang and cli are constants (user data is never interpreted as a format).", rule)
	n := 0
	for _, fn := range p.Funcs {
		if !p.InLang(fn) {
			continue
		}
		allInstrs(fn, func(in ssa.Instruction) {
			// stores to the field
			if st, ok := in.(*ssa.Store); ok {
				if sf, ok := fieldOfAddr(st.Addr); ok && sf.Is("Evaluator", "stdout") {
					n++
					_, isParam := st.Val.(*ssa.Parameter)
					c.check(isParam, rule, "stdout-store in "+shortName(fn), p.InstrPos(st), "the caller's writer is stored unchanged", "Evaluator.stdout is set to "+p.Render(st.Val)+", not to the caller's writer itself: output is buffered or redirected, so it is no longer written as statements execute")
				}
				return
			}
			u, ok := in.(*ssa.UnOp)
			if !ok {
				return
			}
			sf, ok := loadedField(u)
			if !ok || !sf.Is("Evaluator", "stdout") {
				return
			}
			for _, r := range referrersOf(u) {
				n++
				key := fmt.Sprintf("stdout-use #%d in %s", n, shortName(fn))
				call, ok := r.(ssa.CallInstruction)
				if !ok {
					c.violated(rule, key, p.InstrPos(r), fmt.Sprintf("the output writer is used by %T", r))
					continue
				}
				f := call.Common().StaticCallee()
				name := ""
				if f != nil {
					name = f.String()
				}
				switch name {
				case "fmt.Fprint", "fmt.Fprintf", "fmt.Fprintln":
					c.check(call.Common().Args[0] == ssa.Value(u), rule, key, p.InstrPos(call), "written directly with "+name, "the writer is not the destination argument")
				default:
					c.violated(rule, key, p.InstrPos(call), "the output writer is handed to "+calleeName(call.Common())+": wrapping it (bufio and the like) delays output until a flush, so output of a value is not written before the next value is read and a later error loses or reorders it")
				}
			}
		})
		for _, call := range callsIn(fn) {
			if f := call.Common().StaticCallee(); f != nil && strings.HasPrefix(f.String(), "bufio.") || f != nil && strings.HasPrefix(f.String(), "(*bufio.") {
				c.violated(rule, "bufio in "+shortName(fn), p.InstrPos(call), "package lang calls "+f.String())
			}
		}
	}
	if n < 2 {
		c.undecided(rule, "instance-floor", "", fmt.Sprintf("%d uses of Evaluator.stdout found (the constructor's store and at least one write are expected)", n))
	}
	constFormats(c, rule)
}

// constFormats: the format argument of every printf-like call is a constant string.
func constFormats(c *Ctx, rule string) {
	p := c.P
	fmtArg := map[string]int{"fmt.Printf": 0, "fmt.Sprintf": 0, "fmt.Errorf": 0, "fmt.Fprintf": 1, "fmt.Fscanf": 1, "fmt.Sscanf": 1}
	n := 0
	for _, fn := range p.Funcs {
		if !(p.InLang(fn) || p.InCli(fn)) || strings.HasPrefix(shortName(fn), "cli.debug") {
			continue
		}
		for _, call := range callsIn(fn) {
			f := call.Common().StaticCallee()
			if f == nil {
				continue
			}
			idx, ok := fmtArg[f.String()]
			if !ok {
				continue
			}
			n++
			_, isConst := constString(call.Common().Args[idx])
			if !isConst {
				c.violated(rule, fmt.Sprintf("format-string of %s in %s", f.String(), shortName(fn)), p.InstrPos(call), "the format string is "+p.Render(call.Common().Args[idx])+", not a constant: text that comes from the program or the data is re-interpreted by Go's fmt, so every % in it is mangled")
			}
		}
	}
	c.ok(rule, "constant-format-strings", "", fmt.Sprintf("%d printf-like calls in lang+cli checked", n))
	if n < 40 {
		c.undecided(rule, "format-floor", "", fmt.Sprintf("%d printf-like calls found, 50 confirmed by hand", n))
	}
}

// variadicElems: the values packed into a variadic argument slice (`f(a, b)` -> [a, b])
func variadicElems(v ssa.Value) []ssa.Value {
	sl, ok := v.(*ssa.Slice)
	if !ok {
		return nil
	}
	a, ok := sl.X.(*ssa.Alloc)
	if !ok {
		return nil
	}
	type kv struct {
		i int64
		v ssa.Value
	}
	var es []kv
	for _, r := range referrersOf(a) {
		ia, ok := r.(*ssa.IndexAddr)
		if !ok {
			continue
		}
		k, _ := constInt(ia.Index)
		for _, rr := range referrersOf(ia) {
			if st, ok := rr.(*ssa.Store); ok && st.Addr == ssa.Value(ia) {
				es = append(es, kv{k, st.Val})
			}
		}
	}
	sort.Slice(es, func(i, j int) bool { return es[i].i < es[j].i })
	var out []ssa.Value
	for _, e := range es {
		out = append(out, e.v)
	}
	return out
}

// printArgumentsCommaFirst: print takes every argument of its list. After an argument has been
// parsed the parser looks for the comma before it asks whether the statement has ended: an argument
// may leave the statement-end flag set (a match expression sets it at its closing brace), and only
// consuming the comma clears it.
func printArgumentsCommaFirst(c *Ctx, rule string) {
	p := c.P
	c.note("%s print-arguments-comma-first: in the print statement's parser every path from the parsing of an argument to the next statement-end test passes the test of the current token against Comma.", rule)
	ps := p.LangFunc("(*Parser).printStatement")
	if ps == nil {
		c.undecided(rule, "printStatement", "", "anchor not found")
		return
	}
	var exprCalls, aseCalls []ssa.CallInstruction
	{
		for _, call := range callsIn(ps) {
			switch {
			case staticCalleeIs(call, "(*lang.Parser).expression") || staticCalleeIs(call, "(*lang.Parser).expressionWithPrec"):
				exprCalls = append(exprCalls, call)
			case staticCalleeIs(call, "(*lang.Parser).atStatementEnd"):
				aseCalls = append(aseCalls, call)
			}
		}
	}
	if len(exprCalls) == 0 || len(aseCalls) == 0 {
		c.undecided(rule, "print-arguments-comma-first", p.Pos(ps.Pos()), "the argument parse or the statement-end test was not found in printStatement")
		return
	}
	commaTest := map[*ssa.BasicBlock]bool{}
	for _, b := range ps.Blocks {
		ifi, ok := b.Instrs[len(b.Instrs)-1].(*ssa.If)
		if !ok {
			continue
		}
		if rl, ok := relsOf(fact{ifi.Cond, true}); ok && (rl.op == relEQ || rl.op == relNE) {
			txt := p.RenderShort(rl.x) + " " + p.RenderShort(rl.y)
			if strings.Contains(txt, "p.current.Tag") && strings.Contains(txt, "Comma") {
				commaTest[b] = true
			}
		}
	}
	// … or hands the comma to a helper that looks for it (`p.accept(Comma)`)
	commaTag := int64(-1)
	for v, n := range constNames(p.Lang.Types, "TokenTag") {
		if n == "Comma" {
			commaTag = v
		}
	}
	for _, call := range callsIn(ps) {
		if staticCalleeIs(call, "(*lang.Parser).consume") {
			continue // consuming is not looking: it fails on anything else
		}
		for _, a := range call.Common().Args {
			if k, ok := constInt(a); ok && k == commaTag && isLangNamed(a.Type(), "TokenTag") {
				commaTest[call.Block()] = true
			}
		}
	}
	for i, ec := range exprCalls {
		bad := ""
		for _, ac := range aseCalls {
			if ac.Block() == ec.Block() && instrIndex(ac) > instrIndex(ec) && !commaTest[ec.Block()] {
				bad = p.InstrPos(ac)
			}
			if commaTest[ec.Block()] {
				continue
			}
			if reachableFrom(ec.Block().Succs, commaTest)[ac.Block()] && !commaTest[ac.Block()] {
				bad = p.InstrPos(ac)
			}
		}
		c.check(bad == "", rule, fmt.Sprintf("print-arguments-comma-first #%d", i+1), p.InstrPos(ec), "after an argument the comma is looked for before the statement end", "after an argument the statement-end test ("+bad+") can be reached without the comma test: an argument that leaves the statement-end flag set (`print match (x) { … }, y`) ends the list, and the rest is a syntax error")
	}
}

package main

import (
	"fmt"
	"go/token"
	"go/types"
	"os"
	"path/filepath"
	"sort"
	"strings"

	"golang.org/x/tools/go/ssa"
)

func init() {
	register(&ruleSet{
		id:    "C10",
		title: "output is a deterministic function of program, selectors and input bytes",
		run:   runC10,
		decided: "absence of the three mechanisms by which one process can produce different bytes from the same inputs: (1) every range over a Go map in lang+cli is order-insensitive (its body only stores into another map under the ranged key, or collects the keys into a slice that is sorted by the total string order before any other use); (2) no package-level variable is written after initialisation except the four lazily built prototype singletons, each stored only inside its own accessor under `== nil`, and no other package-level variable has its address taken; cells of the process-global prototype tables are never handed out or written (C15/R1); (3) no function of the interpreter calls clock, random, environment or scheduling APIs or starts a goroutine." +
			" No package-level variable holding a reference to mutable memory is ever handed out (returned, stored, passed on) except the prototype singletons by their accessors." +
			" Evaluation writes only the documented interpreter state; nothing outside the parser stores into a syntax-tree node. The closures kept by the lazily built prototype singletons write no captured variable.",
		notDecided: "determinism of the trusted libraries (encoding/json sorts object keys: cited, not checked).",
	})
}

func runC10(c *Ctx) {
	defer c.shared("R5", "C04/R5", "the -o file depends on this run only: it is opened truncating, so nothing an earlier run wrote survives behind the new JSON", keyHas("json-file-truncated"), func(s *Ctx) { jsonTextAsData(s, "R5") })
	mapRangeOrder(c, "R1")
	c10R2(c)
	receiverPerCall(c, "R3")
	c10R4(c)
	interpreterState(c, "R6")
	entryArgsReadOnly(c, "R7")
	inputReaderOnlyDecoded(c, "R9")
	c.shared("R8", "C14/R2", "the output is a function of the input bytes, not of the kind of file they come from: the interpreter's decoder reads the opened file (or standard input) itself — no read-ahead sized by Stat(), which a pipe, a device or a file that grows answers differently", keyHas("input-files", "stdin-only", "reader-wrapper", "stdout"), c14R2)
}

// entryArgsReadOnly (R7): a run is a function of the arguments given. The slices handed to the
// entry points (input files, root selectors) belong to the caller, who may run the same arguments
// again: no element store through such a parameter (or a re-slice of it), and no append to a
// re-slice of it (which writes the caller's backing array).
func entryArgsReadOnly(c *Ctx, rule string) {
	p := c.P
	c.note("%s entry-arguments-read-only: in every exported entry point of package lang no element of a slice parameter (or of a re-slice of it) is stored to, and no append extends a re-slice of it: filtering `args[:0]` in place rewrites the caller's slice, and the second run with the same arguments sees other selectors / files.", rule)
	for _, fn := range exportedLangEntryPoints(p) {
		for _, par := range fn.Params {
			if _, isSlice := par.Type().Underlying().(*types.Slice); !isSlice {
				continue
			}
			derived := map[ssa.Value]bool{par: true}
			for changed := true; changed; {
				changed = false
				allInstrs(fn, func(in ssa.Instruction) {
					v, ok := in.(ssa.Value)
					if !ok || derived[v] {
						return
					}
					switch x := in.(type) {
					case *ssa.Slice:
						if derived[x.X] {
							derived[v], changed = true, true
						}
					case *ssa.Phi:
						for _, e := range x.Edges {
							if derived[e] {
								derived[v], changed = true, true
							}
						}
					}
				})
			}
			var bad []string
			var at ssa.Instruction
			allInstrs(fn, func(in ssa.Instruction) {
				switch x := in.(type) {
				case *ssa.Store:
					if ia, ok := x.Addr.(*ssa.IndexAddr); ok && derived[ia.X] {
						bad, at = append(bad, "store to "+p.RenderShort(ia)), in
					}
				case *ssa.Call:
					if bi, ok := x.Call.Value.(*ssa.Builtin); ok && bi.Name() == "append" && len(x.Call.Args) > 0 && derived[x.Call.Args[0]] && x.Call.Args[0] != ssa.Value(par) {
						bad, at = append(bad, "append to "+p.RenderShort(x.Call.Args[0])), in
					}
				}
			})
			pos := p.Pos(fn.Pos())
			if at != nil {
				pos = p.InstrPos(at)
			}
			c.check(len(bad) == 0, rule, "entry-arguments-read-only "+shortName(fn)+" "+par.Name(), pos, "the caller's slice is only read", "the entry point writes into the slice its caller passed ("+strings.Join(bad, "; ")+"): the caller's arguments are different after the run, so running them again gives another result")
		}
	}
	c.floor(rule, 2)
}

// the fields of Evaluator and what they are for; anything else that evaluation writes is a memory of
// earlier evaluations
var evaluatorFields = map[string]string{
	"prog": "the parsed program", "lexer": "the program text (positions, literal text)", "stdout": "the output",
	"root": "the current root value (C14/R4)", "ruleRoot": "what `$` denotes (C02/R4)", "stackTop": "the frame stack (C08/R1)",
	"returnVal": "the return slot (C07/R4)", "beginRules": "rule lists (C02/R1)", "beginFileRules": "rule lists (C02/R1)",
	"patternRules": "rule lists (C02/R1)", "endRules": "rule lists (C02/R1)", "endFileRules": "rule lists (C02/R1)",
	"fuzzing": "the fuzzer's loop cap (C07/R9)",
}

// interpreterState: evaluation has no memory besides the documented state. A cache, a counter or a
// `last call site` kept in the evaluator or in the syntax tree makes the result of an evaluation depend
// on the evaluations before it.
func interpreterState(c *Ctx, rule string) {
	p := c.P
	c.note("%s interpreter-state: (a) the only fields of Evaluator written (stored, or updated when they are maps) outside its constructor are the documented ones: %s — each covered by its own rule; (b) no function outside the parser stores into a field of a syntax-tree node (Expr*, Statement*, Rule, MatchCase, ObjectKeyValue, Program): the tree is the same for every evaluation.", rule, strings.Join(sortedSet(setOfKeys(evaluatorFields)), ", "))
	ne := p.LangFunc("NewEvaluator")
	n := 0
	for _, fn := range p.Funcs {
		if !p.InLang(fn) || p.inTestFile(fn) {
			continue
		}
		inCtor := ne != nil && p.inClusterOf(ne, fn)
		isParserFn := strings.Contains(shortName(fn), "Parser") || (fn.Parent() == nil && isParselet(fn))
		allInstrs(fn, func(in ssa.Instruction) {
			switch x := in.(type) {
			case *ssa.Store:
				// an element of a list that hangs off a syntax-tree node (the cases of a match, the
				// statements of a block) is part of the tree as well
				if ia, isIdx := x.Addr.(*ssa.IndexAddr); isIdx && !isParserFn {
					if lf, isLoad := loadedField(ia.X); isLoad && lf.Struct != nil && isSyntaxNodeName(lf.Struct.Obj().Name()) && lf.Struct.Obj().Pkg() == p.Lang.Types {
						n++
						c.violated(rule, "syntax-tree-store "+lf.Struct.Obj().Name()+"."+lf.Name+"[] in "+shortName(fn), p.InstrPos(x), "an element of the list "+lf.Struct.Obj().Name()+"."+lf.Name+" of a syntax-tree node is written outside the parser: the tree (the order of a match's cases, a block's statements) changes while the program runs, so what an expression yields depends on the evaluations before it")
					}
					return
				}
				sf, ok := fieldOfAddr(x.Addr)
				if !ok || sf.Struct == nil {
					return
				}
				sn := sf.Struct.Obj().Name()
				if sn == "Evaluator" {
					n++
					if _, known := evaluatorFields[sf.Name]; !known && !inCtor {
						c.violated(rule, "evaluator-state Evaluator."+sf.Name+" in "+shortName(fn), p.InstrPos(x), "Evaluator."+sf.Name+" is not part of the documented interpreter state and is written during evaluation: what an evaluation yields then depends on the evaluations before it (a cache that is never invalidated, a counter, a remembered position)")
					}
					return
				}
				if _, fresh := stripLoads(sf.Base).(*ssa.Alloc); fresh {
					return // a node being built here
				}
				if !isParserFn && isSyntaxNodeName(sn) && sf.Struct.Obj().Pkg() == p.Lang.Types {
					n++
					c.violated(rule, "syntax-tree-store "+sn+"."+sf.Name+" in "+shortName(fn), p.InstrPos(x), "a field of the syntax-tree node "+sn+" is written outside the parser: the tree (and with it the meaning of the program text) changes while the program runs")
				}
			case *ssa.MapUpdate:
				ld, ok := x.Map.(*ssa.UnOp)
				if !ok {
					return
				}
				if sf, ok := fieldOfAddr(ld.X); ok && sf.Struct != nil && sf.Struct.Obj().Name() == "Evaluator" {
					n++
					if _, known := evaluatorFields[sf.Name]; !known && !inCtor {
						c.violated(rule, "evaluator-state Evaluator."+sf.Name+" in "+shortName(fn), p.InstrPos(x), "the map Evaluator."+sf.Name+" is not part of the documented interpreter state and is filled during evaluation: a memo that later evaluations read")
					}
				}
			}
		})
	}
	if n < 10 {
		c.undecided(rule, "interpreter-state instance-floor", "", fmt.Sprintf("%d stores to Evaluator fields found, 15 expected", n))
	} else {
		c.ok(rule, "interpreter-state", "", fmt.Sprintf("%d stores to Evaluator fields, all documented; no store into a syntax-tree node outside the parser", n))
	}
}

func isSyntaxNodeName(n string) bool {
	return strings.HasPrefix(n, "Expr") || strings.HasPrefix(n, "Statement") || n == "Rule" || n == "MatchCase" || n == "ObjectKeyValue" || n == "Program"
}

func setOfKeys(m map[string]string) map[string]bool {
	out := map[string]bool{}
	for k := range m {
		out[k] = true
	}
	return out
}

// mapRangeOrder (C10/R1, C07/R5, C17/R4)
func mapRangeOrder(c *Ctx, rule string) {
	p := c.P
	c.note("%s map-range-order: every `range` over a map in lang+cli is classified by its body. Order-insensitive: the body only (a) stores into a different map under the ranged key, (b) appends the ranged key to a slice that is passed to sort.Strings / slices.Sort before it is used otherwise. Anything else — writes to a builder or writer, evaluation of user statements, early returns, appends that are not sorted — makes the iteration order observable.", rule)
	n := 0
	for _, fn := range p.Funcs {
		if !(p.InLang(fn) || p.InCli(fn)) {
			continue
		}
		allInstrs(fn, func(in ssa.Instruction) {
			rg, ok := in.(*ssa.Range)
			if !ok {
				return
			}
			if _, isMap := rg.X.Type().Underlying().(*types.Map); !isMap {
				return
			}
			n++
			key := fmt.Sprintf("map-range over %s in %s", p.Render(rg.X), shortName(fn))
			// the Next instruction and the loop body
			var next *ssa.Next
			for _, r := range referrersOf(rg) {
				if nx, ok := r.(*ssa.Next); ok {
					next = nx
				}
			}
			if next == nil {
				c.undecided(rule, key, p.InstrPos(rg), "range without Next")
				return
			}
			hdr := next.Block()
			ifi, ok := hdr.Instrs[len(hdr.Instrs)-1].(*ssa.If)
			if !ok {
				c.undecided(rule, key, p.InstrPos(rg), "range header not understood")
				return
			}
			body := hdr.Succs[0]
			_ = ifi
			var keyV ssa.Value
			for _, r := range referrersOf(next) {
				if ex, ok := r.(*ssa.Extract); ok && ex.Index == 1 {
					keyV = ex
				}
			}
			loopBlocks := map[*ssa.BasicBlock]bool{}
			for b := range reachableFrom([]*ssa.BasicBlock{body}, map[*ssa.BasicBlock]bool{hdr: true}) {
				if b != hdr && hdr.Dominates(b) {
					loopBlocks[b] = true
				}
			}
			var sensitive []string
			var collected []ssa.Value // slices the keys are appended to
			for b := range loopBlocks {
				if !reachableFrom(b.Succs, nil)[hdr] {
					// a block that leaves the loop for good (return / break target inside dominated region)
					for _, in := range b.Instrs {
						if r, ok := in.(*ssa.Return); ok {
							sensitive = append(sensitive, "returns from inside the loop at "+p.InstrPos(r)+" (which element triggers the return depends on the order)")
						}
					}
				}
				for _, in := range b.Instrs {
					switch x := in.(type) {
					case *ssa.MapUpdate:
						if x.Map == rg.X {
							sensitive = append(sensitive, "updates the map being ranged at "+p.InstrPos(x))
						} else if x.Key != keyV {
							sensitive = append(sensitive, "stores under a key that is not the ranged key at "+p.InstrPos(x))
						}
					case *ssa.Store:
						if !isLocalAddr(x.Addr) {
							sensitive = append(sensitive, "stores to "+p.Render(x.Addr)+" at "+p.InstrPos(x))
						}
					case ssa.CallInstruction:
						cc := x.Common()
						if bi, ok := cc.Value.(*ssa.Builtin); ok {
							if bi.Name() == "append" {
								// appending the key (only) to a slice
								okApp := false
								if sl, ok := cc.Args[1].(*ssa.Slice); ok {
									if p.Render(sl) == "["+p.Render(keyV)+"][:]" {
										okApp = true
									}
								}
								if okApp {
									if v, ok := x.(ssa.Value); ok {
										collected = append(collected, v)
									}
								} else {
									sensitive = append(sensitive, "appends something other than the ranged key at "+p.InstrPos(x))
								}
							}
							continue
						}
						f := cc.StaticCallee()
						name := calleeName(cc)
						if f != nil && (shortName(f) == "lang.NewCell" || shortName(f) == "lang.NewValue") {
							continue
						}
						sensitive = append(sensitive, "calls "+name+" at "+p.InstrPos(x))
					case *ssa.Return:
						// handled above
					case *ssa.Send, *ssa.Go, *ssa.Defer:
						sensitive = append(sensitive, fmt.Sprintf("%T at %s", x, p.InstrPos(x)))
					}
				}
			}
			// collected key slices must be sorted before use: after the loop the slice (phi at the
			// header) must flow into sort.Strings / slices.Sort and that call must dominate every
			// other use
			if len(collected) > 0 && len(sensitive) == 0 {
				var phi *ssa.Phi
				for _, in := range hdr.Instrs {
					if ph, ok := in.(*ssa.Phi); ok {
						for _, e := range ph.Edges {
							for _, cv := range collected {
								if e == cv {
									phi = ph
								}
							}
						}
					}
				}
				if phi == nil {
					sensitive = append(sensitive, "keys are collected into a slice whose later uses were not understood")
				} else {
					var sortCall ssa.Instruction
					for _, r := range referrersOf(phi) {
						if call, ok := r.(ssa.CallInstruction); ok {
							if f := call.Common().StaticCallee(); f != nil {
								name := f.String()
								if o := f.Origin(); o != nil {
									name = o.String()
								}
								if name == "sort.Strings" || name == "slices.Sort" {
									sortCall = r
								}
							}
						}
					}
					if sortCall == nil {
						sensitive = append(sensitive, "the collected keys are not sorted with sort.Strings / slices.Sort (a custom comparator need not be a total order, and an unsorted slice carries the map order)")
					} else {
						for _, r := range referrersOf(phi) {
							if r == sortCall || loopBlocks[r.Block()] || r.Block() == hdr {
								continue
							}
							if !dominatesInstr(sortCall, r) {
								sensitive = append(sensitive, "the collected keys are used at "+p.InstrPos(r)+" before they are sorted")
							}
						}
					}
				}
			}
			if len(sensitive) == 0 {
				c.ok(rule, key, p.InstrPos(rg), "order-insensitive body")
			} else {
				sort.Strings(sensitive)
				c.violated(rule, key, p.InstrPos(rg), "the iteration order of this Go map is observable: "+strings.Join(dedup(sensitive), "; ")+" — Go randomises map order, so two runs on the same input can differ")
			}
		})
	}
	c.Analysed["map_ranges"] = n
	if n < 4 {
		c.undecided(rule, "instance-floor", "", fmt.Sprintf("%d map ranges found in lang+cli, 4 confirmed by hand (NewValue, sortedKeys, match bindings x2)", n))
	}
}

// R2 globals-write-once
func c10R2(c *Ctx) {
	p := c.P
	c.note("R2 globals-write-once: package-level variables of lang, cli and main. Allowed after package initialisation: a store to a pointer-typed singleton inside the one function that returns it, under the fact `singleton == nil` (lazy construction); no other store; no use of a variable's address other than loading / that store (a method call on a package-level buffer mutates it without a store instruction).")
	type gi struct {
		g   *ssa.Global
		pkg string
	}
	var globals []gi
	for _, pkg := range p.Pkgs {
		if strings.HasSuffix(pkg.ID, ".test") || strings.Contains(pkg.ID, " [") {
			continue
		}
		sp := p.SSAPkgs[pkg.ID]
		for _, m := range sp.Members {
			if g, ok := m.(*ssa.Global); ok && !strings.HasPrefix(g.Name(), "init$") {
				globals = append(globals, gi{g, pkg.Types.Name()})
			}
		}
	}
	sort.Slice(globals, func(i, j int) bool { return globals[i].g.Name() < globals[j].g.Name() })
	c.Analysed["package_level_variables"] = len(globals)
	for _, x := range globals {
		g := x.g
		key := "global " + x.pkg + "." + g.Name()
		var bad []string
		lazy := 0
		for _, fn := range p.Funcs {
			if p.inTestFile(fn) {
				continue
			}
			allInstrs(fn, func(in ssa.Instruction) {
				for _, op := range in.Operands(nil) {
					if *op != ssa.Value(g) {
						continue
					}
					switch y := in.(type) {
					case *ssa.UnOp:
						if y.Op == token.MUL {
							return // load
						}
					case *ssa.Store:
						if y.Addr == ssa.Value(g) {
							if fn.Name() == "init" && fn.Parent() == nil {
								return
							}
							// lazy singleton?
							facts := FactsOf(fn).At(y.Block())
							nilKnown := false
							for _, rl := range facts.Rels() {
								if rl.op == relEQ && globalLoaded(rl.x) == g && isNilConst(rl.y) {
									nilKnown = true
								}
							}
							returnsIt := false
							for _, r := range returnsOf(fn) {
								for _, rv := range r.Results {
									if globalLoaded(rv) == g {
										returnsIt = true
									}
								}
							}
							if nilKnown && returnsIt {
								lazy++
								return
							}
							bad = append(bad, "stored in "+shortName(fn)+" at "+p.InstrPos(y)+" outside a `== nil` lazy initialisation")
							return
						}
					case *ssa.DebugRef:
						return
					case *ssa.IndexAddr, *ssa.FieldAddr:
						// element / field of the variable: reading is fine, writing only in init
						isInit := fn.Name() == "init" && fn.Parent() == nil
						if readOnlyAddr(y.(ssa.Value), isInit) {
							return
						}
					}
					bad = append(bad, fmt.Sprintf("its address is used by %T in %s at %s", in, shortName(fn), p.InstrPos(in)))
				}
			})
		}
		if len(bad) > 0 {
			c.violated("R2", key, p.Pos(g.Pos()), "process-level mutable state: "+strings.Join(dedup(bad), "; ")+" — a later run in the same process can observe what an earlier run left behind")
		} else if lazy > 0 {
			c.ok("R2", key, p.Pos(g.Pos()), "lazily built singleton, stored only under `== nil` in its accessor")
		} else {
			c.ok("R2", key, p.Pos(g.Pos()), "never written after package initialisation")
		}
	}
	// globals whose value is a reference to mutable memory must not hand that reference out
	for _, x := range globals {
		g := x.g
		elem := g.Type().(*types.Pointer).Elem()
		switch elem.Underlying().(type) {
		case *types.Pointer, *types.Map, *types.Slice, *types.Chan:
		default:
			continue
		}
		var bad []string
		singleton := false
		for _, fn := range p.Funcs {
			if p.inTestFile(fn) {
				continue
			}
			allInstrs(fn, func(in ssa.Instruction) {
				u, ok := in.(*ssa.UnOp)
				if !ok || globalLoaded(u) != g {
					return
				}
				for _, r := range referrersOf(u) {
					switch y := r.(type) {
					case *ssa.BinOp, *ssa.DebugRef, *ssa.If:
					case *ssa.Lookup:
						// a read-only table: a lookup of a scalar element hands out a copy, not the map
						if y.X != ssa.Value(u) {
							bad = append(bad, "used as a key in "+shortName(fn)+" at "+p.InstrPos(y))
						} else if m, ok := elem.Underlying().(*types.Map); ok {
							if _, scalar := m.Elem().Underlying().(*types.Basic); !scalar {
								bad = append(bad, "an element (a reference) is read out in "+shortName(fn)+" at "+p.InstrPos(y))
							}
						}
					case *ssa.Return:
						// the accessor of a lazily built prototype returns it: covered by R3 (cells of
						// the prototype tables never escape a lookup)
						if strings.HasSuffix(g.Name(), "Prototype") && strings.HasSuffix(shortName(fn), "Prototype") {
							singleton = true
							continue
						}
						bad = append(bad, "returned by "+shortName(fn)+" at "+p.InstrPos(y))
					default:
						bad = append(bad, fmt.Sprintf("used by %T in %s at %s", r, shortName(fn), p.InstrPos(r)))
					}
				}
			})
		}
		key := "shared-reference " + x.pkg + "." + g.Name()
		if len(bad) > 0 {
			c.violated("R2", key, p.Pos(g.Pos()), "a package-level reference to mutable memory is handed out ("+strings.Join(dedup(bad), "; ")+"): whatever one run writes through it is seen by every later run in the process")
		} else if singleton {
			c.ok("R2", key, p.Pos(g.Pos()), "prototype singleton: handed out only by its accessor; its cells are protected by R3")
		} else {
			c.ok("R2", key, p.Pos(g.Pos()), "never handed out")
		}
	}
	// the closures a lazily built singleton keeps (the prototype methods) live as long as the process:
	// a variable they capture and write is process-level state just like a package-level variable
	{
		nClos := 0
		for _, fn := range p.Funcs {
			if p.inTestFile(fn) || fn.Parent() != nil || !p.InModule(fn) {
				continue
			}
			storesGlobal := false
			allInstrs(fn, func(in ssa.Instruction) {
				if st, ok := in.(*ssa.Store); ok {
					if _, isG := st.Addr.(*ssa.Global); isG && !(fn.Name() == "init") {
						storesGlobal = true
					}
				}
			})
			if !storesGlobal {
				continue
			}
			var walk func(f *ssa.Function)
			walk = func(f *ssa.Function) {
				for _, a := range f.AnonFuncs {
					nClos++
					allInstrs(a, func(in ssa.Instruction) {
						var addr ssa.Value
						switch y := in.(type) {
						case *ssa.Store:
							addr = y.Addr
						case *ssa.MapUpdate:
							addr = y.Map
						default:
							return
						}
						root := addr
						for {
							switch y := root.(type) {
							case *ssa.FieldAddr:
								root = y.X
								continue
							case *ssa.IndexAddr:
								root = y.X
								continue
							case *ssa.UnOp:
								if y.Op == token.MUL {
									if _, isFV := y.X.(*ssa.FreeVar); isFV {
										root = y.X
									}
								}
							}
							break
						}
						if fv, ok := root.(*ssa.FreeVar); ok {
							c.violated("R2", "singleton-closure-state "+shortName(a)+": "+fv.Name(), p.InstrPos(in), "a closure kept by the process-wide singleton built in "+shortName(fn)+" writes the captured variable `"+fv.Name()+"`: the variable lives as long as the process, so what one call (or one run) leaves in it is seen by every later one")
						}
					})
					walk(a)
				}
			}
			walk(fn)
		}
		c.check(nClos >= 10, "R2", "singleton-closures", "", fmt.Sprintf("%d closures kept by lazily built singletons write no captured variable", nClos), fmt.Sprintf("only %d closures of lazily built singletons found, 16 confirmed by hand", nClos))
	}
	if len(globals) < 10 {
		c.undecided("R2", "instance-floor", "", fmt.Sprintf("%d package-level variables found, 12 confirmed by hand", len(globals)))
	}
	// flag.* variables in cli are function-local; the flag package's own globals are out of scope
}

var ambientForbidden = []string{"time.", "math/rand.", "math/rand/v2.", "crypto/rand.", "os.Getenv", "os.Environ", "os.LookupEnv", "os.Getpid", "os.Hostname", "os.Getwd", "runtime.NumGoroutine", "runtime.Gosched", "runtime.NumCPU", "runtime.GOMAXPROCS", "runtime.Stack", "runtime.Caller", "unsafe."}

func ambientHits(p *Program, fns []*ssa.Function) []string {
	var hits []string
	for _, fn := range fns {
		allInstrs(fn, func(in ssa.Instruction) {
			switch x := in.(type) {
			case *ssa.Go:
				hits = append(hits, "go statement in "+shortName(fn)+" at "+p.InstrPos(x))
			case *ssa.Select:
				hits = append(hits, "select in "+shortName(fn)+" at "+p.InstrPos(x))
			case ssa.CallInstruction:
				if f := x.Common().StaticCallee(); f != nil && !p.InModule(f) {
					name := f.String()
					for _, forb := range ambientForbidden {
						if strings.HasPrefix(name, forb) || strings.HasPrefix(name, "("+forb) || strings.HasPrefix(name, "(*"+forb) {
							hits = append(hits, "call to "+name+" in "+shortName(fn)+" at "+p.InstrPos(x))
						}
					}
				}
			}
		})
	}
	return hits
}

// R4 no-ambient-inputs
func c10R4(c *Ctx) {
	p := c.P
	c.note("R4 no-ambient-inputs: no function of package lang (the whole interpreter) calls %s, starts a goroutine or selects. Expected count zero; the matcher is run on checker/testdata/ambient on every run, where it must fire.", strings.Join(ambientForbidden, " "))
	var fns []*ssa.Function
	for _, f := range p.Funcs {
		if p.InLang(f) {
			fns = append(fns, f)
		}
	}
	hits := ambientHits(p, fns)
	if len(hits) == 0 {
		c.ok("R4", "interpreter ambient inputs", "", fmt.Sprintf("none in %d functions of package lang", len(fns)))
	} else {
		for i, h := range hits {
			c.violated("R4", fmt.Sprintf("ambient #%d", i+1), "", h+": the result of a run then depends on something other than program, selectors and input")
		}
	}
	// positive example
	dir := filepath.Join(verifDir(), "checker", "testdata", "ambient")
	if _, err := os.Stat(dir); err != nil {
		c.undecided("R4", "positive-example", "", "checker/testdata/ambient is missing: the zero-count rule cannot show that it is able to fire")
		return
	}
	tp, err := LoadDir(dir)
	if err != nil {
		c.undecided("R4", "positive-example", "", "positive example does not load: "+err.Error())
		return
	}
	th := ambientHits(tp, tp.Funcs)
	c.check(len(th) >= 4, "R4", "positive-example", "checker/testdata/ambient", fmt.Sprintf("the matcher fires %d times on the positive example", len(th)), fmt.Sprintf("the matcher fired only %d times on the positive example (4 expected): the rule is blind", len(th)))
}

// readOnlyAddr: the address is only loaded from (or, in package init, stored to).
func readOnlyAddr(a ssa.Value, inInit bool) bool {
	for _, r := range referrersOf(a) {
		switch x := r.(type) {
		case *ssa.UnOp:
			if x.Op != token.MUL {
				return false
			}
		case *ssa.Store:
			if x.Addr != a || !inInit {
				return false
			}
		case *ssa.IndexAddr:
			if !readOnlyAddr(x, inInit) {
				return false
			}
		case *ssa.FieldAddr:
			if !readOnlyAddr(x, inInit) {
				return false
			}
		default:
			return false
		}
	}
	return true
}

// inputReaderOnlyDecoded (R9): the readers handed to the interpreter belong to the caller. The
// interpreter gives each to a JSON decoder and does nothing else with it — it does not ask what else
// the reader can do (io.Closer, io.Seeker) and act on it, which makes a run depend on the reader's
// dynamic type and leaves the caller's handle in another state for the next run.
func inputReaderOnlyDecoded(c *Ctx, rule string) {
	p := c.P
	c.note("%s input-reader-only-decoded: in package lang every use of a value loaded from InputFile.Reader is as the argument of encoding/json.NewDecoder; no type assertion on it, no method invoked on it, no copy kept.", rule)
	n := 0
	for _, fn := range p.Funcs {
		if !p.InLang(fn) || p.inTestFile(fn) {
			continue
		}
		allInstrs(fn, func(in ssa.Instruction) {
			v, ok := in.(ssa.Value)
			if !ok {
				return
			}
			sf, isF := loadedField(v)
			if !isF || !sf.Is("InputFile", "Reader") {
				return
			}
			var bad []string
			for _, r := range referrersOf(v) {
				switch x := r.(type) {
				case *ssa.DebugRef:
				case ssa.CallInstruction:
					if f := x.Common().StaticCallee(); f != nil && f.String() == "encoding/json.NewDecoder" {
						continue
					}
					bad = append(bad, "used by "+p.RenderShort(x.Common().Value))
				case *ssa.TypeAssert:
					bad = append(bad, "type assertion to "+shortType(x.AssertedType))
				default:
					bad = append(bad, fmt.Sprintf("%T", r))
				}
			}
			n++
			c.check(len(bad) == 0, rule, fmt.Sprintf("input-reader-only-decoded %s #%d", shortName(fn), n), p.InstrPos(in), "the reader goes to json.NewDecoder only", "the caller's reader is also "+strings.Join(bad, "; ")+": what the run does then depends on the reader's dynamic type (a file is closed, a strings.Reader is not), and the caller's handle is in another state for the next run over the same input")
		})
	}
	c.floor(rule, 1)
}

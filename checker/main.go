package main

// jqcheck: repo-specific static analyser for the jqawk properties C01..C20.
//
//   jqcheck Cxx [--tier quick|thorough]     decide property Cxx on /repo's current tree
//   jqcheck all [--tier ...]                every property (one load), for development
//   jqcheck explain <replay.json>           print a finding record
//
// exit 0: every obligation ok (or listed in known_findings.txt)
// exit 1: at least one VIOLATED / UNDECIDED obligation (a VIOLATION line is printed for each)
// exit 2: the analysis could not run (load / type errors, self-test of a rule failed)

import (
	"crypto/sha1"
	"encoding/json"
	"fmt"
	"os"
	"path/filepath"
	"runtime/debug"
	"sort"
	"strconv"
	"strings"
	"time"
)

type Obligation struct {
	Rule    string `json:"rule"`
	Key     string `json:"key"`
	Pos     string `json:"pos,omitempty"`
	Verdict string `json:"verdict"` // ok | VIOLATED | UNDECIDED | known
	Detail  string `json:"detail,omitempty"`
	Config  string `json:"config,omitempty"`
}

// Ctx collects the obligations of one property on one build configuration.
type Ctx struct {
	P        *Program
	Property string
	Tier     string
	Obs      []Obligation
	Notes    []string       // rule descriptions, exceptions (printed in evidence)
	Counts   map[string]int // per-rule instance counts
	Analysed map[string]int
}

func (c *Ctx) add(rule, key, pos, verdict, detail string) {
	c.Obs = append(c.Obs, Obligation{Rule: c.Property + "/" + rule, Key: key, Pos: pos, Verdict: verdict, Detail: detail, Config: c.P.Cfg.Name})
	c.Counts[rule]++
}
func (c *Ctx) ok(rule, key, pos, detail string)        { c.add(rule, key, pos, "ok", detail) }
func (c *Ctx) violated(rule, key, pos, detail string)  { c.add(rule, key, pos, "VIOLATED", detail) }
func (c *Ctx) undecided(rule, key, pos, detail string) { c.add(rule, key, pos, "UNDECIDED", detail) }
func (c *Ctx) check(cond bool, rule, key, pos, okDetail, badDetail string) bool {
	if cond {
		c.ok(rule, key, pos, okDetail)
	} else {
		c.violated(rule, key, pos, badDetail)
	}
	return cond
}
func (c *Ctx) note(format string, a ...interface{}) {
	c.Notes = append(c.Notes, fmt.Sprintf(format, a...))
}

// shared runs a rule set that is registered under another property as a rule of this one: the
// structural condition it decides is a necessary condition of both. The obligations are relabelled
// to this property's rule; keep selects the obligations that matter here (nil: all).
// activeShares: the shared rules being evaluated right now (by source rule). A rule set that is run as
// the source of a shared rule runs its own shared rules too; two rule sets that borrow from each other
// (C04 <- C16/R3, C16 <- C04/R6) would otherwise never finish. The inner, repeated evaluation is
// skipped: its obligations are those of the outer one.
var activeShares = map[string]int{}

func (c *Ctx) shared(rule, from, why string, keep func(o Obligation) bool, f func(sub *Ctx)) {
	if activeShares[from] > 0 {
		return
	}
	activeShares[from]++
	defer func() { activeShares[from]-- }()
	sub := &Ctx{P: c.P, Property: c.Property, Tier: c.Tier, Counts: map[string]int{}, Analysed: map[string]int{}}
	f(sub)
	n := 0
	for _, o := range sub.Obs {
		if keep != nil && !keep(o) {
			continue
		}
		o.Rule = c.Property + "/" + rule
		c.Obs = append(c.Obs, o)
		c.Counts[rule]++
		n++
	}
	for k, v := range sub.Analysed {
		if c.Analysed[k] < v {
			c.Analysed[k] = v
		}
	}
	c.note("%s (shared with %s): %s", rule, from, why)
	if n == 0 {
		c.undecided(rule, "shared-rule "+from, "", "the shared rule produced no obligation for this property")
	}
}

func keyHas(subs ...string) func(Obligation) bool {
	return func(o Obligation) bool {
		for _, s := range subs {
			if strings.Contains(o.Key, s) {
				return true
			}
		}
		return false
	}
}

func ruleIs(r string) func(Obligation) bool {
	return func(o Obligation) bool { return strings.HasSuffix(o.Rule, "/"+r) }
}

// floor: a rule that matches fewer instances than were confirmed by hand is UNDECIDED.
func (c *Ctx) floor(rule string, min int) {
	if c.Counts[rule] < min {
		c.undecided(rule, "instance-floor", "", fmt.Sprintf("rule matched %d instance(s), fewer than the %d confirmed by hand: the rule no longer sees the code it was written for", c.Counts[rule], min))
	}
}

type ruleSet struct {
	id    string
	run   func(c *Ctx)
	title string
	// text for evidence
	decided    string
	notDecided string
}

var registry = map[string]*ruleSet{}

func register(r *ruleSet) { registry[r.id] = r }

type knownFinding struct {
	Property string
	Key      string
	What     string
}

func verifDir() string {
	if d := os.Getenv("JQCHECK_VERIF"); d != "" {
		return d
	}
	return "/verif"
}

// outDir: where evidence is written (JQCHECK_OUT for self-tests on scratch copies, so that the
// evidence of the real tree is never overwritten by a mutant run).
func outDir() string {
	if d := os.Getenv("JQCHECK_OUT"); d != "" {
		return d
	}
	return filepath.Join(verifDir(), "evidence")
}

func loadKnown() []knownFinding {
	data, err := os.ReadFile(filepath.Join(verifDir(), "known_findings.txt"))
	if err != nil {
		return nil
	}
	var out []knownFinding
	for _, line := range strings.Split(string(data), "\n") {
		line = strings.TrimSpace(line)
		if !strings.HasPrefix(line, "known:") {
			continue // "fixed:" lines and comments suppress nothing
		}
		rest := strings.TrimSpace(strings.TrimPrefix(line, "known:"))
		parts := strings.SplitN(rest, "::", 2)
		what := ""
		if len(parts) == 2 {
			what = strings.TrimSpace(parts[1])
		}
		kf := knownFinding{What: what}
		for _, f := range strings.Fields(parts[0]) {
			if strings.HasPrefix(f, "property=") {
				kf.Property = strings.TrimPrefix(f, "property=")
			}
		}
		if i := strings.Index(parts[0], "key="); i >= 0 {
			kf.Key = strings.TrimSpace(parts[0][i+4:])
		}
		if kf.Property != "" && kf.Key != "" {
			out = append(out, kf)
		}
	}
	return out
}

func configsFor(tier string) []LoadConfig {
	cfgs := []LoadConfig{{Name: "default"}}
	if tier == "thorough" {
		cfgs = append(cfgs,
			LoadConfig{Name: "tests+tag-verif", Tests: true, Tags: "verif"},
			LoadConfig{Name: "GOARCH=386", Env: []string{"GOARCH=386"}},
			LoadConfig{Name: "GOOS=windows", Env: []string{"GOOS=windows"}},
		)
	}
	return cfgs
}

func main() {
	debug.SetGCPercent(400)
	args := os.Args[1:]
	if len(args) == 0 {
		fmt.Fprintln(os.Stderr, "usage: jqcheck Cxx|all [--tier quick|thorough] | explain <replay.json>")
		os.Exit(2)
	}
	tier := os.Getenv("VERIF_TIER")
	if tier == "" {
		tier = "quick"
	}
	var ids []string
	for i := 0; i < len(args); i++ {
		switch {
		case args[i] == "--tier" && i+1 < len(args):
			tier = args[i+1]
			i++
		case args[i] == "manifest":
			manifestCmd()
			return
		case args[i] == "dump":
			dumpCmd(args[i+1:])
			return
		case args[i] == "explain" && i+1 < len(args):
			data, err := os.ReadFile(args[i+1])
			if err != nil {
				fmt.Fprintln(os.Stderr, err)
				os.Exit(2)
			}
			fmt.Println(string(data))
			return
		case args[i] == "all":
			for id := range registry {
				ids = append(ids, id)
			}
		default:
			ids = append(ids, args[i])
		}
	}
	sort.Strings(ids)
	if tier != "quick" && tier != "thorough" {
		fmt.Fprintln(os.Stderr, "unknown tier", tier)
		os.Exit(2)
	}
	for _, id := range ids {
		if registry[id] == nil {
			fmt.Fprintf(os.Stderr, "no rule set for %s\n", id)
			os.Exit(2)
		}
	}
	seed := 0
	if s := os.Getenv("VERIF_SEED"); s != "" {
		seed, _ = strconv.Atoi(s)
	}

	exit := 0
	progs := map[string]*Program{}
	for _, id := range ids {
		start := time.Now()
		var all []Obligation
		var notes []string
		stats := map[string]map[string]int{}
		counts := map[string]int{}
		broken := ""
		for _, lc := range configsFor(tier) {
			p := progs[lc.Name]
			if p == nil {
				var err error
				p, err = Load(repoDir(), lc)
				if err != nil {
					broken = fmt.Sprintf("config %s: %v", lc.Name, err)
					break
				}
				progs[lc.Name] = p
			}
			c := &Ctx{P: p, Property: id, Tier: tier, Counts: map[string]int{}, Analysed: map[string]int{}}
			func() {
				defer func() {
					if r := recover(); r != nil {
						c.undecided("internal", "panic", "", fmt.Sprintf("analysis panicked: %v\n%s", r, debug.Stack()))
					}
				}()
				registry[id].run(c)
			}()
			all = append(all, c.Obs...)
			if lc.Name == "default" {
				notes = c.Notes
				for k, v := range c.Counts {
					counts[k] = v
				}
			}
			st := map[string]int{}
			for k, v := range p.Stats {
				st[k] = v
			}
			for k, v := range c.Analysed {
				st[k] = v
			}
			stats[lc.Name] = st
		}
		code := report(id, tier, seed, all, notes, counts, stats, broken, time.Since(start))
		if code > exit {
			exit = code
		}
	}
	os.Exit(exit)
}

func report(id, tier string, seed int, obs []Obligation, notes []string, counts map[string]int, stats map[string]map[string]int, broken string, dur time.Duration) int {
	rs := registry[id]
	known := loadKnown()
	edir := outDir()
	os.MkdirAll(filepath.Join(edir, "replay"), 0o755)
	// remove stale replay files of this property
	if old, _ := filepath.Glob(filepath.Join(edir, "replay", id+"-*.json")); old != nil {
		for _, f := range old {
			os.Remove(f)
		}
	}
	nviol, nknown, nok, nund := 0, 0, 0, 0
	var lines []string
	sort.SliceStable(obs, func(i, j int) bool {
		if obs[i].Rule != obs[j].Rule {
			return obs[i].Rule < obs[j].Rule
		}
		return obs[i].Key < obs[j].Key
	})
	for i := range obs {
		o := &obs[i]
		if o.Verdict == "VIOLATED" {
			for _, k := range known {
				if k.Property == id && k.Key == o.Rule+" "+o.Key {
					o.Verdict = "known"
					lines = append(lines, fmt.Sprintf("KNOWN-FINDING: property=%s %s %s :: %s", id, o.Rule, o.Key, k.What))
				}
			}
		}
		switch o.Verdict {
		case "ok":
			nok++
		case "known":
			nknown++
		case "UNDECIDED":
			nund++
		case "VIOLATED":
			nviol++
		}
	}
	fmt.Printf("== %s (%s) tier=%s: %d obligations: %d ok, %d VIOLATED, %d UNDECIDED, %d known\n", id, rs.title, tier, len(obs), nok, nviol, nund, nknown)
	verbose := os.Getenv("JQCHECK_VERBOSE") != ""
	for _, o := range obs {
		if o.Verdict == "ok" && !verbose {
			continue
		}
		fmt.Printf("  [%s] %s %s @ %s (%s)\n      %s\n", o.Verdict, o.Rule, o.Key, o.Pos, o.Config, o.Detail)
	}
	for _, l := range lines {
		fmt.Println(l)
	}
	if broken != "" {
		fmt.Printf("BROKEN: %s\n", broken)
		rec := filepath.Join(edir, "replay", id+"-broken.json")
		data, _ := json.MarshalIndent(map[string]string{"property": id, "kind": "analysis-could-not-run", "reason": broken}, "", " ")
		os.WriteFile(rec, data, 0o644)
		fmt.Printf("VIOLATION property=%s replay=%s kind=undecided (analysis could not run)\n", id, rec)
	}
	for _, o := range obs {
		if o.Verdict != "VIOLATED" && o.Verdict != "UNDECIDED" {
			continue
		}
		h := sha1.Sum([]byte(o.Rule + "|" + o.Key + "|" + o.Config))
		rec := filepath.Join(edir, "replay", fmt.Sprintf("%s-%s-%x.json", id, strings.ReplaceAll(strings.SplitN(o.Rule, "/", 2)[1], "/", "_"), h[:5]))
		data, _ := json.MarshalIndent(o, "", " ")
		os.WriteFile(rec, data, 0o644)
		kind := "violated"
		if o.Verdict == "UNDECIDED" {
			kind = "undecided"
		}
		fmt.Printf("VIOLATION property=%s replay=%s kind=%s rule=%s construct=%q at=%s\n", id, rec, kind, o.Rule, o.Key, o.Pos)
	}

	// evidence
	var samples []interface{}
	perRule := map[string]bool{}
	for _, o := range obs {
		if o.Config != "default" {
			continue
		}
		if !perRule[o.Rule] || o.Verdict != "ok" {
			perRule[o.Rule] = true
			if len(samples) < 40 {
				samples = append(samples, o)
			}
		}
	}
	distinct := map[string]bool{}
	for _, o := range obs {
		distinct[o.Rule+"|"+o.Key] = true
	}
	ev := map[string]interface{}{
		"property_id": id,
		"tier":        tier,
		"seed":        seed,
		"level":       "other",
		"wall_s":      dur.Seconds(),
		"violations":  nviol + nund,
		"coverage": map[string]interface{}{
			"explanation": "Static analysis of /repo's current working tree (go/packages -> type-checked AST -> go/ssa + call graph); nothing is executed. " +
				"Every rule instance is an obligation keyed by rule + semantic construct; the rule instances over the loaded program are enumerated completely. " +
				"Decided: " + rs.decided + " Not decided: " + rs.notDecided,
			"obligations":            len(obs),
			"discharged":             nok,
			"known_findings":         nknown,
			"undecided":              nund,
			"violated":               nviol,
			"evaluations":            len(obs),
			"distinct_nontrivial":    len(distinct),
			"rule":                   "one obligation per (rule, semantic construct, build configuration); distinct = distinct (rule, construct) pairs; all are non-trivial in that each names a construct of the analysed source",
			"instances_per_rule":     counts,
			"analysed":               stats,
			"rules_and_exceptions":   notes,
			"samples":                samples,
			"exhaustive":             true,
			"checker_cmd":            "bin/jqcheck " + id + " --tier " + tier,
			"build_configurations":   len(stats),
			"analysis_could_not_run": broken,
		},
		"assumptions": []string{
			"the Go type checker, go/ssa and the VTA call graph of golang.org/x/tools v0.29.0 model the program faithfully",
			"library semantics (encoding/json, strconv, strings, math, regexp, slices) are trusted",
			"decided clauses are structural necessary conditions of the behavioural property, not the behaviour itself: " + rs.notDecided,
		},
	}
	data, _ := json.MarshalIndent(ev, "", " ")
	os.WriteFile(filepath.Join(edir, id+".json"), data, 0o644)
	if broken != "" {
		return 1
	}
	if nviol+nund > 0 {
		return 1
	}
	return 0
}

package main

import (
	"fmt"
	"go/token"
	"sort"
	"strings"

	"golang.org/x/tools/go/ssa"
)

func init() {
	register(&ruleSet{
		id:    "C05",
		title: "operator results for every combination of operand kinds",
		run:   runC05,
		decided: "which Go operation, on which operands in which order, under which guard, each operator arm of the evaluator performs (operator table extracted per operator tag with a may-set analysis over the tag tests and compared, as normalised dataflow, with the documented table): dispatch is exhaustive for every operator tag the parser can put on a node; comparisons map to Compare(left, right) ⊙ 0 with the unset special case; arithmetic uses the numeric coercions in (left, right) order, + concatenates string forms when either operand is a string; the divide-by-zero guards test the (truncated) divisor only and dominate the division; && and || evaluate the right operand only on the documented edge and yield booleans; `is` type names map to the matching tags; ~ / !~ compile the right operand's text and match the left operand's string form; the coercion tables isTruthy / asFloat64 / String / Compare." +
			" Every operand is the result of evalExpr on the node's own child, left before right; a value that went through copyValue keeps its kind and payload. ~ and !~ answer with the verdict of the match and nothing else, and nothing outside that arm compiles a pattern; prefix ++ / -- yield the value that was stored.",
		notDecided: "IEEE results, strings.Compare and RE2 semantics (trusted libraries), i.e. the numerical table itself.",
	})
}

// abbreviations applied to renderings of evalBinaryExpr / evalUnaryExpr
func abbrevBinary(s string) string {
	r := strings.NewReplacer(
		"(*lang.Evaluator).evalExpr(e, expr.Left)#0", "L",
		"(*lang.Evaluator).evalExpr(e, expr.Right)#0", "R",
		"(*lang.Evaluator).evalExpr(e, expr.Left)#1", "Lerr",
		"(*lang.Evaluator).evalExpr(e, expr.Right)#1", "Rerr",
		"(*lang.Evaluator).evalExpr(e, expr.Expr)#0", "X",
		"(*lang.Evaluator).evalExpr(e, expr.Expr)#1", "Xerr",
		"expr.OpToken.Tag", "op",
		"(*lang.Value).", "",
		"(*lang.Evaluator).", "",
		"&lang.Cell{Value: ", "cell{",
		"lang.NewValue(", "val(",
	)
	return r.Replace(s)
}

type opCase struct {
	Ret    *ssa.Return
	Ops    []string
	Value  string
	Guards map[string]bool
}

// opCases: the success returns of fn with the set of operator tags that can reach them.
func opCases(p *Program, fn *ssa.Function, universe []string) []opCase {
	ms := p.maySetOf(fn, "expr.OpToken.Tag", universe)
	var out []opCase
	tagVal := map[string]int64{}
	for v, n := range constNames(p.Lang.Types, "TokenTag") {
		tagVal[n] = v
	}
	for _, rc := range p.successResults(fn) {
		oc := opCase{Ret: rc.Ret, Value: abbrevBinary(rc.Value), Guards: map[string]bool{}}
		oc.Ops = ms.At(rc.Ret.Block())
		for _, g := range rc.Guards {
			oc.Guards[abbrevBinary(g)] = true
		}
		// `return NewCell(NewValue(b))` with a computed boolean b is the same table row as the two
		// returns `if b { …true } …false`: when b depends on the operator only it is evaluated per
		// operator; when it is the truthiness of an operand it stands for both booleans
		if bv := boolInsideCell(rc.Ret); bv != nil && rc.Inner == nil {
			var rest []string
			split := false
			for _, op := range oc.Ops {
				if val, known := evalOpBool(p, bv, tagVal[op], 0); known {
					c2 := oc
					c2.Ops = []string{op}
					c2.Value = "cell{val(" + fmt.Sprint(val) + ")}"
					out = append(out, c2)
					split = true
				} else {
					rest = append(rest, op)
				}
			}
			if split {
				oc.Ops = rest
				if len(rest) == 0 {
					continue
				}
			}
			if call, _ := callOf(bv); call != nil && staticCalleeIs(call, "(*lang.Value).isTruthy") {
				for _, v := range []string{"true", "false"} {
					c2 := oc
					c2.Value = "cell{val(" + v + ")}"
					out = append(out, c2)
				}
				continue
			}
		}
		out = append(out, oc)
	}
	return out
}

// boolInsideCell: the non-constant boolean b of a return `NewCell(NewValue(b)), nil`.
func boolInsideCell(ret *ssa.Return) ssa.Value {
	res := effectiveResults(ret)
	if len(res) == 0 {
		return nil
	}
	cell, _ := callOf(res[0])
	if cell == nil || !staticCalleeIs(cell, "lang.NewCell") {
		return nil
	}
	val, _ := callOf(cell.Call.Args[0])
	if val == nil || !staticCalleeIs(val, "lang.NewValue") {
		return nil
	}
	mi, ok := val.Call.Args[0].(*ssa.MakeInterface)
	if !ok || !isBoolType(mi.X.Type()) {
		return nil
	}
	if _, isC := mi.X.(*ssa.Const); isC {
		return nil
	}
	return mi.X
}

// evalOpBool evaluates a boolean that is computed from the operator tag alone (comparisons of
// expr.OpToken.Tag with constants, !, and the phis of && / ||) for one operator.
func evalOpBool(p *Program, v ssa.Value, op int64, depth int) (bool, bool) {
	if depth > 8 {
		return false, false
	}
	switch x := v.(type) {
	case *ssa.Const:
		if b, ok := constBool(x); ok {
			return b, true
		}
	case *ssa.UnOp:
		if x.Op == token.NOT {
			b, known := evalOpBool(p, x.X, op, depth+1)
			return !b, known
		}
	case *ssa.BinOp:
		if x.Op != token.EQL && x.Op != token.NEQ {
			return false, false
		}
		for _, pair := range [][2]ssa.Value{{x.X, x.Y}, {x.Y, x.X}} {
			if k, ok := constInt(pair[1]); ok && p.Render(pair[0]) == "expr.OpToken.Tag" {
				return (k == op) == (x.Op == token.EQL), true
			}
		}
	case *ssa.Phi:
		have, val := false, false
		// is the edge from -> to taken for this operator? (decided by the branch at the end of `from`,
		// and by the branches that lead to `from` when it has a single predecessor)
		var taken func(from, to *ssa.BasicBlock, d int) (bool, bool)
		taken = func(from, to *ssa.BasicBlock, d int) (bool, bool) {
			if d > 6 {
				return false, false
			}
			if ifi, ok := from.Instrs[len(from.Instrs)-1].(*ssa.If); ok {
				cnd, known := evalOpBool(p, ifi.Cond, op, depth+1)
				if !known {
					return false, false
				}
				if cnd != (from.Succs[0] == to) {
					return false, true
				}
			}
			if len(from.Preds) == 1 && !from.Dominates(from.Preds[0]) && x.Block().Idom() != nil && x.Block().Idom() != from {
				return taken(from.Preds[0], from, d+1)
			}
			return true, true
		}
		for i, e := range x.Edges {
			pred := x.Block().Preds[i]
			if tk, known := taken(pred, x.Block(), 0); !known {
				return false, false
			} else if !tk {
				continue // this edge is not taken for this operator
			}
			b, known := evalOpBool(p, e, op, depth+1)
			if !known || (have && b != val) {
				return false, false
			}
			have, val = true, b
		}
		return val, have
	}
	return false, false
}

// binaryOperatorUniverse: the operator tags the parser can put on an ExprBinary node.
func binaryOperatorUniverse(p *Program, m *prattModel) (map[string]string, []string) {
	u := map[string]string{}
	var problems []string
	rowsOf := func(f *ssa.Function) []string {
		var out []string
		for _, r := range m.Rows {
			if r.Infix == f {
				out = append(out, r.Tag)
			}
		}
		return out
	}
	tagUniverse := []string{}
	for _, n := range m.TagNames {
		tagUniverse = append(tagUniverse, n)
	}
	for _, f := range p.Funcs {
		if !p.InLang(f) {
			continue
		}
		allInstrs(f, func(in ssa.Instruction) {
			a, ok := in.(*ssa.Alloc)
			if !ok || !isLangNamed(a.Type(), "ExprBinary") {
				return
			}
			// the OpToken stored
			var tok ssa.Value
			for _, rf := range referrersOf(a) {
				if fa, ok := rf.(*ssa.FieldAddr); ok {
					if sf, ok := fieldOfAddr(fa); ok && sf.Name == "OpToken" {
						for _, rr := range referrersOf(fa) {
							if st, ok := rr.(*ssa.Store); ok && st.Addr == ssa.Value(fa) {
								tok = st.Val
							}
						}
					}
				}
			}
			tagR := ""
			if tok == nil {
				// the token written field by field into the node (OpToken: Token{Tag: …})
				for _, rf := range referrersOf(a) {
					fa, ok := rf.(*ssa.FieldAddr)
					if !ok {
						continue
					}
					if sf, ok := fieldOfAddr(fa); !ok || sf.Name != "OpToken" {
						continue
					}
					for _, rr := range referrersOf(fa) {
						fa2, ok := rr.(*ssa.FieldAddr)
						if !ok {
							continue
						}
						if sf2, ok := fieldOfAddr(fa2); !ok || sf2.Name != "Tag" {
							continue
						}
						for _, r3 := range referrersOf(fa2) {
							if st, ok := r3.(*ssa.Store); ok && st.Addr == ssa.Value(fa2) {
								tagR = "lang.Token{Tag: " + p.Render(st.Val) + "}"
							}
						}
					}
				}
				if tagR == "" {
					problems = append(problems, "ExprBinary built without an OpToken at "+p.InstrPos(a))
					return
				}
			} else {
				tagR = p.Render(tok)
			}
			where := shortName(f) + " at " + p.InstrPos(a)
			switch {
			case strings.HasPrefix(tagR, "lang.Token{Tag: "):
				// synthetic token: constant tag or a merge of constants
				inner := strings.TrimPrefix(tagR, "lang.Token{Tag: ")
				inner = inner[:strings.IndexAny(inner, ",}")]
				if strings.HasPrefix(inner, "phi(") {
					for _, t := range strings.Split(strings.TrimSuffix(strings.TrimPrefix(inner, "phi("), ")"), " | ") {
						if t != "0" && t != "EOF" {
							u[t] = where
						}
					}
					// the zero value of the merge (no case matched) is discharged by C01/R5
				} else {
					u[inner] = where
				}
			case tagR == "*p.previous" || tagR == "*p.current" || tagR == "opToken" || consumedTokenText(p, tagR):
				base := rowsOf(f)
				if prm, isPrm := tok.(*ssa.Parameter); isPrm && tagR != "opToken" || isPrm && len(rowsOf(f)) == 0 && !isCompoundRewriterFn(p, f) {
					// a node constructor taking the operator token as a parameter (`binaryNode(left, opToken,
					// right)`): the token is what its call sites pass
					if tags, _, ok := tokenValueTags(p, f, prm, a, 0); ok && len(tags) > 0 {
						for _, t := range tags {
							u[t] = where
						}
						return
					}
				}
				if tagR == "opToken" {
					// helper taking the operator token as a parameter: handled through its callers
					return
				}
				if len(base) == 0 {
					problems = append(problems, where+": operator token taken from the parser cursor in a function that is not an infix parselet of the table")
					return
				}
				// refine by the tag tests between the read of the token and the construction
				loc := tagR + ".Tag"

				ms := p.maySetOf(f, loc, base)
				for _, t := range ms.At(a.Block()) {
					u[t] = where
				}
			default:
				// any other provenance the token-tag analysis of C01/R5 resolves (a consume-and-return
				// helper called with constant tags, …)
				if tok != nil {
					if tags, _, ok := tokenValueTags(p, f, tok, a, 0); ok && len(tags) > 0 {
						for _, t := range tags {
							u[t] = where
						}
						return
					}
				}
				problems = append(problems, where+": operator token of unrecognised provenance: "+tagR)
			}
		})
	}
	_ = tagUniverse
	var names []string
	for k := range u {
		names = append(names, k)
	}
	sort.Strings(names)
	_ = names
	return u, problems
}

func runC05(c *Ctx) {
	p := c.P
	m := extractPratt(p)
	eb := p.LangFunc("(*Evaluator).evalBinaryExpr")
	eu := p.LangFunc("(*Evaluator).evalUnaryExpr")
	if eb == nil || eu == nil || m.Climb == nil {
		c.undecided("R1", "anchors", "", "evalBinaryExpr / evalUnaryExpr / the Pratt model not found")
		return
	}
	// no store to Token.Tag in the evaluator functions (the may-set treats reloads of the tag as one location)
	for _, f := range []*ssa.Function{eb, eu} {
		if n := len(storesToField(f, "Token", "Tag", false)); n > 0 {
			c.undecided("R1", "tag-stable "+shortName(f), p.Pos(f.Pos()), "the operator tag is written inside the evaluator function")
		}
	}
	uni, problems := binaryOperatorUniverse(p, m)
	for _, pr := range problems {
		c.undecided("R1", "operator-universe", "", pr)
	}
	var U []string
	for k := range uni {
		U = append(U, k)
	}
	sort.Strings(U)
	c.note("R1 operator-dispatch-exhaustive: operator tags that can label an ExprBinary node (from every construction site in the parser, refined by the tag tests that precede it): %s; ExprUnary: tags of the rows whose prefix/infix parselet builds it. Each must reach a handling arm; the `unknown operator` arms must be unreachable for them.", strings.Join(U, ", "))
	if len(U) < 19 {
		c.undecided("R1", "operator-universe size", "", fmt.Sprintf("%d binary operator tags derived from the parser, 19 confirmed by hand: %s", len(U), strings.Join(U, ", ")))
	}
	c.Analysed["binary_operator_tags"] = len(U)

	cases := opCases(p, eb, U)
	got := map[string]map[string]bool{}
	for _, oc := range cases {
		for _, op := range oc.Ops {
			if got[op] == nil {
				got[op] = map[string]bool{}
			}
			got[op][oc.Value] = true
		}
	}
	// R1: unknown-operator arm unreachable
	ek := EKOf(p)
	msB := p.maySetOf(eb, "expr.OpToken.Tag", U)
	for _, r := range returnsOf(eb) {
		res := effectiveResults(r)
		if strings.Contains(p.Render(res[1]), "unknown operator") {
			reach := msB.At(r.Block())
			c.check(len(reach) == 0, "R1", "binary unknown-operator arm", p.InstrPos(r), "unreachable for every operator the parser can produce", "operators {"+strings.Join(reach, ", ")+"} are produced by the parser but fall into the `unknown operator` arm of evalBinaryExpr")
		}
	}
	_ = ek

	cmp := "Compare(&L.Value, &R.Value)#0"
	aL, aR := "asFloat64(&L.Value)", "asFloat64(&R.Value)"
	t, f := "cell{val(true)}", "cell{val(false)}"
	oracle := map[string][]string{
		"AmpAmp":       {t, f},
		"PipePipe":     {t, f},
		"LessThan":     {t, "cell{val((" + cmp + " < 0))}"},
		"GreaterThan":  {t, "cell{val((" + cmp + " > 0))}"},
		"EqualEqual":   {f, "cell{val((" + cmp + " == 0))}"},
		"BangEqual":    {f, "cell{val((" + cmp + " != 0))}"},
		"LessEqual":    {f, "cell{val((" + cmp + " <= 0))}"},
		"GreaterEqual": {f, "cell{val((" + cmp + " >= 0))}"},
		"Plus":         {"cell{val((String(&L.Value) + String(&R.Value)))}", "cell{val((" + aL + " + " + aR + "))}"},
		"Minus":        {"cell{val((" + aL + " - " + aR + "))}"},
		"Multiply":     {"cell{val((" + aL + " * " + aR + "))}"},
		"Divide":       {"cell{val((" + aL + " / " + aR + "))}"},
		"Percent":      {"cell{val((int(" + aL + ") % int(" + aR + ")))}"},
		// the verdict of the match and nothing else: a constant answer for some operands (the same cell on
		// both sides, a string equal to the pattern text) skips the match and the compile error (F-30)
		"Tilde":     {"cell{val((*regexp.Regexp).MatchString(regexp.Compile(*R.Value.Str)#0, String(&L.Value)))}"},
		"BangTilde": {"cell{val(!(*regexp.Regexp).MatchString(regexp.Compile(*R.Value.Str)#0, String(&L.Value)))}"},
		"Equal":     {"evalAssignment(e, expr, L, R)#0"},
		"Dot":       {"GetMember(&L.Value, R.Value)#0", "cell{val(nil) with {Str: &String(&R.Value), Num: R.Value.Num, ParentObj: &L.Value}}"},
		"LSquare":   {"GetMember(&L.Value, R.Value)#0", "cell{val(nil) with {Str: &String(&R.Value), Num: R.Value.Num, ParentObj: &L.Value}}"},
	}
	c.note("R2/R3 comparison- and arithmetic-table: per operator tag, the set of distinct success results of evalBinaryExpr (L, R = the evaluated left / right operand cells): %v", oracle)
	var ops []string
	for op := range oracle {
		ops = append(ops, op)
	}
	sort.Strings(ops)
	for _, op := range ops {
		rule := "R3"
		switch op {
		case "LessThan", "GreaterThan", "EqualEqual", "BangEqual", "LessEqual", "GreaterEqual":
			rule = "R2"
		case "AmpAmp", "PipePipe":
			rule = "R5"
		case "Tilde", "BangTilde":
			rule = "R7"
		}
		miss, extra := diffSets(got[op], setOf(oracle[op]))
		if len(miss)+len(extra) == 0 {
			c.ok(rule, "operator "+op, p.Pos(eb.Pos()), strings.Join(oracle[op], " ; "))
		} else {
			c.violated(rule, "operator "+op, p.Pos(eb.Pos()), fmt.Sprintf("operator %s computes {%s}; documented: {%s}", op, keysOf(got[op]), strings.Join(oracle[op], " ; ")))
		}
	}
	// operators of the universe without oracle row: is, ~, !~ are handled by R6/R7
	for _, op := range U {
		if _, ok := oracle[op]; ok {
			continue
		}
		switch op {
		case "Is":
		default:
			c.undecided("R1", "operator "+op, uni[op], "the parser can produce this operator but the oracle has no row for it")
		}
	}
	// guards
	guardReq := []struct{ rule, op, result, guard, why string }{
		{"R2", "LessThan", t, "", ""},
		{"R4", "Divide", "cell{val((" + aL + " / " + aR + "))}", aR + " != 0", "the division must be guarded by divisor != 0"},
		{"R4", "Percent", "cell{val((int(" + aL + ") % int(" + aR + ")))}", "int(" + aR + ") != 0", "the integer remainder must be guarded by the truncated divisor != 0 (a non-zero float whose integer part is zero would otherwise panic)"},
		{"R3", "Plus", "cell{val((String(&L.Value) + String(&R.Value)))}", "op == Plus", "concatenation only for +"},
	}
	for _, gr := range guardReq {
		if gr.guard == "" {
			continue
		}
		for _, oc := range cases {
			if oc.Value != gr.result {
				continue
			}
			c.check(oc.Guards[gr.guard], gr.rule, "guard "+gr.op+" "+gr.guard, p.InstrPos(oc.Ret), "holds on every path to the operation", gr.why+"; not established at this return (holds: "+keysOf(oc.Guards)+")")
		}
	}
	// R2: the unset special case: returned under a tag test on unknown, before Compare
	for _, oc := range cases {
		if oc.Value == t || oc.Value == f {
			isCmp := false
			for _, op := range oc.Ops {
				if op == "LessThan" || op == "EqualEqual" {
					isCmp = true
				}
			}
			if !isCmp {
				continue
			}
			// the block must be reached by tag-unknown test: no Compare call dominates it
			dominated := false
			for _, call := range callsIn(eb) {
				if staticCalleeIs(call, "(*lang.Value).Compare") && call.Block().Dominates(oc.Ret.Block()) {
					dominated = true
				}
			}
			c.check(!dominated, "R2", "unset-special-case "+strings.Join(oc.Ops, ","), p.InstrPos(oc.Ret), "constant verdict for unset operands is decided before Compare", "a constant comparison verdict is returned after Compare")
		}
	}
	c05ZeroGuard(c, eb)
	c.shared("R11", "C06/R1", "unary minus yields the negation of its operand for every spelling: the prefix parselet takes its operand from the expression parser on every path (it never folds sign and digits into one literal token)", keyHas("rbp lang.unary", "rbp-bypass"), func(s *Ctx) { prattParselets(s, m) })
	c.shared("R10", "C09/R3", "an operand that went through copyValue (argument, container element, assigned scalar) keeps its kind and payload: the operator tables are only right if a copied regex is still a regex, a copied null still null", keyHas("copy Value"), c09R3)
	c05ShortCircuit(c, eb)
	c05Concat(c, eb)
	c05Is(c, eb)
	c05Regex(c, eb)
	c05Unary(c, eu, m)
	c05Coercions(c)
	operandEvaluation(c, eb, eu)
}

// R4 zero-guard-depends-on-divisor-only: the divide-by-zero error returns are guarded by
// (truncated) divisor == 0, a fact about the right operand only.
func c05ZeroGuard(c *Ctx, eb *ssa.Function) {
	p := c.P
	c.note("R4 zero-guard-depends-on-divisor-only: each `divide by zero` error return is reached exactly under (truncated) divisor == 0 — a must-fact there, so the guard cannot also fire on the dividend — and each division is dominated by divisor != 0 on the same SSA value it divides by.")
	F := FactsOf(eb)
	n := 0
	for _, r := range returnsOf(eb) {
		res := effectiveResults(r)
		if !strings.Contains(p.Render(res[1]), `"divide by zero"`) {
			continue
		}
		n++
		var gs []string
		for _, rl := range F.At(r.Block()).Rels() {
			gs = append(gs, abbrevBinary(p.Render(rl.x)+" "+rl.op.String()+" "+p.Render(rl.y)))
		}
		g := setOf(gs)
		okG := g["asFloat64(&R.Value) == 0"] || g["int(asFloat64(&R.Value)) == 0"]
		c.check(okG, "R4", fmt.Sprintf("zero-error #%d", n), p.InstrPos(r), "reported exactly when the divisor is zero", "the `divide by zero` error is returned on a path where `divisor == 0` is not established: the guard also depends on something else (e.g. the dividend), so a legal operation such as 0 / 5 is refused")
	}
	if n < 2 {
		c.undecided("R4", "zero-error", p.Pos(eb.Pos()), fmt.Sprintf("%d `divide by zero` error returns found, 2 confirmed by hand", n))
	}
	divisionGuards(c, "R4")
}

// divisionGuards: every QUO / REM with a non-constant divisor is dominated by divisor != 0.
func divisionGuards(c *Ctx, rule string) {
	p := c.P
	for _, fn := range p.Funcs {
		if !p.InLang(fn) && !p.InCli(fn) {
			continue
		}
		allInstrs(fn, func(in ssa.Instruction) {
			b, ok := in.(*ssa.BinOp)
			if !ok || (b.Op != token.QUO && b.Op != token.REM) {
				return
			}
			if _, isC := b.Y.(*ssa.Const); isC {
				return
			}
			key := fmt.Sprintf("division %s in %s", b.Op, shortName(fn))
			_ = rule
			guarded := false
			for _, rl := range FactsOf(fn).At(b.Block()).Rels() {
				if rl.op == relNE && rl.x == b.Y {
					if k, ok := constFloat(rl.y); ok && k == 0 {
						guarded = true
					}
				}
			}
			c.check(guarded, rule, key, p.InstrPos(b), "dominated by divisor != 0 on the divisor's own value", "the divisor "+abbrevBinary(p.Render(b.Y))+" is not known to be non-zero here (for integers: a Go runtime panic)")
		})
	}
}

// R5 short-circuit
func c05ShortCircuit(c *Ctx, eb *ssa.Function) {
	p := c.P
	c.note("R5 short-circuit: in the && arm the right operand is evaluated only on the true edge of isTruthy(left), in the || arm only on its false edge; both arms return boolean constants only (checked in the operator table).")
	ms := p.maySetOf(eb, "expr.OpToken.Tag", []string{"AmpAmp", "PipePipe", "other"})
	for _, call := range callsIn(eb) {
		cv, ok := call.(*ssa.Call)
		if !ok || !staticCalleeIs(cv, "(*lang.Evaluator).evalExpr") || argDesc(cv) != "ExprBinary.Right" {
			continue
		}
		ops := ms.At(cv.Block())
		if len(ops) != 1 || ops[0] == "other" {
			continue
		}
		// the truth of isTruthy(&L.Value) at the call
		want := ops[0] == "AmpAmp"
		known := false
		for f := range FactsOf(eb).At(cv.Block()) {
			if abbrevBinary(p.Render(f.cond)) == "isTruthy(&L.Value)" && f.truth == want {
				known = true
			}
		}
		c.check(known, "R5", "short-circuit "+ops[0], p.InstrPos(cv), fmt.Sprintf("right operand evaluated only when isTruthy(left) == %v", want), fmt.Sprintf("the right operand of %s is evaluated on a path where isTruthy(left) == %v is not established: it is evaluated when it should be skipped (its side effects and errors become visible)", ops[0], want))
	}
}

// R3 concatenation guard
func c05Concat(c *Ctx, eb *ssa.Function) {
	p := c.P
	for _, oc := range opCases(p, eb, []string{"Plus", "Minus", "Multiply", "Divide", "Percent", "other"}) {
		if oc.Value != "cell{val((String(&L.Value) + String(&R.Value)))}" {
			continue
		}
		// reached via (L.tag == Str) or (R.tag == Str): the block has two predecessors carrying one fact each
		b := oc.Ret.Block()
		// walk up to the block with several predecessors
		for len(b.Preds) == 1 {
			b = b.Preds[0]
		}
		F := FactsOf(eb)
		okAll := len(b.Preds) > 0
		for _, pred := range b.Preds {
			has := false
			for _, rl := range F.OnEdge(pred, b).Rels() {
				s := abbrevBinary(p.Render(rl.x) + " " + rl.op.String() + " " + p.Render(rl.y))
				if s == "L.Value.Tag == ValueStr" || s == "R.Value.Tag == ValueStr" {
					has = true
				}
			}
			if !has {
				okAll = false
			}
		}
		c.check(okAll, "R3", "concat-guard", p.InstrPos(oc.Ret), "concatenation exactly when either operand is a string", "the string concatenation arm is reachable without `left is a string or right is a string`")
	}
}

// R6 is-table
func c05Is(c *Ctx, eb *ssa.Function) {
	p := c.P
	c.note("R6 is-table: type-name strings map to the value tags whose printed names (stringer -linecomment of ValueTag) they are: string, bool, number, array, object, regex, unknown; keyword forms function -> ValueFn, null -> ValueNil; the tested value is the left operand's tag.")
	want := map[string]string{"string": "ValueStr", "bool": "ValueBool", "number": "ValueNum", "array": "ValueArray", "object": "ValueObj", "regex": "ValueRegex", "unknown": "ValueUnknown"}
	got := map[string]string{}
	found := false
	// the switch sits in evalBinaryExpr or in a helper split off it that is handed the left operand
	type isScope struct {
		fn   *ssa.Function
		left string // how the left operand's cell is spelled there
	}
	scopes := []isScope{{eb, ""}}
	for _, call := range callsIn(eb) {
		g := call.Common().StaticCallee()
		if g == nil || g == eb || !p.inClusterOf(eb, g) {
			continue
		}
		args := call.Common().Args
		for i, a := range args {
			if abbrevBinary(p.Render(a)) == "L" && i < len(g.Params) {
				scopes = append(scopes, isScope{g, p.Render(g.Params[i])})
			}
		}
	}
	for _, sc := range scopes {
		sc := sc
		F := FactsOf(sc.fn)
		allInstrs(sc.fn, func(in ssa.Instruction) {
			phi, ok := in.(*ssa.Phi)
			if !ok || found {
				return
			}
			isBool := false
			if bt, ok := phi.Type().Underlying().(interface{ Kind() int }); ok {
				_ = bt
			}
			if phi.Type().String() == "bool" {
				isBool = true
			}
			if !isBool {
				return
			}
			tmp := map[string]string{}
			for i, e := range phi.Edges {
				r := abbrevBinary(p.Render(e))
				if sc.left != "" && strings.HasPrefix(r, "("+sc.left+".Value.Tag == ") {
					r = "(L" + strings.TrimPrefix(r, "("+sc.left)
				}
				if !strings.HasPrefix(r, "(L.Value.Tag == ") {
					continue
				}
				tag := strings.TrimSuffix(strings.TrimPrefix(r, "(L.Value.Tag == "), ")")
				for _, rl := range F.OnEdge(phi.Block().Preds[i], phi.Block()).Rels() {
					if rl.op == relEQ {
						if s, ok := constString(rl.y); ok {
							tmp[s] = tag
						}
					}
				}
			}
			if len(tmp) >= 3 {
				got = tmp
				found = true
			}
		})
	}
	if !found {
		c.undecided("R6", "is-table", p.Pos(eb.Pos()), "the type-name switch of the `is` arm was not found")
	} else {
		var names []string
		for n := range want {
			names = append(names, n)
		}
		sort.Strings(names)
		for _, n := range names {
			c.check(got[n] == want[n], "R6", "is "+n, p.Pos(eb.Pos()), n+" -> "+got[n], fmt.Sprintf("`is %s` tests tag %q; documented: %s", n, got[n], want[n]))
		}
		for n := range got {
			if _, ok := want[n]; !ok {
				c.undecided("R6", "is "+n, p.Pos(eb.Pos()), "type name not in the documented list")
			}
		}
	}
	// keyword forms
	kw := map[string]string{"Function": "cell{val((L.Value.Tag == ValueFn))}", "Null": "cell{val((L.Value.Tag == ValueNil))}"}
	for _, rc := range p.successResults(eb) {
		v := abbrevBinary(rc.Value)
		for k, wantV := range kw {
			if v == wantV {
				g := setOf(rc.Guards)
				c.check(g["expr.Right.(*lang.ExprIdentifier)#0.token.Tag == "+k] && g["expr.OpToken.Tag == Is"], "R6", "is-keyword "+k, p.InstrPos(rc.Ret), k+" -> "+wantV, "the keyword form is not returned under `right token is "+k+"`")
				delete(kw, k)
			}
		}
	}
	for k := range kw {
		c.violated("R6", "is-keyword "+k, p.Pos(eb.Pos()), "no arm `is "+strings.ToLower(k)+"` testing the matching tag")
	}
	// the printed names of the tags (stringer -linecomment) agree with the is-names
	names := valueTagPrintedNames(p)
	for n, tag := range want {
		if pn, ok := names[tag]; ok {
			c.check(pn == n, "R6", "printed-name "+tag, "", tag+" prints as "+pn, fmt.Sprintf("%s prints as %q in messages but `is` calls it %q", tag, pn, n))
		} else {
			c.undecided("R6", "printed-name "+tag, "", "no //-comment name found for "+tag)
		}
	}
}

// valueTagPrintedNames reads the line comments of the ValueTag constants (stringer -linecomment).
func valueTagPrintedNames(p *Program) map[string]string {
	out := map[string]string{}
	for _, file := range p.Lang.Syntax {
		for _, cg := range file.Comments {
			_ = cg
		}
		for _, d := range file.Decls {
			gd, ok := d.(interface{ Pos() token.Pos })
			_ = gd
			_ = ok
		}
	}
	// use the generated String method's table instead: _ValueTag_name + _ValueTag_index
	sp := p.SSAPkgs[p.Lang.ID]
	var nameConst string
	if nc, ok := sp.Members["_ValueTag_name"].(*ssa.NamedConst); ok {
		nameConst, _ = constString(nc.Value)
	}
	idx, ok := sp.Members["_ValueTag_index"].(*ssa.Global)
	if nameConst == "" || !ok {
		return out
	}
	// the index array initialiser: stores in init
	var bounds []int64
	if ini := sp.Func("init"); ini != nil {
		vals := map[int64]int64{}
		allInstrs(ini, func(in ssa.Instruction) {
			st, ok := in.(*ssa.Store)
			if !ok {
				return
			}
			ia, ok := st.Addr.(*ssa.IndexAddr)
			if !ok {
				return
			}
			base := ia.X
			if base != ssa.Value(idx) {
				// may be a local complit later stored whole
				return
			}
			i, _ := constInt(ia.Index)
			v, _ := constInt(st.Val)
			vals[i] = v
		})
		for i := int64(0); i < int64(len(vals)); i++ {
			bounds = append(bounds, vals[i])
		}
	}
	tags := constNames(p.Lang.Types, "ValueTag")
	if len(bounds) < 2 {
		return out
	}
	for i := 0; i+1 < len(bounds); i++ {
		if tn, ok := tags[int64(i)]; ok && bounds[i+1] <= int64(len(nameConst)) {
			out[tn] = nameConst[bounds[i]:bounds[i+1]]
		}
	}
	return out
}

// R7 regex-arm
func c05Regex(c *Ctx, eb *ssa.Function) {
	p := c.P
	// an invalid pattern is a runtime error raised when the match is evaluated — and only then: nothing
	// but the match arm of the evaluator compiles a pattern (a parser that validates regex literals turns
	// a pattern that is never matched, or sits behind a short circuit, into a syntax error)
	{
		n := 0
		for _, fn := range p.Funcs {
			if !(p.InLang(fn) || p.InCli(fn)) || p.inTestFile(fn) {
				continue
			}
			for _, call := range callsIn(fn) {
				f := call.Common().StaticCallee()
				if f == nil || f.Pkg == nil || f.Pkg.Pkg.Path() != "regexp" {
					continue
				}
				switch f.Name() {
				case "Compile", "MustCompile", "CompilePOSIX", "MustCompilePOSIX", "Match", "MatchString", "MatchReader":
				default:
					continue
				}
				n++
				c.check(fn == eb || p.inClusterOf(eb, fn), "R7", "pattern-compiled-by-the-match-only "+shortName(fn), p.InstrPos(call), "compiled where the match is evaluated", "a regular expression is compiled in "+shortName(fn)+", outside the evaluation of ~ / !~: a pattern is then judged (and its error raised) at another time than the match — at parse time an invalid literal that is never matched becomes a syntax error")
			}
		}
		if n == 0 {
			c.undecided("R7", "pattern-compiled-by-the-match-only", p.Pos(eb.Pos()), "no call of regexp.Compile found")
		}
	}
	c.note("R7 regex-arm: the pattern text is *right.Value.Str under right tag string|regex (anything else is an error); it is compiled by regexp.Compile on every evaluation, the compile error is reported as a runtime error, the compiled regexp of this evaluation is matched against String(left); !~ negates the ~ result.")
	var compile, match *ssa.Call
	for _, call := range callsIn(eb) {
		cv, ok := call.(*ssa.Call)
		if !ok {
			continue
		}
		if f := cv.Call.StaticCallee(); f != nil {
			switch f.String() {
			case "regexp.Compile":
				compile = cv
			case "(*regexp.Regexp).MatchString":
				match = cv
			}
		}
	}
	if compile == nil || match == nil {
		c.violated("R7", "regex-calls", p.Pos(eb.Pos()), "the match arm does not call regexp.Compile and (*Regexp).MatchString")
		return
	}
	argR := abbrevBinary(p.Render(compile.Call.Args[0]))
	c.check(argR == "*R.Value.Str", "R7", "pattern-operand", p.InstrPos(compile), "regexp.Compile(*right.Value.Str)", "the compiled pattern is "+argR+", not the right operand's text")
	// tag guard on the right operand at the compile
	ms := p.maySetOf(eb, "(*lang.Evaluator).evalExpr(e, expr.Right)#0.Value.Tag", valueTagNames(p))
	tags := ms.At(compile.Block())
	c.check(strings.Join(tags, ",") == "ValueRegex,ValueStr", "R7", "pattern-kinds", p.InstrPos(compile), "pattern taken from a string or a regex only", "the pattern's Str payload is read for right operand kinds {"+strings.Join(tags, ", ")+"}; only string and regex carry one")
	recv := abbrevBinary(p.Render(match.Call.Args[0]))
	subj := abbrevBinary(p.Render(match.Call.Args[1]))
	c.check(recv == "regexp.Compile(*R.Value.Str)#0", "R7", "match-uses-this-compile", p.InstrPos(match), "the regexp matched is the one compiled in this evaluation", "MatchString is called on "+recv+", not on the regexp compiled from this evaluation's right operand (a cached or stale pattern)")
	c.check(subj == "String(&L.Value)", "R7", "match-subject", p.InstrPos(match), "matched against String(left)", "the subject of the match is "+subj+", not the left operand's string form")
	c.check(dominatesInstr(compile, match), "R7", "compile-before-match", p.InstrPos(match), "compile dominates match", "the match is not dominated by the compile")
	// the result values (~: MatchString's verdict, !~: its negation; same operand: true / false) are rows of the operator table above
}

func valueTagNames(p *Program) []string {
	var out []string
	for _, n := range constNames(p.Lang.Types, "ValueTag") {
		out = append(out, n)
	}
	sort.Strings(out)
	return out
}

func c05Unary(c *Ctx, eu *ssa.Function, m *prattModel) {
	p := c.P
	// universe: rows whose prefix parselet or infix parselet builds an ExprUnary
	uset := map[string]bool{}
	builds := func(f *ssa.Function) bool {
		if f == nil {
			return false
		}
		b := false
		allInstrs(f, func(in ssa.Instruction) {
			if a, ok := in.(*ssa.Alloc); ok && isLangNamed(a.Type(), "ExprUnary") {
				b = true
			}
		})
		return b
	}
	for _, r := range m.Rows {
		if builds(r.Prefix) || builds(r.Infix) {
			uset[r.Tag] = true
		}
	}
	var U []string
	for k := range uset {
		U = append(U, k)
	}
	sort.Strings(U)
	c.Analysed["unary_operator_tags"] = len(U)
	if strings.Join(U, ",") != "Bang,Minus,MinusMinus,Plus,PlusPlus" {
		c.undecided("R1", "unary-universe", "", "unary operator tags derived from the parser: "+strings.Join(U, ", ")+"; confirmed by hand: Bang, Minus, MinusMinus, Plus, PlusPlus")
	}
	ms := p.maySetOf(eu, "expr.OpToken.Tag", U)
	for _, r := range returnsOf(eu) {
		if strings.Contains(p.Render(effectiveResults(r)[1]), "unknown operator") {
			reach := ms.At(r.Block())
			c.check(len(reach) == 0, "R1", "unary unknown-operator arm", p.InstrPos(r), "unreachable for every unary operator the parser can produce", "unary operators {"+strings.Join(reach, ", ")+"} fall into the `unknown operator` arm")
		}
	}
	got := map[string]map[string]bool{}
	for _, oc := range opCases(p, eu, U) {
		for _, op := range oc.Ops {
			if got[op] == nil {
				got[op] = map[string]bool{}
			}
			got[op][oc.Value] = true
		}
	}
	a := "asFloat64(&X.Value)"
	oracle := map[string][]string{
		"Bang":       {"cell{val(!isTruthy(&X.Value))}"},
		"Plus":       {"cell{val(" + a + ")}"},
		"Minus":      {"cell{val(-" + a + ")}"},
		"PlusPlus":   {"cell{val(" + a + ")}", "cell{STORED}"},
		"MinusMinus": {"cell{val(" + a + ")}", "cell{STORED}"},
	}
	for op, want := range oracle {
		if op == "PlusPlus" || op == "MinusMinus" {
			// the prefix form yields the value that was stored (incdec-prefix-result decides which forms
			// are that value)
			for v := range got[op] {
				if incdecStoredForm(v) {
					delete(got[op], v)
					got[op]["cell{STORED}"] = true
				}
			}
		}
		miss, extra := diffSets(got[op], setOf(want))
		c.check(len(miss)+len(extra) == 0, "R3", "unary operator "+op, p.Pos(eu.Pos()), strings.Join(want, " ; "), fmt.Sprintf("unary %s computes {%s}; documented {%s}", op, keysOf(got[op]), strings.Join(want, " ; ")))
	}
	incdecTable(c, "R3", eu)
}

// incdecTable (C05 / C09-R5): ++ stores old+1, -- stores old-1 through evalAssignment; the postfix
// form yields the old number, the prefix form the updated cell.
func incdecTable(c *Ctx, rule string, eu *ssa.Function) {
	p := c.P
	F := FactsOf(eu)
	var asg *ssa.Call
	for _, call := range callsIn(eu) {
		if staticCalleeIs(call, "(*lang.Evaluator).evalAssignment") {
			asg, _ = call.(*ssa.Call)
		}
	}
	if asg == nil {
		c.violated(rule, "incdec-assignment", p.Pos(eu.Pos()), "++/-- do not store through evalAssignment")
		return
	}
	target := abbrevBinary(p.Render(asg.Call.Args[2]))
	c.check(target == "X", rule, "incdec-target", p.InstrPos(asg), "the operand cell is the assignment target", "++/-- assign to "+target+", not to the operand's cell")
	// the new value: NewCell(newValue) where newValue is a local var stored under tag facts
	got := map[string]string{}
	msOp := p.maySetOf(eu, "expr.OpToken.Tag", tokenTagNames(p))
	allInstrs(eu, func(in ssa.Instruction) {
		phi, ok := in.(*ssa.Phi)
		if !ok || !isLangNamed(phi.Type(), "Value") {
			return
		}
		for i, e := range phi.Edges {
			r := abbrevBinary(p.Render(e))
			if !strings.HasPrefix(r, "val((asFloat64(&X.Value) ") {
				continue
			}
			// which operator: the may-set of the operator tag where this value is computed (a switch
			// arm, or the else of `if op == ++` inside the arm for ++ and --)
			if def, ok := e.(ssa.Instruction); ok {
				if tags := msOp.At(def.Block()); len(tags) == 1 {
					got[tags[0]] = r
				}
			} else if tags := msOp.At(phi.Block().Preds[i]); len(tags) == 1 {
				got[tags[0]] = r
			}
		}
	})
	c.check(got["PlusPlus"] == "val((asFloat64(&X.Value) + 1))", rule, "incdec ++", p.InstrPos(asg), "++ stores old + 1", "++ stores "+got["PlusPlus"])
	c.check(got["MinusMinus"] == "val((asFloat64(&X.Value) - 1))", rule, "incdec --", p.InstrPos(asg), "-- stores old - 1", "-- stores "+got["MinusMinus"])
	// postfix yields the old number, prefix the updated cell
	for _, rc := range p.successResults(eu) {
		v := abbrevBinary(rc.Value)
		var pf *bool
		for f := range F.At(rc.Ret.Block()) {
			if p.Render(f.cond) == "expr.Postfix" {
				t := f.truth
				pf = &t
			}
		}
		if pf == nil {
			continue
		}
		// a result is handed out only where the assignment succeeded: its error (the fill limit's `index
		// too large` among them) is not overtaken by a success return
		if asg.Block().Dominates(rc.Ret.Block()) {
			tested := false
			for _, rl := range F.At(rc.Ret.Block()).Rels() {
				if call, idx := callOf(rl.x); call == asg && idx == 1 && rl.op == relEQ && isNilConst(rl.y) {
					tested = true
				}
			}
			form := "prefix"
			if *pf {
				form = "postfix"
			}
			c.check(tested, rule, "incdec-assignment-error "+form, p.InstrPos(rc.Ret), "the "+form+" result is returned where the assignment's error is nil", "the "+form+" form returns its result without having tested the error of the assignment: a refused store (index too large, not assignable) goes unreported and the run continues")
		}
		if *pf {
			c.check(v == "cell{val(asFloat64(&X.Value))}", rule, "incdec-postfix-result", p.InstrPos(rc.Ret), "postfix yields the old number", "the postfix form yields "+v)
		} else {
			// the value that was stored (the merge of old+1 / old-1), or what the assignment returned — not a
			// re-read of the operand cell: for a member that does not exist yet (a[len]) that cell is a
			// placeholder, the assignment creates the real one (F-27)
			c.check(incdecStoredForm(v), rule, "incdec-prefix-result", p.InstrPos(rc.Ret), "prefix yields the value that was stored", "the prefix form yields "+v+", not the value that was stored: where the operand is a member that does not exist yet, the operand cell is a placeholder and the result is null")
		}
	}
}

// R8 coercion tables
func c05Coercions(c *Ctx) {
	p := c.P
	c.note("R8 coercion-tables: isTruthy — bool: its value, number: != 0, string: len > 0, array/object/function/native function: true, everything else (null, unset, regex): false; asFloat64 — number: its value, bool: 1/0, string: ParseFloat of the text itself or 0, else 0; String — string: its text, number: FormatFloat('f', -1, 64), else \"\"; Compare — null ordering, error for containers, bytewise for two strings, numeric coercions otherwise.")
	c.checkArm("R8", "isTruthy", p.LangFunc("(*Value).isTruthy"), armSpec{
		Results: []string{"*v.Bool", "(*v.Num != 0)", "(len(*v.Str) > 0)", "true", "false"},
		Effects: []string{},
		Guards: map[string][]string{"*v.Bool": {"v.Tag == ValueBool"}, "(*v.Num != 0)": {"v.Tag == ValueNum"}, "(len(*v.Str) > 0)": {"v.Tag == ValueStr"},
			"false": {"v.Tag != ValueArray", "v.Tag != ValueObj", "v.Tag != ValueFn", "v.Tag != ValueNativeFn", "v.Tag != ValueBool", "v.Tag != ValueNum", "v.Tag != ValueStr"}},
		Source: "false, 0, \"\", null, unset and regex are falsy",
	})
	// `true` is returned exactly for array, object, fn, nativefn
	it := p.LangFunc("(*Value).isTruthy")
	if it != nil {
		ms := p.maySetOf(it, "v.Tag", valueTagNames(p))
		for _, rc := range p.successResults(it) {
			if rc.Value == "true" {
				tags := strings.Join(ms.At(rc.Ret.Block()), ",")
				c.check(tags == "ValueArray,ValueFn,ValueNativeFn,ValueObj", "R8", "isTruthy always-true kinds", p.InstrPos(rc.Ret), tags, "constant true is returned for kinds {"+tags+"}; documented: arrays, objects and functions")
			}
			if rc.Value == "false" {
				tags := strings.Join(ms.At(rc.Ret.Block()), ",")
				c.check(tags == "ValueNil,ValueRegex,ValueUnknown", "R8", "isTruthy always-false kinds", p.InstrPos(rc.Ret), tags, "constant false is returned for kinds {"+tags+"}; documented: null, unset, regex")
			}
		}
	}
	c.checkArm("R8", "asFloat64", p.LangFunc("(*Value).asFloat64"), armSpec{
		Results: []string{"*v.Num", "1", "0", "strconv.ParseFloat(*v.Str, 64)#0"},
		Effects: []string{},
		Guards: map[string][]string{"*v.Num": {"v.Tag == ValueNum"}, "1": {"v.Tag == ValueBool"},
			"strconv.ParseFloat(*v.Str, 64)#0": {"v.Tag == ValueStr", "strconv.ParseFloat(*v.Str, 64)#1 == nil"}},
		Source: "booleans 0/1, numeric strings by value, anything else 0",
	})
	// a string is 0 only where ParseFloat refused it: every text ParseFloat accepts ("Inf", "NaN",
	// ".5", "1e3") counts by value — no shortcut decides "not a number" from the look of the text
	if af := p.LangFunc("(*Value).asFloat64"); af != nil {
		n := 0
		for _, ret := range returnsOf(af) {
			res := effectiveResults(ret)
			if k, isK := constFloat(res[0]); !isK || k != 0 {
				continue
			}
			g := guardsAt(p, af, ret.Block())
			if !g["v.Tag == ValueStr"] {
				continue
			}
			n++
			refused := false
			for k := range g {
				if strings.HasPrefix(k, "strconv.ParseFloat(") && strings.HasSuffix(k, "#1 != nil") {
					refused = true
				}
			}
			c.check(refused, "R8", fmt.Sprintf("asFloat64 string-zero #%d", n), p.InstrPos(ret), "a string counts as 0 where ParseFloat returned an error", "a string counts as 0 on a path where ParseFloat was not asked (or did not refuse): a text that ParseFloat accepts — `Inf`, `Infinity`, `NaN` — is coerced to 0 instead of its value")
		}
		c.check(n >= 1, "R8", "asFloat64 string-zero", p.Pos(af.Pos()), "the non-numeric string arm exists", "no `0` result under v.Tag == ValueStr found in asFloat64")
	}
	c.checkArm("R8", "String", p.LangFunc("(*Value).String"), armSpec{
		Results: []string{"*v.Str", "strconv.FormatFloat(*v.Num, 102, -1, 64)", `""`},
		Effects: []string{},
		Guards:  map[string][]string{"*v.Str": {"v.Tag == ValueStr"}, "strconv.FormatFloat(*v.Num, 102, -1, 64)": {"v.Tag == ValueNum"}},
		Source:  "string form: strings as is, numbers in positional decimal, everything else empty",
	})
	cmpFn := p.LangFunc("(*Value).Compare")
	c.checkArm("R8", "Compare", cmpFn, armSpec{
		Results: []string{"0", "-1", "1", "strings.Compare(*v.Str, *b.Str)"},
		Effects: []string{},
		Guards:  map[string][]string{"strings.Compare(*v.Str, *b.Str)": {"v.Tag == ValueStr", "b.Tag == ValueStr"}},
		Source:  "two strings bytewise, null below everything except null, otherwise numeric coercions",
	})
	if cmpFn != nil {
		// the numeric comparisons: 1 under a > b, -1 under a < b with a = asFloat64(v), b = asFloat64(b)
		a, b := "(*lang.Value).asFloat64(v)", "(*lang.Value).asFloat64(b)"
		var got []string
		for _, rc := range p.successResults(cmpFn) {
			g := setOf(rc.Guards)
			switch {
			case rc.Value == "1" && g[a+" > "+b]:
				got = append(got, "gt")
			case rc.Value == "-1" && g[a+" < "+b]:
				got = append(got, "lt")
			case rc.Value == "0" && g[a+" <= "+b] && g[a+" >= "+b]:
				got = append(got, "eq")
			}
		}
		sort.Strings(got)
		c.check(strings.Join(got, ",") == "eq,gt,lt", "R8", "Compare numeric order", p.Pos(cmpFn.Pos()), "1 / -1 / 0 under a > b / a < b / neither, a = asFloat64(receiver), b = asFloat64(argument)", "the numeric arm of Compare does not return 1, -1, 0 under asFloat64(v) > / < / = asFloat64(b): "+strings.Join(got, ","))
		// null ordering: the three constant returns before the container check, via tag tests
		nulls := map[string]string{}
		F := FactsOf(cmpFn)
		for _, r := range returnsOf(cmpFn) {
			k, isK := constInt(effectiveResults(r)[0])
			if !isK || !EKOf(p).KindsAt(effectiveResults(r)[1], F.At(r.Block())).Has(KNil) {
				continue
			}
			// facts on the edge(s): blocks built from && chains: take the facts holding in the return block
			var gs []string
			for _, rl := range F.At(r.Block()).Rels() {
				gs = append(gs, p.Render(rl.x)+" "+rl.op.String()+" "+p.Render(rl.y))
			}
			sort.Strings(gs)
			s := strings.Join(gs, " && ")
			// the null arms are decided before the operands are coerced
			afterCoercion := false
			for _, call := range callsIn(cmpFn) {
				if staticCalleeIs(call, "(*lang.Value).asFloat64") && call.Block().Dominates(r.Block()) {
					afterCoercion = true
				}
			}
			if strings.Contains(s, "ValueNil") && !strings.Contains(s, "asFloat64") && !afterCoercion {
				nulls[s] = fmt.Sprint(k)
			}
		}
		wantNulls := map[string]string{
			"b.Tag == ValueNil && v.Tag == ValueNil": "0",
			"b.Tag != ValueNil && v.Tag == ValueNil": "-1",
			"b.Tag == ValueNil && v.Tag != ValueNil": "1",
		}
		okN := len(nulls) == 3
		for k, v := range wantNulls {
			if nulls[k] != v {
				okN = false
			}
		}
		c.check(okN, "R8", "Compare null ordering", p.Pos(cmpFn.Pos()), "null == null, null < anything else, anything else > null", fmt.Sprintf("null ordering arms are %v; documented %v", nulls, wantNulls))
		// container error precedes the string and numeric arms
		for _, r := range returnsOf(cmpFn) {
			res := effectiveResults(r)
			if strings.Contains(p.Render(res[1]), "cannot compare") {
				okDom := true
				for _, r2 := range returnsOf(cmpFn) {
					v := p.Render(effectiveResults(r2)[0])
					if strings.Contains(v, "strings.Compare") {
						g := map[string]bool{}
						for _, rl := range F.At(r2.Block()).Rels() {
							g[p.Render(rl.x)+" "+rl.op.String()+" "+p.Render(rl.y)] = true
						}
						okDom = g["v.Tag != ValueArray"] && g["b.Tag != ValueArray"] && g["v.Tag != ValueObj"] && g["b.Tag != ValueObj"]
					}
				}
				c.check(okDom, "R8", "Compare containers are an error", p.InstrPos(r), "arrays and objects are rejected before any comparison", "the comparison arms are reachable for array/object operands")
			}
		}
	}
	// Not: true iff not truthy
	notFn := p.LangFunc("(*Value).Not")
	if notFn != nil {
		// (the renderer folds `if t { x = NewValue(false) } else { x = NewValue(true) }` into NewValue(!t))
		var got []string
		for _, rc := range p.successResults(notFn) {
			got = append(got, rc.Value)
		}
		c.check(len(got) == 1 && got[0] == "&lang.NewValue(!(*lang.Value).isTruthy(v))", "R8", "Not", p.Pos(notFn.Pos()), "Not(v) = a fresh boolean !isTruthy(v)", "Not returns {"+strings.Join(got, " ; ")+"}; documented: a fresh value NewValue(!isTruthy(v))")
	}
}

// operandEvaluation: the operands an operator works on are the results of evaluating the node's
// own children with the general evaluator.
func operandEvaluation(c *Ctx, eb, eu *ssa.Function) {
	p := c.P
	c.note("R9 operand-evaluation: every operand value used by evalBinaryExpr / evalUnaryExpr is the result of e.evalExpr(expr.Left | expr.Right | expr.Expr); the left operand is evaluated first (its call dominates every evaluation of the right operand).")
	var left, right []*ssa.Call
	for _, call := range callsIn(eb) {
		cv, ok := call.(*ssa.Call)
		if !ok || !staticCalleeIs(cv, "(*lang.Evaluator).evalExpr") {
			continue
		}
		switch argDesc(cv) {
		case "ExprBinary.Left":
			left = append(left, cv)
		case "ExprBinary.Right":
			right = append(right, cv)
		}
	}
	c.check(len(left) == 1, "R9", "left-once", p.Pos(eb.Pos()), "the left operand is evaluated exactly once", fmt.Sprintf("the left operand is evaluated at %d sites", len(left)))
	okOrder := len(left) == 1
	for _, r := range right {
		if len(left) == 1 && !dominatesInstr(left[0], r) {
			okOrder = false
		}
	}
	c.check(okOrder && len(right) >= 1, "R9", "left-before-right", p.Pos(eb.Pos()), "left is evaluated before right", "some evaluation of the right operand is not preceded by the evaluation of the left operand")
	// no other source of operand cells: calls in evalBinaryExpr that return *Cell and are not
	// evalExpr(child) / evalAssignment / GetMember / NewCell
	allowed := map[string]bool{"(*lang.Evaluator).evalExpr": true, "(*lang.Evaluator).evalAssignment": true, "(*lang.Value).GetMember": true, "lang.NewCell": true}
	// (helpers split off the two evaluators are part of them)
	var scope []*ssa.Function
	for _, fn := range []*ssa.Function{eb, eu} {
		for _, g := range p.privateCluster(fn) {
			scope = append(scope, g)
		}
	}
	for _, fn := range scope {
		for _, call := range callsIn(fn) {
			f := call.Common().StaticCallee()
			if f == nil || !p.InModule(f) {
				continue
			}
			if f != eb && f != eu && (p.inClusterOf(eb, f) || p.inClusterOf(eu, f)) {
				continue
			}
			res := f.Signature.Results()
			if res.Len() == 0 || !isLangNamed(res.At(0).Type(), "Cell") {
				continue
			}
			if !allowed[shortName(f)] {
				c.violated("R9", "operand-source "+shortName(f)+" in "+shortName(fn), p.InstrPos(call), "an operand cell is produced by "+shortName(f)+" instead of the general evaluator: literals evaluated on a side path skip escape processing, number parsing and the other checks of evalExpr")
			}
		}
	}
	// every evalExpr call in these functions evaluates a direct child field
	for _, fn := range []*ssa.Function{eb, eu} {
		for _, call := range callsIn(fn) {
			if staticCalleeIs(call, "(*lang.Evaluator).evalExpr") {
				d := argDesc(call)
				okD := d == "ExprBinary.Left" || d == "ExprBinary.Right" || d == "ExprUnary.Expr"
				c.check(okD, "R9", "operand-child "+d+" in "+shortName(fn), p.InstrPos(call), "evaluates "+d, "evalExpr is called on "+d+", not on a child of the operator node")
			}
		}
	}
}

// consumedTokenText: the rendering is the token returned by a consume-and-return helper of the parser
func consumedTokenText(p *Program, r string) bool {
	const pre, suf = "(*lang.Parser).", "(p)#0"
	if !strings.HasPrefix(r, pre) || !strings.HasSuffix(r, suf) {
		return false
	}
	return isConsumedTokenHelper(p.LangFunc("(*Parser)." + r[len(pre):len(r)-len(suf)]))
}

// incdecStoredForm: the rendering of a ++/-- result that is the value stored by the operator — the
// merge of old+1 and old-1, or the value of the cell evalAssignment returned.
func incdecStoredForm(v string) bool {
	if strings.HasPrefix(v, "cell{phi(") && strings.Contains(v, "val((asFloat64(&X.Value) + 1))") && strings.Contains(v, "val((asFloat64(&X.Value) - 1))") {
		return true
	}
	return strings.Contains(v, "evalAssignment(") && strings.HasSuffix(v, "#0.Value}")
}

func isCompoundRewriterFn(p *Program, f *ssa.Function) bool {
	return findCompoundRewriter(p, extractPratt(p)) == f
}

package main

import (
	"fmt"
	"go/token"
	"go/types"
	"regexp"
	"sort"
	"strings"

	"golang.org/x/tools/go/ssa"
)

func init() {
	register(&ruleSet{
		id:    "C09",
		title: "assignment changes exactly the addressed location; reads never change the input",
		run:   runC09,
		decided: "the read accessor (GetMember and its helpers) has no effect on non-local memory, and the read arms of the expression evaluator store through an operand only to auto-vivify an unset variable; no function replaces the slice header of an existing array value (array identity — violated today at four sites: known finding); copyValue's kind table (scalars get a fresh payload, arrays / objects / unset share, functions are an error) and every insertion point (assignment, call arguments, array and object literal elements) goes through it; index resolution and the fill loop (shared with C15/R4); the ++/-- table; speculative creation makes an object for a string key and an array for a numeric key, parent first." +
			" In GetMember's object arm the prototype is consulted only when the key is absent from the object; sort works on a clone with fresh cells." +
			" The for-in loop variable receives a copy of the element." +
			" The evaluated cell itself enters an argument / item list only when no copy was requested, whatever kind of expression produced it; scalar payloads are written once, at allocation." +
			" Every successful assignment copies its right-hand value into the target (no value or target kind is skipped); every declared parameter gets a cell of its own. Every member value of an object literal is stored as a copy made by copyValue; each root selector is evaluated on its own conversion of the input value.",
		notDecided: "whole-document equality before / after a write.",
	})
}

func runC09(c *Ctx) {
	c09R1(c)
	c09R2(c)
	c09R3(c)
	indexResolution(c, "R4")
	memberResolutionOrder(c, "R8")
	assignmentTargetLocation(c, "R15")
	c.shared("R13", "C06/R3", "`a op= b` means `a = a op b` with b the whole right-hand expression: the assignment parselets parse their right side from the assignment level, and the rewriter builds left = left OP right from it", keyHas("rbp", "desugar", "statement-level-expression"), runC06)
	c.shared("R17", "C19/R4", "assigning to a variable changes that variable: a name bound by a pattern that did not match is not left bound (it would shadow the outer variable of that name and alias an element of the subject, into which the assignment then writes)", keyHas("bindings-are-a-result", "bindings-per-alternative"), runC19)
	c.shared("R16", "C16/R3", "scalars are copied on insertion into containers: pluck stores a cell of its own per key (a copy of the member's value, or null), never the source object's cell", keyHas("pluck"), runC16)
	c.shared("R18", "C04/R15", "an assignment over a null of the input changes that one place: every null of a decoded document has a cell of its own (one shared cell for all decoded nulls changes them all, in this document and in the ones read later)", keyHas("value-construction"), func(s *Ctx) { newValueTable(s, "R15") })
	c.shared("R19", "C08/R1", "an assignment reaches the variable the program names: every frame pushed for a match arm is popped however the arm is left — a frame left behind by next / break / return keeps its bindings (cells of an earlier record) in front of the variables of the same name", keyHas("balance "), func(s *Ctx) { c08R1(s, discoverFrameModel(s.P)) })
	c.shared("R20", "C17/R2", "an index assignment addresses the member its key names: a number used as a key becomes text through FormatFloat(x, 'f', -1, 64) only — an integer fast path maps every key beyond 2^63 to one text, and two members collapse into one", ruleIs("R2"), runC17)
	c.shared("R14", "C14/R4", "an assignment through `$` changes the root it was made through only: every selector's root is the result of evaluating that selector on a conversion of the input value made for it (not on a tree another selector's rules have already assigned into)", keyHas("root-list-contents"), func(s *Ctx) { rootsPerValue(s, "R4") })
	c.shared("R12", "C10/R6", "an index assignment changes exactly the addressed location: every evaluation of a literal builds cells of its own — nothing evaluated earlier is remembered in the evaluator or in the syntax tree and handed out again", keyHas("evaluator-state", "syntax-tree-store", "interpreter-state"), func(s *Ctx) { interpreterState(s, "R6") })
	c.shared("R11", "C08/R4", "assigning to a parameter changes the callee's own cell only: every declared parameter — supplied or not — is bound to a fresh cell in the callee's frame, so the name cannot resolve to a variable of a calling frame", nil, c08R4)
	c.shared("R10", "C02/R4", "assigning to $ (or growing it) in a pattern rule changes the document: for an array root $ is the element's own cell, not a copy", keyHas("array-root-per-element"), c02R4)
	if es := c.P.LangFunc("(*Evaluator).evalStatement"); es != nil {
		c.shared("R9", "C07/R7", "the loop variable of for-in receives a copy of the element's value in a cell of its own: assigning to it (or reusing its name later) does not change the array", keyHas("for-in ValueArray", "for-in ValueObj"), func(s *Ctx) { c07ForIn(s, es) })
	}
	c.shared("R7", "C15/R3", "sort is not a mutating method: it works on a clone whose cells are fresh copies, so neither the order nor the cells of the receiver change", keyHas("sort-clone", "sort-subject", "array.sort effects"), func(s *Ctx) { c15R3(s, nativeMethods(s.P)) })
	if eu := c.P.LangFunc("(*Evaluator).evalUnaryExpr"); eu != nil {
		c.note("R5 incdec-table: ++ stores old+1 and -- old-1 into the operand's cell through evalAssignment; postfix yields the old number, prefix the updated value; the assignment's error is propagated (C11/R1).")
		incdecTable(c, "R5", eu)
		payloadImmutable(c, "R5")
	} else {
		c.undecided("R5", "evalUnaryExpr", "", "anchor not found")
	}
	c09R6(c)
}

// R1 read-accessor-purity
func c09R1(c *Ctx) {
	p := c.P
	c.note("R1 read-accessor-purity: (*Value).GetMember — the accessor every member / index read goes through — and the helpers it calls perform no store to non-local memory and no map update; evalBinaryExpr's stores through an operand cell happen only under `operand tag == unknown` (auto-vivification of an unset variable, which cannot be part of the input document); evalExpr's other read arms store nothing through operand cells.")
	gm := p.LangFunc("(*Value).GetMember")
	if gm == nil {
		c.undecided("R1", "GetMember", "", "anchor not found")
		return
	}
	// GetMember and every module function reachable from it
	reach := reachableFuncsOpt(p, gm, false)
	var fns []*ssa.Function
	for f := range reach {
		if p.InLang(f) {
			fns = append(fns, f)
		}
	}
	sort.Slice(fns, func(i, j int) bool { return fns[i].String() < fns[j].String() })
	for _, f := range fns {
		// the lazily built prototype singletons are process state, not the document (C10/R2)
		var effs []string
		for _, e := range p.effectsOpt(f, false) {
			if strings.HasSuffix(strings.SplitN(e, " = ", 2)[0], "Prototype") {
				continue
			}
			effs = append(effs, e)
		}
		key := "read-path " + shortName(f)
		if len(effs) == 0 {
			c.ok("R1", key, p.Pos(f.Pos()), "no effect on non-local memory")
		} else {
			c.violated("R1", key, p.Pos(f.Pos()), "a function on the read path writes: {"+strings.Join(effs, " ; ")+"} — evaluating an expression that only reads can change the value it reads from (and so the document -o writes)")
		}
	}
	if len(fns) < 3 {
		c.undecided("R1", "instance-floor", "", fmt.Sprintf("%d functions on the read path, at least GetMember, protoMember, resolveIndex expected", len(fns)))
	}
	// auto-vivification stores in evalBinaryExpr
	eb := p.LangFunc("(*Evaluator).evalBinaryExpr")
	if eb == nil {
		c.undecided("R1", "evalBinaryExpr", "", "anchor not found")
		return
	}
	n := 0
	// evalBinaryExpr and the helpers split off it (an arm moved to a function of its own): in a helper
	// the operands are parameters, named here by what the one call site passes
	ebFns := []*ssa.Function{eb}
	for _, h := range p.privateCluster(eb) {
		if h != eb {
			ebFns = append(ebFns, h)
		}
	}
	for _, fn := range ebFns {
		fn := fn
		subst := func(s string) string { return abbrevBinary(s) }
		if fn != eb {
			subst = paramSubst(p, eb, fn, abbrevBinary)
		}
		allInstrs(fn, func(in ssa.Instruction) {
			st, ok := in.(*ssa.Store)
			if !ok || isLocalAddr(st.Addr) {
				return
			}
			n++
			addr := subst(strings.TrimPrefix(p.Render(st.Addr), "&"))
			key := fmt.Sprintf("operand-store #%d %s", n, addr)
			g := map[string]bool{}
			for _, rl := range FactsOf(fn).At(st.Block()).Rels() {
				g[subst(p.Render(rl.x)+" "+rl.op.String()+" "+p.Render(rl.y))] = true
			}
			val := subst(p.Render(st.Val))
			okV := addr == "L.Value" && g["L.Value.Tag == ValueUnknown"] && (isFreshArrayText(val) || isFreshObjectText(val))
			c.check(okV, "R1", key, p.InstrPos(st), "auto-vivification of an unset variable only", shortName(fn)+" stores "+val+" into "+addr+" on a path where the operand is not known to be an unset variable: a read modifies an existing value")
		})
	}
	if n != 2 {
		c.undecided("R1", "operand-stores", p.Pos(eb.Pos()), fmt.Sprintf("%d stores through operands in evalBinaryExpr, 2 confirmed by hand", n))
	}
}

// R2 array-identity
func c09R2(c *Ctx) {
	p := c.P
	c.note("R2 array-identity: a Value embeds its slice header by value and copyValue copies the Value, so a store to the Array field of an existing Value changes one reference only while arrays are required to be shared between references. Obligation: no store to Value.Array through a non-fresh Value. Today four sites do (push, pop, popfirst, the fill in SetMember): genuine defect, recorded as known finding (repair needs Array behind a pointer, a representation change).")
	n := 0
	for _, fn := range p.Funcs {
		if !p.InLang(fn) {
			continue
		}
		for _, st := range storesToField(fn, "Value", "Array", false) {
			if isLocalAddr(st.Addr) {
				continue
			}
			n++
			name := shortName(fn)
			for _, m := range nativeMethods(p) {
				if m.Fn == fn {
					name = m.Proto + "." + m.Name
				}
			}
			c.violated("R2", "array-header-store "+name, p.InstrPos(st), strings.TrimPrefix(p.Render(st.Addr), "&")+" = "+p.Render(st.Val)+": the length of the array changes for this reference only; another variable that was assigned the same array keeps the old length")
		}
	}
	if n == 0 {
		c.ok("R2", "array-header-stores", "", "no store replaces the slice header of an existing array value")
	}
}

// R3 copy-vs-share-table
func c09R3(c *Ctx) {
	p := c.P
	c.note("R3 copy-vs-share-table: copyValue per source tag — number / bool / string / regex: a Value with a fresh payload copy; null: a fresh null; array / object / unset: the source Value itself (shared); anything else: error. Insertion points that must go through copyValue: assignment (evalAssignment), call arguments and array literal items (evalExprList with copy = true), object literal values.")
	cv := p.LangFunc("copyValue")
	if cv == nil {
		c.undecided("R3", "copyValue", "", "anchor not found")
		return
	}
	want := map[string]string{
		"ValueNum":     "to.Value = lang.Value{Tag: ValueNum, Num: &*from.Value.Num, Proto: from.Value.Proto}",
		"ValueBool":    "to.Value = lang.Value{Tag: ValueBool, Bool: &*from.Value.Bool, Proto: from.Value.Proto}",
		"ValueNil":     "to.Value = lang.NewValue(nil)",
		"ValueStr":     "to.Value = lang.Value{Tag: ValueStr, Str: &*from.Value.Str, Proto: lang.getStrPrototype()}",
		"ValueRegex":   "to.Value = lang.Value{Tag: ValueRegex, Str: &*from.Value.Str, Proto: from.Value.Proto}",
		"ValueArray":   "to.Value = from.Value",
		"ValueObj":     "to.Value = from.Value",
		"ValueUnknown": "to.Value = from.Value",
	}
	ms := p.maySetOf(cv, "from.Value.Tag", valueTagNames(p))
	got := map[string]map[string]bool{}
	allInstrs(cv, func(in ssa.Instruction) {
		st, ok := in.(*ssa.Store)
		if !ok || isLocalAddr(st.Addr) {
			return
		}
		e := strings.TrimPrefix(p.Render(st.Addr), "&") + " = " + p.Render(st.Val)
		for _, t := range ms.At(st.Block()) {
			if got[t] == nil {
				got[t] = map[string]bool{}
			}
			got[t][e] = true
		}
	})
	var tags []string
	for t := range want {
		tags = append(tags, t)
	}
	sort.Strings(tags)
	for _, t := range tags {
		okT := len(got[t]) == 1 && got[t][want[t]]
		c.check(okT, "R3", "copy "+t, p.Pos(cv.Pos()), want[t], fmt.Sprintf("copyValue for a %s source performs {%s}; documented: %s", t, keysOf(got[t]), want[t]))
	}
	// the payload copies really are fresh: `&*from.Value.Num` renders a local copy (Alloc) of the
	// loaded payload; a direct `from.Value.Num` would share the payload pointer
	for _, t := range []string{"ValueFn", "ValueNativeFn"} {
		c.check(len(got[t]) == 0, "R3", "copy "+t, p.Pos(cv.Pos()), "function values are not copied (error)", "copyValue stores something for a "+t+" source")
	}
	// error arm reachable exactly for function tags
	ek := EKOf(p)
	for _, r := range returnsOf(cv) {
		if !ek.KindsAt(effectiveResults(r)[1], FactsOf(cv).At(r.Block())).Has(KNil) {
			tags := strings.Join(ms.At(r.Block()), ",")
			c.check(tags == "ValueFn,ValueNativeFn", "R3", "copy-error-kinds", p.InstrPos(r), "error exactly for function values", "copyValue's error arm is reached for {"+tags+"}")
		}
	}
	// insertion points
	type site struct{ fn, what string }
	found := map[string]bool{}
	for _, call := range p.CallSitesOf(cv) {
		fn := call.Parent()
		found[shortName(fn)+": "+p.Render(call.Common().Args[0])+" -> "+p.Render(call.Common().Args[1])] = true
	}
	wantSites := []string{
		"(*lang.Evaluator).evalAssignment: right -> phi((*lang.Evaluator).createSpeculativeObjects(e, left)#0 | left)",
		"(*lang.Evaluator).evalExprList: (*lang.Evaluator).evalExpr(e, exprs[i@exprs])#0 -> &lang.Cell{}",
		"(*lang.Evaluator).evalExpr: (*lang.Evaluator).evalExpr(e, expr.(*lang.ExprObject)#0.Items[i@expr.(*lang.ExprObject)#0.Items].Value)#0 -> &lang.Cell{Value: lang.Value{Tag: ValueUnknown}}",
	}
	// the object-literal arm may sit in a helper split off evalExpr (`evalObjectLiteral(lit)`): the same
	// copy, spelled with the helper's parameter
	objSite := regexp.MustCompile(`^\(\*lang\.Evaluator\)\.\w+: \(\*lang\.Evaluator\)\.evalExpr\(e, [\w.()*#]+\.Items\[i@[\w.()*#]+\.Items\]\.Value\)#0 -> &lang\.Cell\{Value: lang\.Value\{Tag: ValueUnknown\}\}$`)
	for i, w := range wantSites {
		ok := found[w]
		if !ok && i == 2 {
			ee0 := p.LangFunc("(*Evaluator).evalExpr")
			for k := range found {
				fnName := strings.SplitN(k, ":", 2)[0]
				if objSite.MatchString(k) && ee0 != nil && p.inClusterOf(ee0, p.funcByShortName(fnName)) {
					ok = true
				}
			}
		}
		c.check(ok, "R3", "insertion-point "+strings.SplitN(w, ":", 2)[0], "", w, "expected insertion point not found: "+w+" (found: "+keysOf(found)+")")
	}
	// evalExprList(…, copy) callers: call arguments and array literal items pass true
	ee := p.LangFunc("(*Evaluator).evalExpr")
	if ee != nil {
		for _, call := range callsIn(ee) {
			if !staticCalleeIs(call, "(*lang.Evaluator).evalExprList") {
				continue
			}
			d := argDesc(call)
			b, okB := constBool(call.Common().Args[2])
			c.check(okB && b, "R3", "copy-on-insert "+d, p.InstrPos(call), "evalExprList("+d+", true)", "elements of "+d+" are evaluated without copying: scalars inserted into a container / passed to a call would stay aliased to their source variable")
		}
	}
	// an object literal stores a copy of every member value, whatever kind of expression produced it:
	// a member read (`{k: $.x}`) hands back the live cell of the container it was read from
	if ee != nil {
		nObj := 0
		doneFn := map[*ssa.Function]bool{}
		for _, fn := range append([]*ssa.Function{ee}, p.privateCluster(ee)...) {
			if doneFn[fn] {
				continue
			}
			doneFn[fn] = true
			allInstrs(fn, func(in ssa.Instruction) {
				mu, ok := in.(*ssa.MapUpdate)
				if !ok {
					return
				}
				mt, ok := mu.Map.Type().Underlying().(*types.Map)
				if !ok || !strings.Contains(p.Render(mu.Key), ".Key") {
					return
				}
				if pt, ok := mt.Elem().(*types.Pointer); !ok || !isLangNamed(pt.Elem(), "Cell") {
					return
				}
				nObj++
				var raw []string
				seen := map[ssa.Value]bool{}
				var leaves func(v ssa.Value)
				leaves = func(v ssa.Value) {
					if seen[v] {
						return
					}
					seen[v] = true
					if ph, ok := v.(*ssa.Phi); ok {
						for _, e := range ph.Edges {
							leaves(e)
						}
						return
					}
					if ex, ok := v.(*ssa.Extract); ok && ex.Index == 0 {
						if call, ok := ex.Tuple.(*ssa.Call); ok && call.Call.StaticCallee() == cv {
							return
						}
					}
					raw = append(raw, p.RenderShort(v))
				}
				leaves(mu.Value)
				sort.Strings(raw)
				c.check(len(raw) == 0, "R3", "copy-on-insert object-literal member", p.InstrPos(in), "every member of an object literal is stored as the result of copyValue", "an object literal stores "+strings.Join(raw, " / ")+" as a member without copying it: for a member or index expression that is the live cell of the container it was read from, so assigning to the new object's member writes into that container (the document, for `{k: $.x}`)")
			})
		}
		if nObj == 0 {
			c.undecided("R3", "copy-on-insert object-literal member", p.Pos(ee.Pos()), "the member store of the object literal was not found in evalExpr")
		}
	}
	// in evalExprList the copy branch is taken exactly under copy == true
	el := p.LangFunc("(*Evaluator).evalExprList")
	if el != nil {
		for _, call := range callsIn(el) {
			if call.Common().StaticCallee() == cv {
				known, val := FactsOf(el).At(call.Block()).Truth(el.Params[2])
				c.check(known && val, "R3", "copy-flag-honoured", p.InstrPos(call), "copyValue is applied when copy is true", "the copy in evalExprList is not controlled by its copy parameter")
			}
		}
		// and the other way round: the evaluated cell itself goes into the list only when copy is false
		// (whatever kind of expression produced it: a member read, an assignment and a match all hand
		// back a cell that something else holds on to)
		nRaw := 0
		allInstrs(el, func(in ssa.Instruction) {
			call, ok := in.(*ssa.Call)
			if !ok {
				return
			}
			bi, ok := call.Call.Value.(*ssa.Builtin)
			if !ok || bi.Name() != "append" || len(call.Call.Args) < 2 {
				return
			}
			r := p.Render(call.Call.Args[1])
			if !strings.Contains(r, "(*lang.Evaluator).evalExpr(e, exprs[i@exprs])#0") {
				return
			}
			// `item := v; if copy { item = copy of v }; append(list, item)`: the evaluated cell itself arrives on
			// one edge of the merged value — that edge must carry copy == false
			if elemPhi := appendedPhi(call); elemPhi != nil {
				for i, e := range elemPhi.Edges {
					if !strings.HasSuffix(p.Render(e), "(*lang.Evaluator).evalExpr(e, exprs[i@exprs])#0") {
						continue
					}
					nRaw++
					known, val := FactsOf(el).OnEdge(elemPhi.Block().Preds[i], elemPhi.Block()).Truth(el.Params[2])
					c.check(known && !val, "R3", "copy-flag-complete", p.InstrPos(call), "the evaluated cell itself is listed only when copy is false", "evalExprList puts the evaluated cell itself into the list on a path where copy is true (the copy is skipped for some kinds of expression): `[a[0]]`, `[n = 1]` or `f(o.k)` then share a cell with their source")
				}
				return
			}
			if !strings.Contains(r, "(*lang.Evaluator).evalExpr(e, exprs[i@exprs])#0]") {
				return
			}
			nRaw++
			known, val := FactsOf(el).At(call.Block()).Truth(el.Params[2])
			c.check(known && !val, "R3", "copy-flag-complete", p.InstrPos(call), "the evaluated cell itself is listed only when copy is false", "evalExprList puts the evaluated cell itself into the list on a path where copy is true (the copy is skipped for some kinds of expression): `[a[0]]`, `[n = 1]` or `f(o.k)` then share a cell with their source")
		})
		if nRaw == 0 {
			c.undecided("R3", "copy-flag-complete", p.Pos(el.Pos()), "the append of the evaluated cell was not found in evalExprList")
		}
	}
}

// R6 speculative-creation
// assignmentAlwaysStores: every successful assignment writes its target.
func assignmentAlwaysStores(c *Ctx, rule string) {
	p := c.P
	c.note("%s assignment-always-stores: evalAssignment returns successfully only through the copy of the right-hand value into the target cell (copyValue(right, target) dominates every success return), and the result it returns is that copy's result: no kind of value (null included) and no kind of target (a missing member included) is skipped.", rule)
	ea := p.LangFunc("(*Evaluator).evalAssignment")
	cv := p.LangFunc("copyValue")
	if ea == nil || cv == nil {
		c.undecided(rule, "evalAssignment", "", "anchor not found")
		return
	}
	var right *ssa.Parameter
	for _, prm := range ea.Params {
		if prm.Name() == "right" {
			right = prm
		}
	}
	var copies []ssa.Instruction
	for _, call := range callsIn(ea) {
		if call.Common().StaticCallee() == cv && (right == nil || call.Common().Args[0] == ssa.Value(right)) {
			copies = append(copies, call)
		}
	}
	ek := EKOf(p)
	n := 0
	for _, r := range returnsOf(ea) {
		res := effectiveResults(r)
		if !ek.KindsAt(res[len(res)-1], FactsOf(ea).At(r.Block())).Has(KNil) {
			continue
		}
		n++
		stored := false
		for _, cp := range copies {
			if dominatesInstr(cp, r) {
				stored = true
			}
		}
		c.check(stored, rule, fmt.Sprintf("assignment-always-stores #%d", n), p.InstrPos(r), "the success return follows the copy into the target", "evalAssignment can return successfully without copying the right-hand value into the target: the assignment is silently dropped for some combination of value and target (e.g. null assigned to a missing member, which should create it)")
	}
	if n == 0 {
		c.undecided(rule, "assignment-always-stores", p.Pos(ea.Pos()), "no success return found in evalAssignment")
	}
}

func c09R6(c *Ctx) {
	p := c.P
	assignmentAlwaysStores(c, "R6")
	c.note("R6 speculative-creation: createSpeculativeObjects materialises the parent first (recursive call on the parent when the parent is itself speculative), makes an object when the pending key is a string and an array when it is a number, and stores the member through SetMember under that key.")
	cs := p.LangFunc("(*Evaluator).createSpeculativeObjects")
	if cs == nil {
		c.undecided("R6", "createSpeculativeObjects", "", "anchor not found")
		return
	}
	F := FactsOf(cs)
	// the key: NewString(*Str) under Str != nil, NewValue(*Num) under Num != nil
	keyOK := map[string]bool{}
	// container kind per key tag
	kind := map[string]string{}
	allInstrs(cs, func(in ssa.Instruction) {
		var r string
		var facts factSet
		switch x := in.(type) {
		case *ssa.Store:
			a, ok := x.Addr.(*ssa.Alloc)
			if !ok || !isLangNamed(a.Type(), "Value") {
				return
			}
			r = p.Render(x.Val)
			facts = F.At(x.Block())
			classify(p, r, facts, keyOK, kind)
		case *ssa.Phi:
			if !isLangNamed(x.Type(), "Value") {
				return
			}
			for i, e := range x.Edges {
				classify(p, p.Render(e), F.OnEdge(x.Block().Preds[i], x.Block()), keyOK, kind)
			}
		}
	})
	c.check(keyOK["str"] && keyOK["num"], "R6", "pending-key", p.Pos(cs.Pos()), "key = string text when Str is set, else the number", "the pending key is not built from Str (when non-nil) or Num (when non-nil)")
	c.check(kind["ValueStr"] == "object" && kind["ValueNum"] == "array", "R6", "container-kind", p.Pos(cs.Pos()), "string key -> object, numeric key -> array", fmt.Sprintf("container kinds per key tag: %v; documented: string -> object, number -> array", kind))
	// parent first: the recursive call dominates the SetMember call on the new parent
	var rec, set *ssa.Call
	for _, call := range callsIn(cs) {
		cv, ok := call.(*ssa.Call)
		if !ok {
			continue
		}
		if cv.Call.StaticCallee() == cs {
			rec = cv
		}
		if staticCalleeIs(cv, "(*lang.Value).SetMember") {
			set = cv
		}
	}
	if rec == nil || set == nil {
		c.violated("R6", "parent-first", p.Pos(cs.Pos()), "no recursive materialisation of the parent, or no SetMember store")
		return
	}
	recvR := p.Render(set.Call.Args[0])
	c.check(strings.Contains(recvR, "createSpeculativeObjects") && strings.Contains(recvR, "specObj.Value.ParentObj"), "R6", "store-target", p.InstrPos(set), "SetMember on the materialised parent, or on the existing parent", "the member is stored on "+recvR)
	c.check(p.Render(set.Call.Args[2]) == "specObj", "R6", "store-cell", p.InstrPos(set), "the speculative cell itself becomes the member", "the stored cell is "+p.Render(set.Call.Args[2]))
	// the recursion happens only when the parent is itself speculative (tag nil)
	g := map[string]bool{}
	for _, rl := range F.At(rec.Block()).Rels() {
		g[p.Render(rl.x)+" "+rl.op.String()+" "+p.Render(rl.y)] = true
	}
	// … and only when it does not exist by now: both targets of `o.a.x = o.a.y = 1` are evaluated while
	// o.a is missing; the inner assignment creates it, the outer one must add to it, not create it again
	// (F-28). The creation is reached only where a fresh look at what stands at the parent's place
	// (a call or lookup on the pending parent) found nothing.
	relooked := false
	for _, rl := range F.At(rec.Block()).Rels() {
		if rl.op != relEQ || !isNilConst(rl.y) {
			continue
		}
		switch rl.x.(type) {
		case *ssa.Call, *ssa.Extract, *ssa.Lookup, *ssa.Phi:
			if strings.Contains(p.Render(rl.x), "specObj.Value.ParentObj") {
				relooked = true
			}
		}
	}
	// … at every depth: when the pending parent's own parent is pending too (o.a.b.x = o.a.b.y = 1), the
	// fresh look has to climb — the helper that takes it calls itself where the parent's tag is nil
	for _, rl := range F.At(rec.Block()).Rels() {
		call, ok := rl.x.(*ssa.Call)
		if !ok || rl.op != relEQ || !isNilConst(rl.y) || !strings.Contains(p.Render(rl.x), "specObj.Value.ParentObj") {
			continue
		}
		g := call.Call.StaticCallee()
		if g == nil || !p.InLang(g) || len(g.Blocks) == 0 {
			continue
		}
		climbs := false
		for _, gc := range callsIn(g) {
			if gc.Common().StaticCallee() != g {
				continue
			}
			for _, r2 := range FactsOf(g).At(gc.Block()).Rels() {
				if r2.op != relEQ {
					continue
				}
				if sf, ok := loadedField(r2.x); ok && sf.Is("Value", "Tag") {
					if k, ok := constInt(r2.y); ok && constNames(p.Lang.Types, "ValueTag")[k] == "ValueNil" {
						climbs = true
					}
				}
			}
		}
		// … and what it finds is the place itself, not a copy of the value standing there: the assignment
		// that follows writes through the result (SetMember on a copied array header appends to a slice
		// nobody else sees)
		var isCopy func(v ssa.Value, seen map[ssa.Value]bool) bool
		isCopy = func(v ssa.Value, seen map[ssa.Value]bool) bool {
			if seen[v] {
				return false
			}
			seen[v] = true
			switch x := v.(type) {
			case *ssa.Alloc:
				return true
			case *ssa.FieldAddr:
				return isCopy(x.X, seen)
			case *ssa.Phi:
				for _, e := range x.Edges {
					if isCopy(e, seen) {
						return true
					}
				}
			}
			return false
		}
		nPlace := 0
		for _, r := range returnsOf(g) {
			res := effectiveResults(r)
			if len(res) == 0 || isNilConst(res[0]) {
				continue
			}
			nPlace++
			c.check(!isCopy(res[0], map[ssa.Value]bool{}), "R6", fmt.Sprintf("parent-relook-yields-the-place #%d", nPlace), p.InstrPos(r), "the fresh look returns the address of the value in its container", "the fresh look ("+shortName(g)+") returns the address of a local copy of the value it found: the member that the pending assignment then adds goes into the copy (for an array: into a slice header of its own) and is lost")
		}
		c.check(climbs, "R6", "parent-relook-climbs", p.Pos(g.Pos()), "the fresh look at a pending parent recurses where that parent's own parent is pending", "the fresh look ("+shortName(g)+") resolves one level only: when the pending parent's own parent is pending too, it finds nothing and the chain is created again — `o.a.b.x = o.a.b.y = 1` loses y")
	}
	c.check(relooked, "R6", "parent-not-replaced", p.InstrPos(rec), "a pending parent is created only where a fresh look found that it still does not exist", "the pending parent is created without looking whether it exists by now: in `o.a.x = o.a.y = 1` the inner assignment creates o.a, the outer one creates it again and the member stored first is lost")
	c.check(g["specObj.Value.ParentObj.Tag == ValueNil"], "R6", "recursion-guard", p.InstrPos(rec), "the parent is materialised only when it is itself pending", "the recursive materialisation is not guarded by `parent is a pending (nil) value`")
}

func classify(p *Program, r string, facts factSet, keyOK map[string]bool, kind map[string]string) {
	var gs []string
	for _, rl := range facts.Rels() {
		gs = append(gs, p.Render(rl.x)+" "+rl.op.String()+" "+p.Render(rl.y))
	}
	g := setOf(gs)
	switch {
	case strings.HasPrefix(r, "lang.Value{Tag: ValueStr, Str: &*specObj.Value.Str"):
		keyOK["str"] = g["specObj.Value.Str != nil"]
	case r == "lang.NewValue(*specObj.Value.Num)":
		keyOK["num"] = g["specObj.Value.Num != nil"]
	case isFreshObjectText(r):
		for k := range g {
			if strings.HasSuffix(k, ".Tag == ValueStr") {
				kind["ValueStr"] = "object"
			}
		}
	case isFreshArrayText(r):
		for k := range g {
			if strings.HasSuffix(k, ".Tag == ValueNum") {
				kind["ValueNum"] = "array"
			}
		}
	}
}

// memberResolutionOrder: an object's own key wins over a method of the same name
func memberResolutionOrder(c *Ctx, rule string) {
	p := c.P
	c.note("%s own-key-before-prototype: GetMember is the addressing step of every member read and write. In its object arm the prototype is consulted only when the object has no own member under the key (the call is reached only on the `not present` edge of the map lookup); otherwise `o.length = 5` on an object that has a `length` key assigns to a throw-away bound method cell and changes nothing.", rule)
	gm := p.LangFunc("(*Value).GetMember")
	if gm == nil {
		c.undecided(rule, "GetMember", "", "anchor not found")
		return
	}
	ms := p.maySetOf(gm, "v.Tag", valueTagNames(p))
	n := 0
	// the object arm sits in GetMember or in a helper split off it that GetMember calls under that tag
	type armFn struct {
		fn   *ssa.Function
		tags func(b *ssa.BasicBlock) []string
	}
	arms := []armFn{{gm, func(b *ssa.BasicBlock) []string { return ms.At(b) }}}
	for _, call := range callsIn(gm) {
		h := call.Common().StaticCallee()
		if h != nil && h != gm && p.inClusterOf(gm, h) {
			at := ms.At(call.Block())
			arms = append(arms, armFn{h, func(*ssa.BasicBlock) []string { return at }})
		}
	}
	for _, arm := range arms {
		F := FactsOf(arm.fn)
		for _, call := range callsIn(arm.fn) {
			if !staticCalleeIs(call, "(*lang.Value).protoMember") {
				continue
			}
			tags := arm.tags(call.Block())
			if !(len(tags) == 1 && tags[0] == "ValueObj") {
				continue
			}
			n++
			absent := false
			for f := range F.At(call.Block()) {
				ex, ok := f.cond.(*ssa.Extract)
				if !ok || ex.Index != 1 || f.truth {
					continue
				}
				if lk, ok := ex.Tuple.(*ssa.Lookup); ok && lk.CommaOk {
					if _, isMap := lk.X.Type().Underlying().(*types.Map); isMap && strings.Contains(p.RenderShort(lk.X), "v.Obj") {
						absent = true
					}
				}
			}
			c.check(absent, rule, fmt.Sprintf("object-own-key-first #%d", n), p.InstrPos(call), "the prototype is consulted only when the key is absent", "in the object arm of GetMember the prototype lookup is not confined to the `key absent` edge of the object's own lookup: a method name shadows an own member of the same name, so assignments to that member are lost")
		}
	}
	if n == 0 {
		c.undecided(rule, "object-own-key-first", p.Pos(gm.Pos()), "no prototype lookup found in the object arm of GetMember")
	}
}

// isFreshArrayText / isFreshObjectText: the rendering is that of a new empty array / object value,
// written as the literal or through the constructor
func isFreshArrayText(r string) bool {
	r = strings.TrimPrefix(r, "val")
	return strings.HasPrefix(r, "lang.Value{Tag: ValueArray, Array: [][:0]") || r == "lang.NewValue([][:0])" || r == "([][:0])" || r == "lang.NewArray()"
}

func isFreshObjectText(r string) bool {
	return strings.HasPrefix(r, "lang.Value{Tag: ValueObj, Obj: &make(") || strings.HasPrefix(r, "lang.NewValue(make(map[") || strings.HasPrefix(r, "val(make(map[") || r == "lang.NewObject()"
}

// payloadImmutable: the scalar a value points to (*float64, *string, *bool) is written once, when it
// is allocated. Copies of a value share that storage (a for-in variable, a plucked member, an
// argument): a store through an existing payload pointer changes all of them at once.
func payloadImmutable(c *Ctx, rule string) {
	p := c.P
	c.note("%s payload-immutable: every store through a *float64 / *string / *bool in package lang initialises a payload allocated in that function (its address is the fresh allocation); no store goes through a pointer read from Value.Num / Value.Str / Value.Bool or received from elsewhere.", rule)
	n := 0
	for _, fn := range p.Funcs {
		if !p.InLang(fn) || p.inTestFile(fn) {
			continue
		}
		allInstrs(fn, func(in ssa.Instruction) {
			st, ok := in.(*ssa.Store)
			if !ok {
				return
			}
			pt, ok := st.Addr.Type().Underlying().(*types.Pointer)
			if !ok {
				return
			}
			// the payload types of Value: *float64 (Num), *string (Str), *bool (Bool); a *int counter handed
			// to a helper is not a payload
			b, ok := pt.Elem().Underlying().(*types.Basic)
			if !ok || !(b.Kind() == types.Float64 || b.Kind() == types.String || b.Kind() == types.Bool) {
				return
			}
			if _, fresh := st.Addr.(*ssa.Alloc); fresh {
				n++
				return
			}
			// fields and elements of local aggregates are not payloads
			switch st.Addr.(type) {
			case *ssa.FieldAddr, *ssa.IndexAddr, *ssa.Global:
				return
			}
			n++
			c.violated(rule, "payload-store in "+shortName(fn)+": "+p.RenderShort(st.Addr), p.InstrPos(st), "a scalar payload is overwritten in place through "+p.RenderShort(st.Addr)+": every value that shares this storage (copies made by assignment, for-in, arguments) changes with it")
		})
	}
	if n < 3 {
		c.undecided(rule, "payload-store instance-floor", "", fmt.Sprintf("%d scalar stores found, 5 expected (NewValue's payload allocations)", n))
	} else {
		c.ok(rule, "payload-stores", "", fmt.Sprintf("%d scalar stores, all into fresh allocations", n))
	}
}

// appendedPhi: the single element of `append(list, x)` when x is a merged value (phi).
func appendedPhi(call *ssa.Call) *ssa.Phi {
	sl, ok := call.Call.Args[1].(*ssa.Slice)
	if !ok {
		return nil
	}
	arr, ok := sl.X.(*ssa.Alloc)
	if !ok {
		return nil
	}
	for _, r := range referrersOf(arr) {
		if ia, ok := r.(*ssa.IndexAddr); ok {
			for _, rr := range referrersOf(ia) {
				if st, ok := rr.(*ssa.Store); ok && st.Addr == ssa.Value(ia) {
					if ph, ok := st.Val.(*ssa.Phi); ok {
						return ph
					}
				}
			}
		}
	}
	return nil
}

// paramSubst: a renderer for texts of helper g (split off owner) in which g's parameters are
// replaced by what owner's single call of g passes (after abbrev). With no or several call sites the
// texts are left as they are.
func paramSubst(p *Program, owner, g *ssa.Function, abbrev func(string) string) func(string) string {
	var site ssa.CallInstruction
	n := 0
	doneFn := map[*ssa.Function]bool{}
	for _, fn := range append([]*ssa.Function{owner}, p.privateCluster(owner)...) {
		if doneFn[fn] {
			continue
		}
		doneFn[fn] = true
		for _, call := range callsIn(fn) {
			if call.Common().StaticCallee() == g {
				site = call
				n++
			}
		}
	}
	if n != 1 {
		return abbrev
	}
	type rep struct {
		re *regexp.Regexp
		to string
	}
	var reps []rep
	args := site.Common().Args
	for i, prm := range g.Params {
		if i >= len(args) {
			break
		}
		to := abbrev(p.Render(args[i]))
		if to == prm.Name() {
			continue
		}
		reps = append(reps, rep{regexp.MustCompile(`(^|[^A-Za-z0-9_.])` + regexp.QuoteMeta(prm.Name()) + `($|[^A-Za-z0-9_])`), to})
	}
	return func(s string) string {
		s = abbrev(s)
		for _, r := range reps {
			for i := 0; i < 4; i++ {
				s = r.re.ReplaceAllString(s, "${1}"+strings.ReplaceAll(r.to, "$", "$$")+"${2}")
			}
		}
		return s
	}
}

// assignmentTargetLocation: a member or index target of an assignment is the cell GetMember hands
// back (a missing member comes back as nil and is created on assignment). The assignment stores
// into that cell, so the cell must be the container's own — loaded from v.Array[i] or (*v.Obj)[key].
// A cell made for the occasion (the bound copy of a prototype method, the one-character string made
// for s[i]) is nobody's member: the store succeeds and is lost, silently.
func assignmentTargetLocation(c *Ctx, rule string) {
	p := c.P
	c.note("%s assignment-target-location: every non-nil cell a success return of GetMember (and the helpers split off it) hands back is loaded from the receiver's own storage (v.Array[i], (*v.Obj)[key]); a cell built for the occasion is reported per receiver kind — an assignment through it changes nothing and raises nothing.", rule)
	gm := p.LangFunc("(*Value).GetMember")
	if gm == nil {
		c.undecided(rule, "GetMember", "", "anchor not found")
		return
	}
	ek := EKOf(p)
	ms := p.maySetOf(gm, "v.Tag", valueTagNames(p))
	type armFn struct {
		fn   *ssa.Function
		tags func(b *ssa.BasicBlock) []string
	}
	arms := []armFn{{gm, func(b *ssa.BasicBlock) []string { return ms.At(b) }}}
	for _, call := range callsIn(gm) {
		h := call.Common().StaticCallee()
		if h != nil && h != gm && p.inClusterOf(gm, h) && !staticCalleeIs(call, "(*lang.Value).protoMember") {
			at := ms.At(call.Block())
			arms = append(arms, armFn{h, func(*ssa.BasicBlock) []string { return at }})
		}
	}
	kindOf := func(tags []string) string {
		if len(tags) == 1 {
			return tags[0]
		}
		for _, t := range tags {
			if t == "ValueArray" || t == "ValueObj" || t == "ValueStr" {
				return strings.Join(tags, ",")
			}
		}
		return "other kinds"
	}
	nOwn, nFresh := 0, 0
	reported := map[string]bool{}
	for _, arm := range arms {
		F := FactsOf(arm.fn)
		for _, r := range returnsOf(arm.fn) {
			res := effectiveResults(r)
			if len(res) != 2 || !ek.KindsAt(res[1], F.At(r.Block())).Has(KNil) {
				continue
			}
			kind := kindOf(arm.tags(r.Block()))
			seen := map[ssa.Value]bool{}
			var visit func(v ssa.Value)
			visit = func(v ssa.Value) {
				if seen[v] {
					return
				}
				seen[v] = true
				if isNilConst(v) {
					return
				}
				switch x := v.(type) {
				case *ssa.Phi:
					for _, e := range x.Edges {
						visit(e)
					}
					return
				case *ssa.UnOp:
					if x.Op == token.MUL {
						if ia, ok := x.X.(*ssa.IndexAddr); ok && strings.Contains(p.RenderShort(ia.X), "v.Array") {
							nOwn++
							return
						}
					}
				case *ssa.Lookup:
					if strings.Contains(p.RenderShort(x.X), "v.Obj") {
						nOwn++
						return
					}
				case *ssa.Extract:
					if lk, ok := x.Tuple.(*ssa.Lookup); ok && x.Index == 0 && strings.Contains(p.RenderShort(lk.X), "v.Obj") {
						nOwn++
						return
					}
					if call, ok := x.Tuple.(*ssa.Call); ok && x.Index == 0 {
						if staticCalleeIs(call, "(*lang.Value).protoMember") {
							nFresh++
							key := "assignment-target-location " + kind + " prototype member"
							if !reported[key] {
								reported[key] = true
								c.violated(rule, key, p.InstrPos(r), "for a receiver of kind "+kind+" GetMember hands back the bound copy of a prototype method where the receiver has no such member of its own: an assignment to that name stores into the copy and is lost without an error")
							}
							return
						}
						if g := call.Call.StaticCallee(); g != nil && p.inClusterOf(gm, g) {
							return // a helper of GetMember: its own returns are classified as an arm
						}
					}
				case *ssa.Call:
					if staticCalleeIs(x, "lang.NewCell") {
						nFresh++
						key := "assignment-target-location " + kind + " fresh cell"
						if !reported[key] {
							reported[key] = true
							c.violated(rule, key, p.InstrPos(r), "for a receiver of kind "+kind+" GetMember hands back a cell made for the occasion ("+p.RenderShort(x)+"): an assignment through it is lost without an error")
						}
						return
					}
				case *ssa.Alloc:
					nFresh++
					key := "assignment-target-location " + kind + " fresh cell"
					if !reported[key] {
						reported[key] = true
						c.violated(rule, key, p.InstrPos(r), "for a receiver of kind "+kind+" GetMember hands back a cell made for the occasion: an assignment through it is lost without an error")
					}
					return
				}
				c.undecided(rule, "assignment-target-location "+kind+" "+p.RenderShort(v), p.InstrPos(r), "the provenance of a cell GetMember returns is not recognised")
			}
			// `return v.protoMember(member)`: both results of one call
			visit(res[0])
		}
	}
	c.check(nOwn >= 2, rule, "assignment-target-location own members", p.Pos(gm.Pos()), fmt.Sprintf("%d returns hand back the receiver's own cell (array element, object member)", nOwn), fmt.Sprintf("only %d returns of GetMember hand back a cell of the receiver's own storage; the array and the object arm are expected", nOwn))
}

package main

import (
	"fmt"
	"go/types"
	"sort"
	"strings"

	"golang.org/x/tools/go/ssa"
)

func init() {
	register(&ruleSet{
		id:    "C01",
		title: "success or one of three error kinds, never a crash, no escaping sentinel",
		run:   runC01,
		decided: "(a) the error values the exported entry points of package lang can return are nil, SyntaxError, RuntimeError or JsonError on every path; " +
			"(b) no control-flow sentinel reaches them (error-kind inference with edge refinement, sentinel scope agreement between parser and evaluator); " +
			"(c) every explicit panic site is discharged by a recognised unreachability argument; (d) the enumerated partial operations are guarded; " +
			"(e) the CLI maps every error to a non-zero exit with a diagnostic." +
			" (f) every explicit panic(...) statement of the module is shown unreachable by a re-derived argument (exhaustive enum switches over the tags a token can carry given its construction sites, the constructor domain of NewValue, co-assignment of ParentObj with Str/Num, the frame balance); every index / slice expression and every payload dereference of a Value in package lang is guarded or covered by a frozen per-symbol exception; every pushed frame is one deeper than its parent so recursion through any frame kind is stopped by the limit." +
			" Every strings.Repeat count is non-negative by constant or guard; for-in over an array iterates with Go's range." +
			" pop / popfirst only re-slice their receiver (no nil cell is left in a backing array another reference covers)." +
			" The line / column computation is the recognised bounds-safe scan; function values never enter containers (copy on insertion rejects them)." +
			" Between an evaluation call and a later dereference of a payload of a cell obtained before it the tag is tested again; single bytes of the program text are read at the cursor under !atEnd() only.",
		notDecided: "absence of every implicit Go panic (lexer cursor indexing, deep recursion), termination.",
	})
}

func runC01(c *Ctx) {
	discharged := scopeAgreement(c, "R2")
	c01R1(c, discharged)
	valueAfterError(c, "R3")
	nilRoot(c, "R4")
	explicitPanics(c, "R5")
	divisionGuards(c, "R6")
	indexGuards(c, "R6")
	repeatGuards(c, "R6")
	payloadUnderTag(c, "R7")
	lexerByteIndex(c, "R6")
	cliExitDiscipline(c, "R8")
	noNilCellStored(c, "R17")
	uncheckedTypeAssertions(c, "R18")
	if es := c.P.LangFunc("(*Evaluator).evalStatement"); es != nil {
		c.shared("R10", "C07/R7", "for-in over an array iterates with Go's range over the array value taken at loop entry (bounds-safe by construction): an index loop with a hoisted length panics when the body shrinks the array", keyHas("for-in ValueArray"), func(s *Ctx) { c07ForIn(s, es) })
	}
	c.shared("R11", "C04/R3", "a value that contains itself ends in an error or a marker, not in a Go stack overflow: every recursive descent of the renderer and of the JSON converter passes the check flag true and the extended path, and is reached only after the path scan", keyHas("cycle-guard"), func(s *Ctx) {
		cycleGuard(s, "R3", "(*Value).toGoValueInterval")
		cycleGuard(s, "R3", "(*Value).prettyStringInteral")
	})
	c.shared("R19", "C02/R2", "the command line never dereferences a nil evaluator: every success return of EvalProgram hands out the evaluator it built (a `nothing to run` shortcut that returns nil, nil is a nil-pointer crash in the -o path)", keyHas("success-return"), c02R2)
	c.shared("R20", "C09/R3", "no Go stack overflow through a value that is its own pending parent: a stored null is a plain null — it does not keep the link to the object it was read from, over which the walk that looks whether a pending parent exists by now would run in a circle", keyHas("copy ValueNil"), c09R3)
	if eb := c.P.LangFunc("(*Evaluator).evalBinaryExpr"); eb != nil {
		c.shared("R21", "C05/R7", "a pattern that does not compile is an error, not a panic: program data is compiled as a regular expression by the match operators only, where the compile error is reported (no MustCompile on a value of the program)", keyHas("pattern-compiled-by-the-match-only"), func(s *Ctx) { c05Regex(s, eb) })
	}
	c.shared("R22", "C12/R1", "building an error never crashes: Evaluator.error, Parser.error and Lexer.error do nothing but look up line and column (an error report that also walks the frame stack into a fixed array panics at the depth limit)", keyHas("funnel "), runC12)
	c.shared("R23", "C16/R3", "no nil cell ever sits in an object: pluck stores a cell of its own for every requested key, the absent ones included (printing or iterating the result dereferences every member)", keyHas("pluck-stores", "pluck-present-key", "pluck-absent"), runC16)
	c.shared("R16", "C20/R13", "never a Go runtime crash: the Go stack a run uses is bounded — between two frame pushes (each with its depth test) the evaluator does not recurse to a depth that grows with the program text", keyHas("recursion-between-frames"), func(s *Ctx) { recursionBetweenFrames(s, "R13") })
	c.shared("R15", "C10/R6", "no evaluator is used half-built: all interpreter state is the documented set, created by the one constructor — a map field added for a cache and made in only one of the two entry points is a nil-map panic in the other", keyHas("evaluator-state", "syntax-tree-store", "interpreter-state"), func(s *Ctx) { interpreterState(s, "R6") })
	c.shared("R13", "C12/R8", "building an error message never crashes: the line / column computation is the recognised scan over byte offsets, which slices the source text only between a recorded line start and the scan index (no computed bound that an empty text or an end position could push out of range)", keyHas("scan-index", "line-", "column", "source-line"), c12LineColArithmetic)
	c.shared("R14", "C09/R3", "a function value never becomes an element of a container: call arguments and literal items are copied on insertion, and the copy rejects functions — sort's clone and the renderers rely on every element being a data value", keyHas("copy-on-insert", "copy-flag-"), c09R3)
	c.shared("R12", "C15/R2", "no nil cell ever sits in a slice that a value may still cover: pop and popfirst only re-slice their receiver, nothing is written into the backing array (which copies of the array share), so rendering or iterating another reference never meets a nil cell", keyHas("array.pop", "array.push"), func(s *Ctx) { c15R2(s, nativeMethods(s.P)) })
	c.shared("R9", "C08/R3", "runaway recursion ends in an error, not in a Go stack overflow: every frame pushed on another one is one deeper, and the depth test precedes the push", keyHas("depth"), func(s *Ctx) { c08R3(s, discoverFrameModel(s.P), "R3") })
}

// exportedLangEntryPoints: exported package-level functions and exported methods of exported
// types of package lang whose signature has an error result.
func exportedLangEntryPoints(p *Program) []*ssa.Function {
	var out []*ssa.Function
	for _, f := range p.Funcs {
		if !p.InLang(f) || f.Parent() != nil || errResultIndex(f.Signature) < 0 {
			continue
		}
		obj, ok := f.Object().(*types.Func)
		if !ok || !obj.Exported() {
			continue
		}
		if recv := f.Signature.Recv(); recv != nil {
			n := namedOf(recv.Type())
			if n == nil || !n.Obj().Exported() {
				continue
			}
		}
		out = append(out, f)
	}
	sort.Slice(out, func(i, j int) bool { return out[i].String() < out[j].String() })
	return out
}

// R1 api-error-kinds
func c01R1(c *Ctx, discharged Kinds) {
	p := c.P
	ek := EKOf(p)
	c.Analysed["errkind_fixpoint_rounds"] = ek.rounds
	c.Analysed["sentinels_discovered"] = len(ek.sentinels)
	c.note("R1 api-error-kinds: for EvalProgram, EvalExpression, GetRootJson the inferred kind set of the error result must be a subset of {nil, SyntaxError, RuntimeError, JsonError}; sentinels discovered from `var x = errors.New(..)` globals of package lang: %s", ek.kindNames(ek.AllSentinels()))
	if len(ek.sentinels) < 5 {
		c.undecided("R1", "sentinel-discovery", "", fmt.Sprintf("found %d sentinel globals (errors.New initialised, never re-assigned); 5 were confirmed by hand", len(ek.sentinels)))
	}
	allowed := KNil | KSyntax | KRuntime | KJson
	primary := map[string]bool{"EvalProgram": true, "EvalExpression": true}
	found := 0
	for _, f := range exportedLangEntryPoints(p) {
		idx := errResultIndex(f.Signature)
		k := ek.Sum(f, idx)
		removed := k & discharged
		k &^= discharged // scoped sentinels whose parser/evaluator agreement R2 established
		name := shortName(f)
		// methods like Error() string have no error result and are not listed; the low-level
		// Value accessors return raw errors by design (wrapped by their callers)
		isEntry := primary[f.Name()] || (f.Signature.Recv() != nil && isLangNamed(f.Signature.Recv().Type(), "Evaluator"))
		if !isEntry {
			continue
		}
		found++
		bad := k &^ allowed
		lenient := !primary[f.Name()]
		if lenient {
			// GetRootJson: only required not to leak sentinels / unknown
			bad = k & (ek.AllSentinels() | KUnknown)
		}
		if bad == 0 {
			d := "kinds " + ek.kindNames(k)
			if removed != 0 {
				d += "; " + ek.kindNames(removed) + " are inferred flow-insensitively but cannot arise at this entry point: discharged by the scope agreement R2"
			}
			c.ok("R1", "entry "+name, p.Pos(f.Pos()), d)
			continue
		}
		var why []string
		for b := Kinds(1); b != 0 && b <= bad; b <<= 1 {
			if bad.Has(b) {
				why = append(why, ek.kindNames(b)+" <- "+ek.chain(f, idx, b))
			}
		}
		c.violated("R1", "entry "+name, p.Pos(f.Pos()), fmt.Sprintf("error result may be %s; not allowed: %s\n      witness: %s", ek.kindNames(k), ek.kindNames(bad), strings.Join(why, "\n      witness: ")))
	}
	if found < 2 {
		c.undecided("R1", "entry-points", "", "EvalProgram/EvalExpression not found among the exported functions of package lang")
	}
}

// chain follows one kind back through function summaries to its origin.
func (e *EK) chain(f *ssa.Function, idx int, b Kinds) string {
	var parts []string
	seen := map[*ssa.Function]bool{}
	for f != nil && !seen[f] && len(parts) < 8 {
		seen[f] = true
		F := FactsOf(f)
		var next *ssa.Function
		nextIdx := 0
		found := false
		for _, r := range returnsOf(f) {
			if idx >= len(r.Results) {
				continue
			}
			v := effectiveResults(r)[idx]
			if !e.KindsAt(v, F.At(r.Block())).Has(b) {
				continue
			}
			// find the origin under v
			org, call := e.origin(v, b, F.At(r.Block()), map[ssa.Value]bool{})
			parts = append(parts, fmt.Sprintf("%s returns at %s %s", shortName(f), e.P.InstrPos(r), org))
			if call != nil {
				for _, callee := range e.P.Callees(call) {
					ci := errResultIndex(callee.Signature)
					if e.P.InModule(callee) && ci >= 0 && e.Sum(callee, ci).Has(b) {
						next, nextIdx = callee, ci
						break
					}
				}
			}
			found = true
			break
		}
		if !found {
			break
		}
		f, idx = next, nextIdx
	}
	return strings.Join(parts, " <- ")
}

// origin finds, under value v, a leaf that contributes kind b.
func (e *EK) origin(v ssa.Value, b Kinds, facts factSet, seen map[ssa.Value]bool) (string, *ssa.Call) {
	if seen[v] {
		return "", nil
	}
	seen[v] = true
	switch v := v.(type) {
	case *ssa.Phi:
		F := FactsOf(v.Parent())
		for i, ev := range v.Edges {
			fs := F.OnEdge(v.Block().Preds[i], v.Block())
			if e.KindsAt(ev, fs).Has(b) {
				return e.origin(ev, b, fs, seen)
			}
		}
	case *ssa.Call:
		return "(the error of the call to " + calleeName(v.Common()) + " at " + e.P.InstrPos(v) + ")", v
	case *ssa.Extract:
		if c, ok := v.Tuple.(*ssa.Call); ok {
			return "(the error of the call to " + calleeName(c.Common()) + " at " + e.P.InstrPos(c) + ")", c
		}
	case *ssa.UnOp:
		if a, ok := v.X.(*ssa.Alloc); ok {
			var res string
			var rc *ssa.Call
			F := FactsOf(a.Parent())
			allInstrs(a.Parent(), func(in ssa.Instruction) {
				if st, ok := in.(*ssa.Store); ok && st.Addr == a && res == "" {
					if e.KindsAt(st.Val, F.At(st.Block())).Has(b) {
						res, rc = e.origin(st.Val, b, F.At(st.Block()), seen)
					}
				}
			})
			return res, rc
		}
	}
	return "(" + e.describe(v) + ")", nil
}

// noNilCellStored (R17): variable tables, object members and array elements hold cells that are
// dereferenced without a nil test wherever they are read (getVariable hands the entry out as the
// variable). No store puts the nil constant (directly or as one input of a merge) into a map or
// slice of *Cell or into a *Cell field of a value.
func noNilCellStored(c *Ctx, rule string) {
	p := c.P
	c.note("%s no-nil-cell-stored: every map update, slice element store and append whose element type is *Cell stores a value that is not the nil constant (nor a merge with a nil input): the readers of variable tables, objects and arrays dereference what they find.", rule)
	isCellPtr := func(T types.Type) bool {
		pt, ok := T.Underlying().(*types.Pointer)
		return ok && isLangNamed(pt.Elem(), "Cell")
	}
	var mayBeNil func(v ssa.Value, seen map[ssa.Value]bool) bool
	mayBeNil = func(v ssa.Value, seen map[ssa.Value]bool) bool {
		if seen[v] {
			return false
		}
		seen[v] = true
		if isNilConst(v) {
			return true
		}
		if phi, ok := v.(*ssa.Phi); ok {
			for _, e := range phi.Edges {
				if mayBeNil(e, seen) {
					return true
				}
			}
		}
		return false
	}
	for _, fn := range p.Funcs {
		if !p.InLang(fn) {
			continue
		}
		n := 0
		allInstrs(fn, func(in ssa.Instruction) {
			var val ssa.Value
			what := ""
			switch x := in.(type) {
			case *ssa.MapUpdate:
				if isCellPtr(x.Value.Type()) {
					val, what = x.Value, "entry "+p.RenderShort(x.Map)+"["+p.RenderShort(x.Key)+"]"
				}
			case *ssa.Store:
				if _, isIdx := x.Addr.(*ssa.IndexAddr); isIdx && isCellPtr(x.Val.Type()) {
					val, what = x.Val, "element "+p.RenderShort(x.Addr)
				}
			}
			if val == nil {
				return
			}
			n++
			// a nil known to be replaced: the store happens where the value is known non-nil
			bad := mayBeNil(val, map[ssa.Value]bool{}) && !FactsOf(fn).At(in.Block()).KnownNonNil(val)
			c.check(!bad, rule, fmt.Sprintf("no-nil-cell-stored %s #%d", shortName(fn), n), p.InstrPos(in), what+" := "+p.RenderShort(val), what+" is set to a nil cell: the name stays present, and the next read hands out a nil *Cell that the evaluator dereferences (a Go nil-pointer panic instead of an error)")
		})
	}
	c.floor(rule, 15)
}

// uncheckedTypeAssertions (R18): `x.(T)` without the comma-ok form panics when x holds another
// type. Every type assertion in lang, cli and main is the comma-ok form (a type switch is), or
// asserts the very type a dominating comma-ok assertion of the same value has established.
func uncheckedTypeAssertions(c *Ctx, rule string) {
	p := c.P
	c.note("%s unchecked-type-assertion: every type assertion in the module is the comma-ok form (type switches compile to it) or repeats, on the same value, a comma-ok assertion whose success holds where it stands; a bare `x.(T)` on parser or program data is a Go panic for the inputs that carry another type.", rule)
	nOK := 0
	for _, fn := range p.Funcs {
		if !p.InModule(fn) || p.inTestFile(fn) {
			continue
		}
		n := 0
		allInstrs(fn, func(in ssa.Instruction) {
			ta, ok := in.(*ssa.TypeAssert)
			if !ok {
				return
			}
			if ta.CommaOk {
				nOK++
				return
			}
			n++
			// established: the facts at this block include the success of a comma-ok assertion of the same
			// value to the same type
			established := false
			for f := range FactsOf(fn).At(ta.Block()) {
				if ex, isEx := f.cond.(*ssa.Extract); isEx && ex.Index == 1 && f.truth {
					if prev, isTA := ex.Tuple.(*ssa.TypeAssert); isTA && prev.X == ta.X && types.Identical(prev.AssertedType, ta.AssertedType) {
						established = true
					}
				}
			}
			c.check(established, rule, fmt.Sprintf("unchecked-type-assertion %s #%d", shortName(fn), n), p.InstrPos(ta), "the asserted type was established by a comma-ok assertion", "`"+p.RenderShort(ta.X)+".("+shortType(ta.AssertedType)+")` is not the comma-ok form and nothing establishes the type before it: for any other type the run ends in a Go panic (interface conversion) instead of an error")
		})
	}
	c.Analysed["comma_ok_type_assertions"] = nOK
	if nOK < 30 {
		c.undecided(rule, "instance-floor", "", fmt.Sprintf("%d comma-ok type assertions found in the module, more than 30 confirmed", nOK))
	} else {
		c.ok(rule, "type-assertions-comma-ok", "", fmt.Sprintf("%d comma-ok type assertions", nOK))
	}
}

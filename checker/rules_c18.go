package main

import (
	"fmt"
	"go/token"
	"go/types"
	"regexp"
	"sort"
	"strings"

	"golang.org/x/tools/go/ssa"
)

func init() {
	register(&ruleSet{
		id:    "C18",
		title: "printf emits exactly the format, each directive replaced and padded",
		run:   runC18,
		decided: "printf performs exactly one write to the output, of the locally built string, and no error return is reachable after it nor any write before it (so a failing printf writes nothing); the directive table (%% -> '%', %s -> a checked string argument, %f -> a checked number argument, %v -> any argument rendered at top level under an explicit argument-count guard, anything else -> error; a trailing % or width -> error before the byte is read); literal bytes are copied unchanged; padding: the pad count is |width| - len(rendering), computed only under len(rendering) < |width| (never negative, never truncating), on the left for a positive and on the right for a negative width, pad byte '0' exactly when the width text starts with '0'; the width limit test precedes every use of the width; arguments are consumed in order, one per directive." +
			" The argument index moves on only under %s, %f and %v; call arguments are evaluated into cells of their own; numbers are rendered by FormatFloat(x,'f',-1,64) only." +
			" A copied argument keeps its kind. The argument check hands back the argument itself only when it has the requested kind, and changes nothing.",
		notDecided: "byte-exact output for every format string (the scanner's index arithmetic is only checked through its guards).",
	})
}

var phiName = regexp.MustCompile(`φ[A-Za-z_0-9]+(⟨[^⟩]*⟩)?`)

func runC18(c *Ctx) {
	defer c.shared("R10", "C01/R6", "only a dangling %% is an error, and `%%%%` or a directive at the very end of the format is not: every byte of the format is read under a bound established for that very index (a test hoisted out of the scan, such as `the format ends in %%`, does not establish it)", func(o Obligation) bool {
		if strings.Contains(o.Key, "nativePrintf") {
			return true
		}
		_, fmtFn, _ := printfFormatter(c.P)
		return fmtFn != nil && strings.Contains(o.Key, shortName(fmtFn))
	}, func(s *Ctx) { indexGuards(s, "R6") })
	defer c.shared("R11", "C17/R3", "%s and %v are replaced by the rendering print gives the argument: the container renderer writes the documented pieces only (an element has the rendering it has on its own)", keyHas("render-write", "cycle-guard"), runC17)
	defer c.shared("R12", "C04/R3", "%v renders an array that is shared but not cyclic in full: the renderer's ancestor test calls two arrays the same only when they share the last slot of their backing store", keyHas("alias", "isSame"), func(s *Ctx) { isSameTable(s, "R3") })
	defer c.shared("R8", "C09/R3", "an argument of the wrong kind is an error: the copy made when arguments are evaluated keeps the kind (a regex stays a regex, so %%s rejects it)", keyHas("copy Value"), c09R3)
	defer c.shared("R7", "C17/R2", "%f is replaced by the rendering of the number: String() and the renderer produce FormatFloat(x, 'f', -1, 64) and nothing else (no integer fast path)", ruleIs("R2"), runC17)
	defer c.shared("R6", "C08/R4", "each directive shows the value its argument had when it was evaluated: call arguments (printf's included) are evaluated into cells of their own, so a later argument's side effect cannot change an earlier one", keyHas("call-arguments-copied"), c08R4)
	p := c.P
	argumentCheckExact(c, "R9")
	outerPf, pf, fmtCall := printfFormatter(p)
	if pf == nil {
		c.undecided("R1", "nativePrintf", "", "anchor not found")
		return
	}
	F := FactsOf(pf)
	ek := EKOf(p)
	sh := func(v ssa.Value) string { return p.RenderShort(v) }
	guardsAt := func(b *ssa.BasicBlock) map[string]bool {
		g := map[string]bool{}
		for _, rl := range F.At(b).Rels() {
			g[sh(rl.x)+" "+rl.op.String()+" "+sh(rl.y)] = true
		}
		for f := range F.At(b) {
			if _, ok := relsOf(f); !ok {
				s := sh(f.cond)
				if !f.truth {
					s = "!" + s
				}
				g[s] = true
			}
		}
		return g
	}

	// R1 single-write-after-validation
	c.note("R1 single-write-after-validation: nativePrintf contains exactly one call that writes to the evaluator's output (Evaluator.print / fmt.Fprint* on Evaluator.stdout); its argument is the String() of the one local strings.Builder; every return reachable from it is the success return; every error return is unreachable from it.")
	var writes []ssa.CallInstruction
	if fmtCall != nil {
		// the scanner is a helper: it writes nothing itself, its text is what nativePrintf prints, and
		// the arguments reach it unchanged
		for _, call := range callsIn(pf) {
			f := call.Common().StaticCallee()
			if staticCalleeIs(call, "(*lang.Evaluator).print") || (f != nil && (strings.HasPrefix(f.String(), "fmt.Fp") || strings.HasPrefix(f.String(), "fmt.Print"))) {
				c.violated("R1", "single-write", p.InstrPos(call), "the format scanner "+shortName(pf)+" writes to the output itself")
			}
		}
		okRes := true
		for _, rc := range p.successResults(pf) {
			if sh(effectiveResults(rc.Ret)[0]) != "(*strings.Builder).String(&strings.Builder{})" {
				okRes = false
			}
		}
		c.check(okRes, "R1", "scanner-result", p.Pos(pf.Pos()), "the scanner returns the String() of its one builder", "a success return of "+shortName(pf)+" is not the locally built string")
		okArgs := false
		for i, prm := range pf.Params {
			if _, isSl := prm.Type().Underlying().(*types.Slice); isSl && i < len(fmtCall.Call.Args) {
				if q, ok := fmtCall.Call.Args[i].(*ssa.Parameter); ok && q.Parent() == outerPf {
					okArgs = true
				}
			}
		}
		c.check(okArgs, "R1", "scanner-arguments", p.InstrPos(fmtCall), "printf's arguments reach the scanner unchanged", "the scanner is not given printf's argument list as it is")
	}
	F1 := FactsOf(outerPf)
	for _, call := range callsIn(outerPf) {
		if staticCalleeIs(call, "(*lang.Evaluator).print") {
			writes = append(writes, call)
			continue
		}
		if f := call.Common().StaticCallee(); f != nil && strings.HasPrefix(f.String(), "fmt.Fp") {
			writes = append(writes, call)
		}
		if f := call.Common().StaticCallee(); f != nil && (strings.HasPrefix(f.String(), "fmt.Print")) {
			writes = append(writes, call)
		}
	}
	if len(writes) != 1 {
		c.violated("R1", "single-write", p.Pos(pf.Pos()), fmt.Sprintf("printf performs %d writes to the output; exactly one (after the whole format was validated) is required, otherwise a directive that fails later leaves partial output", len(writes)))
	} else {
		w := writes[0]
		arg := sh(w.Common().Args[len(w.Common().Args)-1])
		directWrite := false
		_ = directWrite
		if f := w.Common().StaticCallee(); f != nil && f.String() == "fmt.Fprint" && len(w.Common().Args) == 2 && strings.HasSuffix(sh(w.Common().Args[0]), "e.stdout") {
			// the helper inlined: fmt.Fprint(e.stdout, text) — the text is the one element written, as data
			if es := variadicElems(w.Common().Args[1]); len(es) == 1 {
				v := es[0]
				if mi, ok := v.(*ssa.MakeInterface); ok {
					v = mi.X
				}
				arg = sh(v)
				directWrite = true
			}
		}
		if fmtCall != nil {
			ex, isEx := w.Common().Args[len(w.Common().Args)-1].(*ssa.Extract)
			var errV ssa.Value
			for _, r := range referrersOf(fmtCall) {
				if e2, ok := r.(*ssa.Extract); ok && e2.Index == 1 {
					errV = e2
				}
			}
			c.check(isEx && ex.Tuple == ssa.Value(fmtCall) && ex.Index == 0 && errV != nil && F1.At(w.Block()).KnownNil(errV), "R1", "single-write", p.InstrPos(w), "e.print(text of the scanner), after the scanner succeeded", "the single write emits "+arg+", which is not the scanner's text on its success path")
		} else {
			c.check(arg == "(*strings.Builder).String(&strings.Builder{})", "R1", "single-write", p.InstrPos(w), "e.print(sb.String())", "the single write emits "+arg+", not the locally built string")
		}
		okAfter := true
		for _, r := range returnsOf(outerPf) {
			if canReach(w, r) {
				if !ek.KindsAt(effectiveResults(r)[1], F1.At(r.Block())).Has(KNil) || ek.KindsAt(effectiveResults(r)[1], F1.At(r.Block())) != KNil {
					okAfter = false
				}
			}
		}
		c.check(okAfter, "R1", "no-error-after-write", p.InstrPos(w), "only the success return follows the write", "an error return is reachable after the write")
		// the write is outside the scanning loop
		c.check(!reachableFrom(w.Block().Succs, nil)[w.Block()], "R1", "write-outside-loop", p.InstrPos(w), "the write is not inside the format loop", "the write happens inside the format loop: text of earlier directives is emitted before later ones are validated")
	}
	// Evaluator.print itself: one Fprint of its argument
	if pr := p.LangFunc("(*Evaluator).print"); pr != nil {
		var texts []string
		for _, rc := range p.renderedCalls(pr) {
			texts = append(texts, rc.Text)
		}
		c.check(len(texts) == 1 && texts[0] == "fmt.Fprint(e.stdout, [str][:])", "R1", "print-helper", p.Pos(pr.Pos()), "Evaluator.print(str) = fmt.Fprint(e.stdout, str)", "Evaluator.print performs "+strings.Join(texts, " ; ")+"; the text must be written as data (Fprint), unchanged")
	} else if len(writes) == 1 && func() bool {
		f := writes[0].Common().StaticCallee()
		return f != nil && f.String() == "fmt.Fprint" && strings.HasSuffix(sh(writes[0].Common().Args[0]), "e.stdout")
	}() {
		c.ok("R1", "print-helper", p.InstrPos(writes[0]), "no helper: printf writes with fmt.Fprint(e.stdout, text) itself")
	} else {
		c.undecided("R1", "print-helper", "", "anchor (*Evaluator).print not found")
	}
	// builder writes: what goes into the output string
	c.note("R2 directive-table: builder writes and argument checks with the byte tests that guard them: a byte != '%%' is copied; after '%%' (and an optional width): '%%' -> WriteByte('%%'); 's' -> checkArg(args, argIndex, ValueStr); 'f' -> checkArg(args, argIndex, ValueNum); 'v' -> PrettyString(args[argIndex], false) under len(args)-1 >= argIndex; otherwise the `unknown format code` error. argIndex starts at 1 and is incremented once per consumed argument.")
	fmtByte := "*lang.checkArg(args, 0, ValueStr)#0.Str[φint0]"
	type expect struct {
		text   string
		guards []string
	}
	wantCalls := []expect{
		{"(*strings.Builder).WriteByte(&strings.Builder{}, " + fmtByte + ")", []string{fmtByte + " != 37"}},
		{"(*strings.Builder).WriteByte(&strings.Builder{}, 37)", []string{fmtByte + " == 37"}},
		{"lang.checkArg(args, φint1, ValueStr)", []string{fmtByte + " == 115"}},
		{"lang.checkArg(args, φint1, ValueNum)", []string{fmtByte + " == 102"}},
		{"(*lang.Value).PrettyString(args[φint1], false)", []string{fmtByte + " == 118", "(len(args) - 1) >= φint1"}},
	}
	r := &renderer{p: p, noExpand: true, depth: 2}
	got := map[string][]map[string]bool{}
	var allWrites []string
	for _, call := range callsIn(pf) {
		text := r.call(call.Common(), 0)
		got[text] = append(got[text], guardsAt(call.Block()))
		if f := call.Common().StaticCallee(); f != nil && strings.HasPrefix(f.String(), "(*strings.Builder).Write") {
			allWrites = append(allWrites, text)
		}
	}
	// the directive byte after a width is read at the moved index: both `%s` and `%5s` use the
	// same switch, whose subject is fmtStr[i] with i = φi+1 or numEnd; the renderer names the
	// loop variable, so the guards are compared modulo the index expression
	norm := func(s string) string {
		return regexp.MustCompile(`\.Str\[[^\]]*\]`).ReplaceAllString(s, ".Str[φint0]")
	}
	for _, e := range wantCalls {
		found := false
		for text, gs := range got {
			if norm(text) != e.text {
				continue
			}
			found = true
			for _, g := range gs {
				ng := map[string]bool{}
				for k := range g {
					ng[norm(k)] = true
				}
				var lacking []string
				for _, x := range e.guards {
					if !ng[x] {
						lacking = append(lacking, x)
					}
				}
				c.check(len(lacking) == 0, "R2", "directive "+e.text, p.Pos(pf.Pos()), "under "+strings.Join(e.guards, " && "), "not guarded by {"+strings.Join(lacking, " ; ")+"}")
			}
		}
		if !found {
			c.violated("R2", "directive "+e.text, p.Pos(pf.Pos()), "printf lacks the documented action "+e.text)
		}
	}
	// no other builder writes than the documented ones + the two padded-argument writes
	nPadded := 0
	for _, w := range allWrites {
		nw := norm(w)
		known := false
		for _, e := range wantCalls {
			if nw == e.text {
				known = true
			}
		}
		if strings.HasPrefix(nw, "(*strings.Builder).WriteString(&strings.Builder{}, phi(") && strings.Contains(nw, "strings.Repeat(") {
			known = true
			nPadded++
		}
		if !known {
			c.violated("R2", "extra-write "+nw, p.Pos(pf.Pos()), "printf adds text that is not part of the format: "+nw+" (no separators and no newline are added)")
		}
	}
	// a width pads the rendering of every directive that has one: %s, %f and %v alike (F-31: the width of
	// %v used to be parsed and ignored, and this count said 2)
	c.check(nPadded == 3, "R2", "padded-writes", p.Pos(pf.Pos()), "three padded argument writes (%s, %f and %v)", fmt.Sprintf("%d padded argument writes found, 3 expected (one per directive that renders an argument)", nPadded))
	// unknown directive / dangling % errors exist
	errs := map[string]bool{}
	for _, ret := range returnsOf(pf) {
		e := sh(effectiveResults(ret)[1])
		for _, m := range []string{"unknown format code", "expected something after %%", "expected something after width specifier", "invalid width specifier", "width specifier too large", "missing argument"} {
			if strings.Contains(e, m) {
				errs[m] = true
			}
		}
	}
	for _, m := range []string{"unknown format code", "expected something after %%", "expected something after width specifier", "invalid width specifier", "width specifier too large", "missing argument"} {
		c.check(errs[m], "R2", "error-arm "+m, p.Pos(pf.Pos()), "present", "printf has no `"+m+"` error arm")
	}
	// ... and no others: printf fails for the listed reasons only (a wrong or missing argument, reported by
	// the argument check, among them); surplus arguments are ignored, not counted
	nOther := 0
	for _, ret := range returnsOf(pf) {
		res := effectiveResults(ret)
		ev := res[len(res)-1]
		if isNilConst(ev) {
			continue
		}
		e := sh(ev)
		known := strings.Contains(e, "checkArg(") && !strings.Contains(e, "checkArgCount(")
		for _, m := range []string{"unknown format code", "expected something after %", "expected something after width specifier", "invalid width specifier", "width specifier too large", "missing argument", "printf requires at least one argument"} {
			if strings.Contains(e, m) {
				known = true
			}
		}
		if !known {
			nOther++
			c.violated("R2", fmt.Sprintf("error-arms-exact #%d", nOther), p.InstrPos(ret), "printf also fails with "+abbrev(e, 120)+": the statement lists its errors (a dangling %, an unknown directive, a bad or too large width, a missing or wrong argument) — a format with arguments to spare is written, not refused")
		}
	}
	if nOther == 0 {
		c.ok("R2", "error-arms-exact", p.Pos(pf.Pos()), "every error printf returns is one of the listed ones")
	}
	// the trailing-% guard precedes the read of the directive byte: i == end-1 -> error before i++
	// argIndex: starts at 1, +1 per directive that consumes an argument
	okIdx := false
	allInstrs(pf, func(in ssa.Instruction) {
		if phi, ok := in.(*ssa.Phi); ok && loopCarried(phi) && loopVarName(phi) == "int1" {
			s := p.Render(phi)
			if strings.HasPrefix(s, "φint1⟨1 | ") || strings.HasSuffix(s, " | 1⟩") {
				okIdx = strings.Contains(s, "(φint1 + 1)") && !strings.Contains(s, "+ 2") && !strings.Contains(s, "- 1")
			}
		}
	})
	c.check(okIdx, "R2", "argument-index", p.Pos(pf.Pos()), "argIndex = 1, +1 per consumed argument", "the argument index is not `starts at 1, incremented by one`")
	// only %s, %f and %v consume an argument: every increment sits where the directive byte is known to be one of them
	nInc := 0
	allInstrs(pf, func(in ssa.Instruction) {
		bo, ok := in.(*ssa.BinOp)
		if !ok || bo.Op != token.ADD {
			return
		}
		phi, isPhi := bo.X.(*ssa.Phi)
		if one, isOne := constInt(bo.Y); !isPhi || !isOne || one != 1 || !loopCarried(phi) || loopVarName(phi) != "int1" {
			return
		}
		nInc++
		which := ""
		for _, rl := range FactsOf(pf).At(bo.Block()).Rels() {
			if k, isC := constInt(rl.y); isC && rl.op == relEQ && norm(p.Render(rl.x)) == fmtByte {
				switch k {
				case 's', 'f', 'v':
					which = string(rune(k))
				}
			}
		}
		c.check(which != "", "R2", fmt.Sprintf("argument-consumed #%d", nInc), p.InstrPos(bo), "the argument index moves on under directive %"+which, "the argument index is incremented where the directive is not known to be %s, %f or %v: %% (or a failed directive) uses up an argument, so every later directive shows the wrong one")
	})
	c.check(nInc == 3, "R2", "argument-consumers", p.Pos(pf.Pos()), "three increments: %s, %f, %v", fmt.Sprintf("%d increments of the argument index found, 3 expected (one per consuming directive)", nInc))
	c.floor("R2", 12)

	// R3 padding-guards
	c.note("R3 padding-guards: every strings.Repeat(pad, n) in printf has n = width - len(s) under the facts width > 0 and len(s) < width (left padding: Repeat + s), or n = -width - len(s) under width < 0 and len(s) < -width (right padding: s + Repeat); the pad string is \"0\" exactly when the width text's first byte is '0', else \" \".")
	nRep := 0
	padVals := map[ssa.Value][]string{}
	width := "phi(0 | int(strconv.ParseInt(*lang.checkArg(args, 0, ValueStr)#0.Str[(φint0 + 1):φint], 10, 64)#0))"
	for _, call := range callsIn(pf) {
		f := call.Common().StaticCallee()
		if f == nil || f.String() != "strings.Repeat" {
			continue
		}
		nRep++
		cnt := sh(call.Common().Args[1])
		g := guardsAt(call.Block())
		key := fmt.Sprintf("repeat #%d", nRep)
		// which argument string?
		var s string
		for _, tag := range []string{"ValueStr", "ValueNum"} {
			cand := "(*lang.Value).String(lang.checkArg(args, φint1, " + tag + ")#0)"
			if strings.Contains(cnt, cand) {
				s = cand
			}
		}
		for _, cand := range []string{"(*lang.Value).PrettyString(args[φint1], false)", "(*lang.Value).prettyStringInteral(args[φint1], [][:0], false, false)"} {
			if strings.Contains(cnt, cand) {
				s = cand
			}
		}
		if s == "" {
			c.undecided("R3", key, p.InstrPos(call), "pad count "+cnt+" is not computed from the rendering of the current argument")
			continue
		}
		// the padding does not depend on the rendering's length beyond `shorter than the width`: an
		// empty rendering is padded like any other
		var lenTests []string
		for k := range g {
			if strings.HasPrefix(k, "len("+s+") ") && (strings.HasSuffix(k, " 0") || strings.HasSuffix(k, " 1")) {
				lenTests = append(lenTests, k)
			}
		}
		sort.Strings(lenTests)
		c.check(len(lenTests) == 0, "R3", key+" any-length", p.InstrPos(call), "padded whatever the length of the rendering", "the padding is reached only under {"+strings.Join(lenTests, ", ")+"}: an empty rendering (an empty string argument) is written without its padding, so the column collapses")
		left := cnt == "("+width+" - len("+s+"))"
		right := cnt == "(-"+width+" - len("+s+"))"
		switch {
		case left:
			c.check(g[width+" > 0"] && g["len("+s+") < "+width], "R3", key+" left", p.InstrPos(call), "count = width - len under width > 0 && len < width", "the left pad count width - len(s) is computed without `width > 0 && len(s) < width`: a negative count panics in strings.Repeat")
		case right:
			c.check(g[width+" < 0"] && g["len("+s+") < -"+width], "R3", key+" right", p.InstrPos(call), "count = -width - len under width < 0 && len < -width", "the right pad count -width - len(s) is computed without `width < 0 && len(s) < -width`")
		default:
			c.violated("R3", key, p.InstrPos(call), "pad count is "+cnt+"; documented |width| - len(rendering)")
		}
		// concatenation side
		for _, ref := range referrersOf(call.Value()) {
			if b, ok := ref.(*ssa.BinOp); ok && b.Op == token.ADD {
				isLeftConcat := b.X == ssa.Value(call.Value())
				c.check(isLeftConcat == left, "R3", key+" side", p.InstrPos(b), "padding on the documented side", "the padding is concatenated on the wrong side for this width sign")
			}
		}
		// pad string
		pad := sh(call.Common().Args[0])
		c.check(pad == `phi(" " | "0")`, "R3", key+" pad", p.InstrPos(call), `" " or "0"`, "the pad string is "+pad)
		padVals[call.Common().Args[0]] = append(padVals[call.Common().Args[0]], key)
	}
	// one pad choice for every directive: the six sites repeat the same value (the merge selected by the
	// width text alone) — a directive that re-decides the pad (spaces for a non-number, say) uses another
	if nRep > 0 {
		var groups []string
		for _, ks := range padVals {
			groups = append(groups, strings.Join(ks, "+"))
		}
		sort.Strings(groups)
		c.check(len(padVals) == 1, "R3", "pad-choice-shared", p.Pos(pf.Pos()), "all padding sites repeat the one pad string chosen from the width text", fmt.Sprintf("the padding sites use %d different pad values (%s): a directive re-decides the pad string after the width text has selected it, so a width written with a leading 0 is not zero-filled for every directive and argument", len(padVals), strings.Join(groups, " | ")))
	}
	c.check(nRep == 6, "R3", "repeat-count", p.Pos(pf.Pos()), "6 padding sites (3 directives x 2 signs)", fmt.Sprintf("%d padding sites found, 6 expected (%%s, %%f, %%v x left, right)", nRep))
	// pad "0" exactly under numStr[0] == '0'
	zeroOK := false
	allInstrs(pf, func(in ssa.Instruction) {
		phi, ok := in.(*ssa.Phi)
		if !ok || phi.Type().String() != "string" {
			return
		}
		for i, e := range phi.Edges {
			if s, ok := constString(e); ok && s == "0" {
				for k := range guardsAtEdge(p, F, phi.Block().Preds[i], phi.Block()) {
					if strings.HasSuffix(k, "[0] == 48") && strings.Contains(k, ".Str[(φint0 + 1):φint]") {
						zeroOK = true
					}
				}
			}
		}
	})
	c.check(zeroOK, "R3", "zero-pad", p.Pos(pf.Pos()), "pad byte '0' exactly when the width text starts with '0'", "the zero pad is not selected by `first byte of the width text == '0'`")

	widthLimit(c, "R4")
	widthRefusalExact(c, "R4")
	unbufferedOutput(c, "R5")
}

// widthRefusalExact (C18/R4 = C20/R3): the limit refuses a width beyond the limit and nothing else. There is
// one `width specifier too large` exit, and every edge into it carries a comparison of the parsed width
// with the limit constant; a second site or a further disjunct refuses widths the statement allows.
func widthRefusalExact(c *Ctx, rule string) {
	p := c.P
	_, pf, _ := printfFormatter(p)
	if pf == nil {
		c.undecided(rule, "width-refusal", "", "anchor not found")
		return
	}
	c.note("%s width-refusal-exact: printf has one exit with the message `width specifier too large`, and each edge into it is taken under n > 65536 or n < -65536 for the ParseInt result n: a width within the limit is never refused, whatever its spelling and whatever was formatted before it.", rule)
	sites := 0
	for _, ret := range returnsOf(pf) {
		res := effectiveResults(ret)
		if len(res) == 0 || !strings.Contains(p.RenderShort(res[len(res)-1]), "width specifier too large") {
			continue
		}
		sites++
		blk := ret.Block()
		for i, pred := range blk.Preds {
			desc, good := "unconditionally", false
			if ef, ok := edgeFact(pred, blk); ok {
				desc = "under " + boolFactText(p, ef)
				if rl, isRel := relsOf(ef); isRel {
					x, y, op := rl.x, rl.y, rl.op
					if _, isK := constInt(x); isK {
						x, y, op = y, x, flip(op)
					}
					xs := p.RenderShort(x)
					desc = "under " + xs + " " + op.String() + " " + p.RenderShort(y)
					if k, isK := constInt(y); isK && strings.HasPrefix(xs, "strconv.ParseInt(") && strings.HasSuffix(xs, "#0") {
						good = op == relGT && k == 65536 || op == relGE && k == 65537 || op == relLT && k == -65536 || op == relLE && k == -65537
					}
				}
			}
			c.check(good, rule, fmt.Sprintf("width-refused-only-beyond-the-limit site %d edge %d", sites, i+1), p.InstrPos(ret), "refused "+desc, "`width specifier too large` is returned "+desc+", which is not a comparison of the parsed width with the limit 65536: a width within the limit is refused")
		}
	}
	c.check(sites == 1, rule, "width-refusal-sites", p.Pos(pf.Pos()), "one `width specifier too large` exit", fmt.Sprintf("%d exits with `width specifier too large` (1 expected): the second one refuses by a test of its own", sites))
}

func guardsAtEdge(p *Program, F *Facts, from, to *ssa.BasicBlock) map[string]bool {
	g := map[string]bool{}
	for _, rl := range F.OnEdge(from, to).Rels() {
		g[p.RenderShort(rl.x)+" "+rl.op.String()+" "+p.RenderShort(rl.y)] = true
	}
	return g
}

// widthLimit (C18/R4 = C20/R3): the parsed width is tested against +-limit before it is used.
func widthLimit(c *Ctx, rule string) {
	p := c.P
	c.note("%s width-limit: the width variable is 0 or int(n) where n is the ParseInt result; on the edge that assigns int(n) the facts n <= 65536 and n >= -65536 hold (the limit test returned an error otherwise) and the ParseInt error was tested; the limit constant is 65536 as the statement says.", rule)
	pf := p.LangFunc("nativePrintf")
	if pf == nil {
		c.undecided(rule, "nativePrintf", "", "anchor not found")
		return
	}
	_, pf, _ = printfFormatter(p)
	F := FactsOf(pf)
	found := false
	allInstrs(pf, func(in ssa.Instruction) {
		phi, ok := in.(*ssa.Phi)
		if !ok || phi.Type().String() != "int" || loopCarried(phi) {
			return
		}
		// the width variable: merged from the constant 0 and the converted ParseInt result
		isWidth := false
		for _, e := range phi.Edges {
			if strings.HasPrefix(p.RenderShort(e), "int(strconv.ParseInt(") {
				isWidth = true
			}
		}
		if !isWidth {
			return
		}
		found = true
		for i, e := range phi.Edges {
			if k, ok := constInt(e); ok && k == 0 {
				continue
			}
			r := p.RenderShort(e)
			if !strings.HasPrefix(r, "int(strconv.ParseInt(") {
				c.violated(rule, "width-source", p.Pos(pf.Pos()), "the width is "+r+", not 0 or the parsed width")
				continue
			}
			n := strings.TrimSuffix(strings.TrimPrefix(r, "int("), ")")
			g := guardsAtEdge(p, F, phi.Block().Preds[i], phi.Block())
			var lims []string
			for k := range g {
				if strings.HasPrefix(k, n+" <= ") || strings.HasPrefix(k, n+" >= ") {
					lims = append(lims, strings.TrimPrefix(k, n+" "))
				}
			}
			sort.Strings(lims)
			c.check(strings.Join(lims, ",") == "<= 65536,>= -65536", rule, "width-bounded", p.Pos(pf.Pos()), "-65536 <= width <= 65536 where it is used", "the parsed width reaches the padding code with bounds {"+strings.Join(lims, ", ")+"}; the statement fixes the maximum at 65536 in either direction")
			errName := strings.TrimSuffix(n, "#0") + "#1"
			c.check(g[errName+" == nil"], rule, "width-parse-error", p.Pos(pf.Pos()), "the ParseInt error is tested before the width is used", "the parsed width is used without testing ParseInt's error")
		}
	})
	if !found {
		c.undecided(rule, "width-variable", p.Pos(pf.Pos()), "no width variable merged from 0 and the parsed width was found")
	}
}

// argumentCheckExact: the argument check every directive rests on. It hands back the argument itself
// exactly when the argument exists and has the requested kind, and it changes nothing: a check that
// first rewrites an argument of another kind (an unset variable, say) into the requested one makes
// the wrong kind pass.
func argumentCheckExact(c *Ctx, rule string) {
	p := c.P
	c.note("%s argument-check-exact: checkArg(args, i, tag) returns args[i] — and only under len(args)-1 >= i and args[i].Tag == tag — and stores nothing (it does not coerce the argument into the requested kind).", rule)
	ca := p.LangFunc("checkArg")
	if ca == nil {
		c.undecided(rule, "checkArg", "", "anchor not found")
		return
	}
	c.checkArm(rule, "checkArg", ca, armSpec{
		Results: []string{"args[index]"}, Effects: []string{},
		Guards: map[string][]string{"args[index]": {"args[index].Tag == tag"}},
		Source: "an argument of the wrong kind is a runtime error"})
}

// printfFormatter: where printf's format scanning lives — nativePrintf itself, or the one helper of
// its own (called from nowhere else) that returns the text and an error and whose text nativePrintf
// prints (`s, err := formatPrintf(args); if err != nil { return nil, err }; e.print(s)`).
func printfFormatter(p *Program) (outer, inner *ssa.Function, call *ssa.Call) {
	outer = p.LangFunc("nativePrintf")
	if outer == nil {
		return nil, nil, nil
	}
	inner = outer
	for _, cs := range callsIn(outer) {
		cv, ok := cs.(*ssa.Call)
		if !ok {
			continue
		}
		h := cv.Call.StaticCallee()
		if h == nil || !p.InLang(h) || h == outer || len(h.Blocks) == 0 || !isPrivateTo(p, h, outer) {
			continue
		}
		res := h.Signature.Results()
		if res.Len() != 2 || !isErrorType(res.At(1).Type()) {
			continue
		}
		if b, ok := res.At(0).Type().Underlying().(*types.Basic); !ok || b.Kind() != types.String {
			continue
		}
		// the scanner: it is the one that builds the text
		builds := false
		for _, hc := range callsIn(h) {
			if f := hc.Common().StaticCallee(); f != nil && strings.HasPrefix(f.String(), "(*strings.Builder).") {
				builds = true
			}
		}
		if builds {
			inner, call = h, cv
		}
	}
	return outer, inner, call
}

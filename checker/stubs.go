package main

func c11R3(c *Ctx, rule string) {}
func c11R5(c *Ctx, rule string) {}
func c11R6(c *Ctx, rule string) {}

package main

// path-sensitive nil-ness exploration for a handful of SSA values: every path from a starting
// instruction is followed; the state records for each tracked value whether it is known nil,
// known non-nil or unknown on that path (from the branch conditions passed). Infeasible edges
// (contradicting the state) are pruned. Values that flow into a phi carry their state to the phi.

import (
	"sort"
	"strings"

	"golang.org/x/tools/go/ssa"
)

const (
	nsUnknown int8 = 0
	nsNil     int8 = 1
	nsNonNil  int8 = 2
)

type nilState struct {
	vals   []ssa.Value
	status []int8
	roles  []string // what the value stands for ("P", "err", ...); phis inherit the role
}

func newNilState(pairs ...interface{}) nilState {
	var s nilState
	for i := 0; i+1 < len(pairs); i += 2 {
		s.vals = append(s.vals, pairs[i].(ssa.Value))
		s.status = append(s.status, nsUnknown)
		s.roles = append(s.roles, pairs[i+1].(string))
	}
	return s
}

func (s nilState) role(v ssa.Value) string {
	for i, x := range s.vals {
		if x == v {
			return s.roles[i]
		}
	}
	return ""
}

// statusOfRole: the status of the most specific value with that role that is live; callers pass
// the value they look at, this is for roles where only one value exists.
func (s nilState) byRole(role string) []ssa.Value {
	var out []ssa.Value
	for i, x := range s.vals {
		if s.roles[i] == role {
			out = append(out, x)
		}
	}
	return out
}

func (s nilState) get(v ssa.Value) (int8, bool) {
	for i, x := range s.vals {
		if x == v {
			return s.status[i], true
		}
	}
	return nsUnknown, false
}

func (s nilState) with(v ssa.Value, st int8) nilState {
	return s.withRole(v, st, "")
}

func (s nilState) withRole(v ssa.Value, st int8, role string) nilState {
	n := nilState{append([]ssa.Value{}, s.vals...), append([]int8{}, s.status...), append([]string{}, s.roles...)}
	for i, x := range n.vals {
		if x == v {
			n.status[i] = st
			if role != "" {
				n.roles[i] = role
			}
			return n
		}
	}
	n.vals = append(n.vals, v)
	n.status = append(n.status, st)
	n.roles = append(n.roles, role)
	return n
}

func (s nilState) key() string {
	parts := make([]string, len(s.vals))
	for i, v := range s.vals {
		parts[i] = v.Name() + "=" + string('0'+byte(s.status[i]))
	}
	sort.Strings(parts)
	return strings.Join(parts, ",")
}

// aliasesOf returns the tracked values that are v or phis v flowed into (same status entry names).
type pathVisitor func(in ssa.Instruction, s nilState) (stop bool)

// explorePaths walks all paths starting after instruction `from` with initial state s0.
// alias maps a phi to the originally tracked value it stands for on the current path.
func explorePaths(from ssa.Instruction, s0 nilState, visit pathVisitor) {
	type item struct {
		b     *ssa.BasicBlock
		start int
		s     nilState
	}
	seen := map[string]bool{}
	work := []item{{from.Block(), instrIndex(from) + 1, s0}}
	for len(work) > 0 {
		it := work[len(work)-1]
		work = work[:len(work)-1]
		k := it.b.String() + "@" + string(rune('0'+it.start%10)) + "|" + it.s.key()
		if it.start == 0 {
			k = it.b.String() + "|" + it.s.key()
		}
		if seen[k] {
			continue
		}
		seen[k] = true
		stopped := false
		for i := it.start; i < len(it.b.Instrs); i++ {
			if visit(it.b.Instrs[i], it.s) {
				stopped = true
				break
			}
		}
		if stopped {
			continue
		}
		for _, succ := range it.b.Succs {
			ns := it.s
			feasible := true
			if ef, ok := edgeFact(it.b, succ); ok {
				if r, ok := relsOf(ef); ok && (r.op == relEQ || r.op == relNE) {
					var subj ssa.Value
					if isNilConst(r.y) {
						subj = r.x
					} else if isNilConst(r.x) {
						subj = r.y
					}
					if subj != nil {
						if cur, tracked := ns.get(subj); tracked {
							want := nsNil
							if r.op == relNE {
								want = nsNonNil
							}
							if cur != nsUnknown && cur != want {
								feasible = false
							} else {
								ns = ns.with(subj, want)
							}
						}
					}
				}
			}
			if !feasible {
				continue
			}
			// phi renaming
			for _, in := range succ.Instrs {
				phi, ok := in.(*ssa.Phi)
				if !ok {
					break
				}
				for pi, pe := range phi.Edges {
					if succ.Preds[pi] != it.b {
						continue
					}
					if st, tracked := ns.get(pe); tracked {
						ns = ns.withRole(phi, st, ns.role(pe))
					} else if isNilConst(pe) {
						if _, tr := ns.get(phi); tr {
							ns = ns.with(phi, nsNil)
						}
					} else if _, tr := ns.get(phi); tr {
						ns = ns.with(phi, nsUnknown)
					}
				}
			}
			work = append(work, item{succ, 0, ns})
		}
	}
}

package main

import (
	"fmt"
	"os"
	"path/filepath"
	"strings"

	"golang.org/x/tools/go/ssa"
)

func init() {
	register(&ruleSet{
		id:    "C03",
		title: "input is a JSON value stream: incremental, faults reported",
		run:   runC03,
		decided: "the decoder protocol: no call to (*json.Decoder).More at top level (it answers false for a stray ']' / '}' and for a failed read alike, so a `for d.More()` loop cannot tell end of input from a fault); the decode loop is left only by a return or on the edge where Decode's error is io.EOF; any other Decode error returns a JsonError carrying the decoder's message and the name of the file being read, before any rule is evaluated on the partial value; each value is processed completely (BEGINFILE, pattern, ENDFILE rules) inside the loop before the next Decode, and the list of roots is created per value; the decoder reads from the caller's reader itself and the CLI passes the opened file / os.Stdin itself; output is written unbuffered as statements execute." +
			" No successful return of EvalProgram precedes the file loop except on `exit`." +
			" The decoder is used through Decode alone; every decoded value goes through the root selection.",
		notDecided: "chunking independence and `at most one following byte`: properties of encoding/json's streaming Decoder (trusted).",
	})
}

func jsonMoreHits(p *Program, fns []*ssa.Function) []string {
	var hits []string
	for _, fn := range fns {
		for _, call := range callsIn(fn) {
			if f := call.Common().StaticCallee(); f != nil && f.String() == "(*encoding/json.Decoder).More" {
				hits = append(hits, shortName(fn)+" at "+p.InstrPos(call))
			}
		}
	}
	return hits
}

func runC03(c *Ctx) {
	p := c.P
	c.note("R1 decoder-protocol: (i) zero calls to (*json.Decoder).More in lang+cli (positive example: checker/testdata/jsonmore); (ii) loop exits; (iii) error wrapping; (iv) nothing is evaluated between a failed Decode and the return.")
	var fns []*ssa.Function
	for _, f := range p.Funcs {
		if p.InLang(f) || p.InCli(f) {
			fns = append(fns, f)
		}
	}
	// the decoder is used through Decode alone: every other method changes what is accepted or how it
	// is read (UseNumber, DisallowUnknownFields) or looks ahead in the stream (More, Token, Buffered,
	// InputOffset)
	for _, fn := range fns {
		for _, call := range callsIn(fn) {
			g := call.Common().StaticCallee()
			if g == nil || !strings.HasPrefix(g.String(), "(*encoding/json.Decoder).") {
				continue
			}
			m := strings.TrimPrefix(g.String(), "(*encoding/json.Decoder).")
			if m != "Decode" && m != "More" {
				c.violated("R1", "decoder-method "+m+" in "+shortName(fn), p.InstrPos(call), "the JSON decoder is configured or inspected through "+m+": the values the rules see (or where a value is taken to end) are no longer those of a plain Decode of the input bytes")
			}
		}
	}
	hits := jsonMoreHits(p, fns)
	if len(hits) == 0 {
		c.ok("R1", "no-Decoder.More", "", fmt.Sprintf("no call in %d functions", len(fns)))
	} else {
		for _, h := range hits {
			c.violated("R1", "Decoder.More in "+strings.SplitN(h, " at ", 2)[0], strings.SplitN(h, " at ", 2)[1], "(*json.Decoder).More is used to drive the value loop: at top level it returns false for a stray ']' or '}' and when the reader fails, so malformed or unreadable input is silently treated as end of input (exit status 0)")
		}
	}
	dir := filepath.Join(verifDir(), "checker", "testdata", "jsonmore")
	if _, err := os.Stat(dir); err != nil {
		c.undecided("R1", "positive-example", "", "checker/testdata/jsonmore is missing")
	} else if tp, err := LoadDir(dir); err != nil {
		c.undecided("R1", "positive-example", "", "positive example does not load: "+err.Error())
	} else {
		th := jsonMoreHits(tp, tp.Funcs)
		c.check(len(th) >= 1, "R1", "positive-example", "checker/testdata/jsonmore", "the matcher fires on the positive example", "the matcher does not fire on the positive example: the zero-count rule is blind")
	}
	ep := p.DriverFunc()
	if ep == nil {
		c.undecided("R1", "EvalProgram", "", "anchor not found")
		return
	}
	var dec, newDec *ssa.Call
	for _, call := range callsIn(ep) {
		cv, ok := call.(*ssa.Call)
		if !ok {
			continue
		}
		if f := cv.Call.StaticCallee(); f != nil {
			switch f.String() {
			case "(*encoding/json.Decoder).Decode":
				dec = cv
			case "encoding/json.NewDecoder":
				newDec = cv
			}
		}
	}
	if dec == nil || newDec == nil {
		c.violated("R1", "decoder", p.Pos(ep.Pos()), "EvalProgram does not create a json.Decoder and Decode from it")
		return
	}
	c.check(p.Render(newDec.Call.Args[0]) == "files[i@files].Reader", "R3", "decoder-reads-callers-reader", p.InstrPos(newDec), "json.NewDecoder(file.Reader): the caller's reader itself", "the decoder reads from "+p.Render(newDec.Call.Args[0])+", not from the input file's reader itself (a wrapper may read ahead or swallow errors)")
	c.check(p.Render(dec.Call.Args[0]) == "json.NewDecoder(files[i@files].Reader)" || strings.HasSuffix(p.Render(dec.Call.Args[0]), "NewDecoder(files[i@files].Reader)"), "R1", "one-decoder-per-file", p.InstrPos(dec), "Decode on the decoder of the current file", "Decode is called on "+p.Render(dec.Call.Args[0]))
	F := FactsOf(ep)
	// (ii) loop exits: blocks of the decode loop = blocks that can reach dec again
	loopBlocks := map[*ssa.BasicBlock]bool{}
	for _, b := range ep.Blocks {
		if reachableFrom([]*ssa.BasicBlock{b}, nil)[dec.Block()] && reachableFrom(dec.Block().Succs, nil)[b] {
			loopBlocks[b] = true
		}
	}
	loopBlocks[dec.Block()] = true
	// inner loop = the smallest cycle through dec not leaving the files loop body: exits to blocks
	// that cannot reach dec without going through the files loop header again
	var filesLoop *rangeLoop
	for _, l := range rangeLoops(ep, func(v ssa.Value) bool { prm, ok := v.(*ssa.Parameter); return ok && prm.Name() == "files" }) {
		l := l
		filesLoop = &l
	}
	if filesLoop == nil {
		c.undecided("R1", "files-loop", p.Pos(ep.Pos()), "no loop over the files parameter")
		return
	}
	// the value loop: blocks after the call from which the call is reached again without going
	// through the files loop's header
	inner := map[*ssa.BasicBlock]bool{}
	for b := range reachableFrom(dec.Block().Succs, map[*ssa.BasicBlock]bool{filesLoop.Header: true}) {
		if b != filesLoop.Header && reachableFrom([]*ssa.BasicBlock{b}, map[*ssa.BasicBlock]bool{filesLoop.Header: true})[dec.Block()] {
			inner[b] = true
		}
	}
	inner[dec.Block()] = true
	// the ways from the Decode call on to the next file (or past the last one): every edge into the
	// header of the files loop from a block reached after the call
	after := reachableFrom(dec.Block().Succs, map[*ssa.BasicBlock]bool{filesLoop.Header: true})
	after[dec.Block()] = true
	nExit := 0
	for b := range after {
		if b == filesLoop.Header {
			continue
		}
		for _, s := range b.Succs {
			if s != filesLoop.Header {
				continue
			}
			nExit++
			eof := false
			for _, g := range []factSet{F.OnEdge(b, s), F.At(b)} {
				for _, rl := range g.Rels() {
					if rl.op == relEQ && rl.x == ssa.Value(dec) && p.Render(rl.y) == "EOF" {
						eof = true
					}
				}
			}
			c.check(eof, "R1", fmt.Sprintf("decode-loop-exit #%d", nExit), p.InstrPos(b.Instrs[len(b.Instrs)-1]), "the value loop ends only when Decode returned io.EOF", "the value loop of a file can be left (to the next file / END rules) on an edge where Decode's error is not known to be io.EOF: a fault is treated as end of input")
		}
	}
	if nExit == 0 {
		c.undecided("R1", "decode-loop-exit", p.InstrPos(dec), "the value loop has no non-return exit: end of input would never be reached")
	}
	decodeErrorWrapped(c, "R1")
	// (iv) on the error edge nothing is evaluated
	for _, r := range returnsOf(ep) {
		if !F.At(r.Block()).KnownNonNil(dec) {
			continue
		}
		bad := false
		for _, call := range callsIn(ep) {
			if F.At(call.Block()).KnownNonNil(dec) && !F.At(call.Block()).EqGlobal(dec, nil) {
				n := calleeName(call.Common())
				if strings.Contains(n, "eval") || strings.Contains(n, "Eval") {
					bad = true
				}
			}
		}
		c.check(!bad, "R1", "no-rule-on-partial-value", p.InstrPos(r), "no rule or selector is evaluated after a failed Decode", "an evaluation call is reachable with a failed Decode")
	}
	c.shared("R7", "C04/R15", "a stream of values is processed like its values one after another: every object and array read from the input is built from storage of its own (no map or cell shared between values, through which a member written for one value shows up in a later one)", keyHas("value-construction"), func(s *Ctx) { newValueTable(s, "R15") })
	c.shared("R6", "C02/R4", "each complete value is fully processed: the pattern rules run once for every root that is not an array (a top-level null, number or string included) and once per element of an array root", keyHas("other-root-once", "array-root-per-element"), c02R4)
	c.shared("R5", "C02/R2", "a fault in the input is reported only if the input is read: no successful return of EvalProgram precedes the file loop (other than on `exit`)", keyHas("success-return"), c02R2)
	// R2 process-in-loop
	c.note("R2 process-in-loop: every rule-evaluating call that follows the Decode (BEGINFILE / pattern / ENDFILE / selectors) is inside the value loop, so a value is fully processed before the next Decode; the list of roots is created per value (no accumulation across values).")
	k := 0
	for _, call := range callsIn(ep) {
		n := calleeName(call.Common())
		if !(strings.HasSuffix(n, ").evalStatement") || strings.HasSuffix(n, ").evalPatternRules") || n == "lang.EvalExpression") {
			continue
		}
		if !dec.Block().Dominates(call.Block()) {
			continue // BEGIN / END drivers
		}
		if !filesLoop.Body.Dominates(call.Block()) {
			continue
		}
		k++
		c.check(inner[call.Block()], "R2", fmt.Sprintf("processed-before-next-decode #%d %s", k, n), p.InstrPos(call), "inside the value loop", "this evaluation happens outside the value loop: values would be collected first and processed later")
	}
	if k < 4 {
		c.undecided("R2", "instance-floor", "", fmt.Sprintf("%d per-value evaluation calls found, 4 confirmed by hand", k))
	}
	rootsPerValue(c, "R2")
	// R3: CLI passes the reader itself
	c.note("R3 reader-passthrough: see C14/R2 input-files (InputFile.Reader is the *os.File returned by os.Open or os.Stdin; no bufio / ReadAll in cli).")
	c14R2(c)
	unbufferedOutput(c, "R4")
}

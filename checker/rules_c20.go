package main

import (
	"fmt"
	"go/token"
	"strings"

	"golang.org/x/tools/go/ssa"
)

func init() {
	register(&ruleSet{
		id:    "C20",
		title: "unbounded single steps are refused with an error",
		run:   runC20,
		decided: "each named limit exists, sits before the unbounded step on every path, has the stated magnitude and yields an ordinary error: the call-depth test (new depth = parent depth + 1, compared with a never-written constant between 1001 and 65536) precedes the push in the only function that pushes frames, and every user call and match body goes through it, its error wrapped as a runtime error; the array fill is preceded by `resolved index > limit -> error` on the index itself (limit between 1,000,000 and 2^21); the printf width is bounded by 65536 in both directions before it is used; a decoder failure (including its nesting limit) becomes a JSON error; no other allocation in the interpreter has a size that is not the length of an existing value or a constant." +
			" Frames are balanced, so only nested calls count towards the limit; the value the fill limit is applied to is the resolved index the fill loop runs to." +
			" ++ and -- return the assignment's error." +
			" No call changes the Go runtime's resource ceilings.",
		notDecided: "that everything below the limits fits in memory / stack (resource behaviour); the decoder's own nesting limit (encoding/json, cited).",
	})
}

// noRuntimeLimits: the documented limits are the only ones. The interpreter's own limit of 4096
// nested calls is sized for Go's default stack; lowering the runtime's ceilings turns recursion that
// the call limit would have reported into a fatal runtime error.
func noRuntimeLimits(c *Ctx, rule string) {
	p := c.P
	c.note("%s no-runtime-limits: no function of the module changes the Go runtime's resource ceilings (runtime/debug.SetMaxStack, SetMaxThreads, SetMemoryLimit, SetGCPercent; runtime.GOMAXPROCS): with a smaller stack the evaluator's recursion reaches `fatal error: stack overflow` before its own call-depth limit is reported.", rule)
	forbidden := map[string]bool{"runtime/debug.SetMaxStack": true, "runtime/debug.SetMaxThreads": true, "runtime/debug.SetMemoryLimit": true, "runtime/debug.SetGCPercent": true, "runtime.GOMAXPROCS": true}
	n := 0
	for _, fn := range p.Funcs {
		if !p.InModule(fn) || p.inTestFile(fn) {
			continue
		}
		for _, call := range callsIn(fn) {
			if g := call.Common().StaticCallee(); g != nil && forbidden[g.String()] {
				n++
				c.violated(rule, "runtime-limit "+g.String()+" in "+shortName(fn), p.InstrPos(call), g.String()+" changes a ceiling of the Go runtime: deep but legal recursion (or large but legal values) then ends in a fatal runtime error instead of the documented runtime error")
			}
		}
	}
	if n == 0 {
		c.ok(rule, "runtime-limits", "", "no call that changes the Go runtime's ceilings")
	}
}

func runC20(c *Ctx) {
	noRuntimeLimits(c, "R10")
	recursionBetweenFrames(c, "R13")
	defer c.shared("R14", "C07/R9", "everything up to a limit works normally: the loop-iteration cap exists for the fuzzer only — in an ordinary run no loop (a for-in over a million elements included) is cut short by it", keyHas("loop-limit"), func(s *Ctx) { fuzzLimitGuarded(s, "R9") })
	defer c.shared("R15", "C12/R1", "hitting a limit yields an ordinary error whatever the shape of the recursion: building the error does nothing but look up line and column", keyHas("funnel "), runC12)
	defer c.shared("R11", "C18/R1", "hitting a limit keeps the output written before it: printf writes its text at once with a single write (it is not held back in the evaluator until a newline or the end of the run)", keyHas("single-write"), runC18)
	defer c.shared("R12", "C10/R6", "hitting a limit keeps the output written before it: no output is parked in evaluator state", keyHas("evaluator-state", "interpreter-state"), func(s *Ctx) { interpreterState(s, "R6") })
	defer c.shared("R9", "C04/R3", "everything up to the decoder's nesting limit works: the renderer and the JSON converter give the cycle verdict only when the path scan finds the value among its ancestors, never because of its depth", keyHas("cycle-verdict"), func(s *Ctx) {
		cycleGuard(s, "R3", "(*Value).toGoValueInterval")
		cycleGuard(s, "R3", "(*Value).prettyStringInteral")
	})
	defer func() {
		if eu := c.P.LangFunc("(*Evaluator).evalUnaryExpr"); eu != nil {
			c.shared("R8", "C09/R5", "the fill-limit error reaches the user from every assignment form: ++ and -- go through evalAssignment and return its error", func(o Obligation) bool { return !strings.HasSuffix(o.Key, "-result") }, func(s *Ctx) { incdecTable(s, "R5", eu) })
		}
	}()
	defer func() {
		c.shared("R6", "C08/R1", "only genuinely nested calls count towards the limit, and everything up to the limit works: every push of a frame is matched by a pop on every continuing path (a leaked frame turns a long loop of calls into a spurious `stack overflow`)", keyHas("balance ", "primitive"), func(s *Ctx) { c08R1(s, discoverFrameModel(s.P)) })
		c.shared("R7", "C15/R4", "the array-size limit is applied to the index actually used: the resolved index is the integer conversion of the number (or len+index), so the test against the maximum sees the same value the fill loop runs to", keyHas("resolve-", "fill-loop-bound"), func(s *Ctx) { indexResolution(s, "R4") })
	}()
	p := c.P
	m := discoverFrameModel(p)
	c.note("R1 call-depth-limit: the depth test of the push primitive (C08/R3) + the limit variable's initialiser is a constant in [1001, 65536] and the variable is never stored afterwards + the push primitive is the only function that installs a frame (who-stores Evaluator.stackTop) + in callFunction's user-function arm and in the match arm the push call dominates every evaluation of the body + the error of the push is wrapped by Evaluator.error at both sites.")
	c08R3(c, m, "R1")
	for _, pr := range m.problems {
		c.violated("R1", "frame-model", "", pr+": a frame installed without the push primitive is not counted towards the call depth, so recursion through that construct is unbounded")
	}
	for f := range m.storers {
		if f != m.push && f != m.pop {
			c.violated("R1", "frame-installed-outside-push "+shortName(f), p.Pos(f.Pos()), "stores Evaluator.stackTop directly: the depth accounting and the limit test of the push primitive are bypassed")
		}
	}
	if lim := limitGlobal(p, "callDepthLimit"); lim == nil {
		c.undecided("R1", "limit-constant", "", "callDepthLimit not found")
	} else {
		v, n := globalInit(p, lim)
		k, ok := constInt(v)
		c.check(ok && n == 1, "R1", "limit-write-once", p.Pos(lim.Pos()), fmt.Sprintf("initialised to %d, never written again", k), fmt.Sprintf("callDepthLimit is stored %d times (constant initialiser: %v)", n, ok))
		c.check(ok && k >= 1001 && k <= 65536, "R1", "limit-magnitude", p.Pos(lim.Pos()), fmt.Sprintf("%d frames: `a few thousand`, a thousand deep works", k), fmt.Sprintf("the call depth limit is %d; the statement requires a fixed limit of a few thousand frames (recursion a thousand deep must work, runaway recursion must end in an error well before Go's stack is exhausted)", k))
	}
	// every body evaluation is dominated by a push
	if m.push != nil {
		type site struct{ fn, arg string }
		for _, w := range []site{{"(*Evaluator).callFunction", "ExprFunction.Body"}, {"(*Evaluator).evalExpr", "MatchCase.Body"}, {"(*Evaluator).evalExpr", "StatementExpr.Expr"}} {
			fn := p.LangFunc(w.fn)
			if fn == nil {
				c.undecided("R1", "push-before-body "+w.fn, "", "anchor not found")
				continue
			}
			found := 0
			for _, call := range callsIn(fn) {
				if !(staticCalleeIs(call, "(*lang.Evaluator).evalStatement") || staticCalleeIs(call, "(*lang.Evaluator).evalExpr")) {
					continue
				}
				d := argDesc(call)
				if d != w.arg {
					// the match arm evaluates `body` after a type switch on matchCase.Body: accept the type-switch binding
					if !(w.arg == "MatchCase.Body" && strings.Contains(c.P.Render(call.Common().Args[1]), "MatchCase") || w.arg == "MatchCase.Body" && strings.Contains(c.P.Render(call.Common().Args[1]), ".Cases[")) {
						continue
					}
				}
				found++
				dom := false
				var pushCall ssa.CallInstruction
				for _, pc := range callsIn(fn) {
					if pc.Common().StaticCallee() == m.push && dominatesInstr(pc, call) {
						dom = true
						pushCall = pc
					}
				}
				key := fmt.Sprintf("push-before-body %s %s #%d", w.fn, w.arg, found)
				c.check(dom, "R1", key, p.InstrPos(call), "a push (with its depth test) dominates the evaluation of the body", "the body is evaluated without a preceding push: this nesting does not count towards the call depth limit")
				if dom {
					// push succeeded on this path
					pv := pushCall.Value()
					c.check(FactsOf(fn).At(call.Block()).KnownNil(pv), "R1", key+" pushed", p.InstrPos(call), "the push is known to have succeeded", "the body is evaluated although the push may have failed")
				}
			}
			if found == 0 && w.arg != "StatementExpr.Expr" {
				c.undecided("R1", "push-before-body "+w.fn+" "+w.arg, p.Pos(fn.Pos()), "no body evaluation site found")
			}
		}
		// the push's error is wrapped as a runtime error
		for _, cs := range p.CallSitesOf(m.push) {
			fn := cs.Parent()
			if shortName(fn) == "lang.NewEvaluator" {
				continue
			}
			pv := cs.Value()
			wrapped := false
			for _, r := range returnsOf(fn) {
				if !FactsOf(fn).At(r.Block()).KnownNonNil(pv) {
					continue
				}
				e := p.Render(effectiveResults(r)[errResultIndex(fn.Signature)])
				if (strings.HasPrefix(e, "lang.RuntimeError{Message: ") || strings.HasPrefix(e, "(*lang.Evaluator).error(")) && strings.Contains(e, "(*lang.Evaluator).pushFrame(") {
					wrapped = true
				}
			}
			c.check(wrapped, "R1", "limit-error-wrapped in "+shortName(fn), p.InstrPos(cs), "depth-limit error -> RuntimeError at the call's position", "the push primitive's error is not wrapped by Evaluator.error on its failure edge")
		}
	}

	// R2 fill limit
	c.note("R2 fill-limit: in the array write accessor, `resolved index > C` with C in [1,000,000, 2^21] returns an error, and that test dominates the fill loop; the value compared is the resolved index itself (a bound on the increment would let the array grow past the limit step by step); the negative-index error precedes it (C15/R4).")
	sm := p.LangFunc("(*Value).SetMember")
	if sm == nil {
		c.undecided("R2", "SetMember", "", "anchor not found")
	} else {
		var limIf *ssa.If
		var limK int64
		cmpText := ""
		allInstrs(sm, func(in ssa.Instruction) {
			ifi, ok := in.(*ssa.If)
			if !ok {
				return
			}
			b, ok := ifi.Cond.(*ssa.BinOp)
			if !ok || (b.Op != token.GTR && b.Op != token.GEQ) {
				return
			}
			k, ok := constInt(b.Y)
			if !ok || k < 1000 {
				return
			}
			limIf, limK, cmpText = ifi, k, p.Render(b.X)
		})
		if limIf == nil {
			c.violated("R2", "fill-limit-test", p.Pos(sm.Pos()), "no `index > limit` test found in the array write accessor: an assignment to a huge index allocates without bound")
		} else {
			c.check(cmpText == "(*lang.Value).resolveIndex(v, member)#0", "R2", "fill-limit-subject", p.InstrPos(limIf), "the resolved index itself is bounded", "the limit test bounds "+cmpText+", not the resolved index: the array can still be extended beyond the limit (e.g. in several steps)")
			c.check(limK >= 1000000 && limK <= 1<<21, "R2", "fill-limit-magnitude", p.InstrPos(limIf), fmt.Sprintf("limit %d: about a million", limK), fmt.Sprintf("the fill limit is %d; the statement says about a million (an array of a million elements must work)", limK))
			// true edge returns an error; the fill append is dominated by the false edge
			ek := EKOf(p)
			errOK := true
			for b := range reachableFrom([]*ssa.BasicBlock{limIf.Block().Succs[0]}, map[*ssa.BasicBlock]bool{limIf.Block().Succs[1]: true}) {
				if b == limIf.Block().Succs[1] {
					continue
				}
				if r, ok := b.Instrs[len(b.Instrs)-1].(*ssa.Return); ok {
					if ek.KindsAt(effectiveResults(r)[1], FactsOf(sm).At(b)).Has(KNil) {
						errOK = false
					}
				}
			}
			c.check(errOK, "R2", "fill-limit-error", p.InstrPos(limIf), "exceeding the limit returns an error", "the limit-exceeded edge can return success")
			domOK := false
			for _, st := range storesToField(sm, "Value", "Array", false) {
				domOK = limIf.Block().Dominates(st.Block()) && !reachableFrom([]*ssa.BasicBlock{limIf.Block().Succs[0]}, nil)[st.Block()]
			}
			c.check(domOK, "R2", "fill-limit-before-fill", p.InstrPos(limIf), "the limit test precedes every extension of the array", "the array can be extended on a path that does not pass the limit test, or after the limit was exceeded")
		}
	}
	widthLimit(c, "R3")
	widthRefusalExact(c, "R3")

	// R4 decoder errors (shared with C03/R1)
	c.note("R4 decoder-limit: the error of (*json.Decoder).Decode — which includes encoding/json's `exceeded max depth` — is returned as a JsonError naming the file (= C03/R1).")
	decodeErrorWrapped(c, "R4")

	// R5 other allocations
	c.note("R5 no-other-unbounded-allocation: every make([]T, n) / make([]T, 0, n) in package lang has n constant or the length of an existing value; every strings.Repeat / bytes.Repeat count is bounded by the width limit (R3).")
	n := 0
	for _, fn := range p.Funcs {
		if !p.InLang(fn) {
			continue
		}
		allInstrs(fn, func(in ssa.Instruction) {
			ms, ok := in.(*ssa.MakeSlice)
			if !ok {
				return
			}
			for _, sz := range []ssa.Value{ms.Len, ms.Cap} {
				if _, isC := sz.(*ssa.Const); isC {
					continue
				}
				n++
				r := p.Render(sz)
				c.check(strings.HasPrefix(r, "len("), "R5", fmt.Sprintf("make-size #%d in %s", n, shortName(fn)), p.InstrPos(ms), "size = "+r, "allocation size "+r+" is neither a constant nor the length of an existing value")
			}
		})
		for _, call := range callsIn(fn) {
			if f := call.Common().StaticCallee(); f != nil && (f.String() == "strings.Repeat" || f.String() == "bytes.Repeat") {
				_, fmtFn, _ := printfFormatter(p)
				c.check(shortName(fn) == "lang.nativePrintf" || fn == fmtFn, "R5", "repeat in "+shortName(fn), p.InstrPos(call), "bounded by the printf width limit", "a Repeat outside printf has no limit test")
			}
		}
	}
	if n < 4 {
		c.undecided("R5", "instance-floor", "", fmt.Sprintf("%d non-constant allocation sizes found, 5 confirmed by hand", n))
	}
}

// decodeErrorWrapped (C03/R1 iii, C20/R4): on the non-nil, non-EOF edge of Decode's error the
// function returns a JsonError built from the error's text and the ranged file's Name.
func decodeErrorWrapped(c *Ctx, rule string) {
	p := c.P
	ep := p.DriverFunc()
	if ep == nil {
		c.undecided(rule, "EvalProgram", "", "anchor not found")
		return
	}
	var dec *ssa.Call
	for _, call := range callsIn(ep) {
		if f := call.Common().StaticCallee(); f != nil && f.String() == "(*encoding/json.Decoder).Decode" {
			dec, _ = call.(*ssa.Call)
		}
	}
	if dec == nil {
		c.violated(rule, "decode-call", p.Pos(ep.Pos()), "EvalProgram does not call (*json.Decoder).Decode")
		return
	}
	found := false
	for _, r := range returnsOf(ep) {
		if !FactsOf(ep).At(r.Block()).KnownNonNil(dec) {
			continue
		}
		res := effectiveResults(r)
		e := p.Render(res[len(res)-1])
		found = true
		want := "lang.JsonError{Message: " + p.Render(dec) + ".Error(), FileName: files[i@files].Name}"
		c.check(e == want, rule, "decode-error-is-JsonError", p.InstrPos(r), "JsonError{err.Error(), file.Name}", "a decoder failure is returned as "+e+"; expected a JsonError carrying the decoder's message and the name of the file being read")
	}
	if !found {
		c.violated(rule, "decode-error-is-JsonError", p.InstrPos(dec), "no return on the `Decode error != nil` edge")
	}
}

// recursionBetweenFrames: the call-depth limit bounds the Go stack only if the interpreter's own
// recursion between two frame pushes is bounded too. The evaluator recurses on the syntax tree
// (evalExpr -> evalBinaryExpr -> evalExpr …): with the calls that follow a frame push (and its depth
// test) taken out of the static call graph, a cycle through evalExpr that remains is recursion whose
// depth is the nesting depth of the program text, multiplied by up to callDepthLimit live calls.
func recursionBetweenFrames(c *Ctx, rule string) {
	p := c.P
	c.note("%s recursion-between-frames: in the static call graph of package lang, with every call that is dominated by a frame push in its function removed, no cycle passes through the expression evaluator — otherwise the Go stack used per jqawk call grows with the nesting depth of the program text and the call-depth limit does not bound it.", rule)
	m := discoverFrameModel(p)
	ee := p.LangFunc("(*Evaluator).evalExpr")
	if m.push == nil || ee == nil {
		c.undecided(rule, "recursion-between-frames", "", "push primitive or evalExpr not found")
		return
	}
	succ := map[*ssa.Function]map[*ssa.Function]bool{}
	for _, fn := range p.Funcs {
		if !p.InLang(fn) || p.inTestFile(fn) {
			continue
		}
		var pushes []ssa.CallInstruction
		for _, call := range callsIn(fn) {
			if call.Common().StaticCallee() == m.push {
				pushes = append(pushes, call)
			}
		}
		for _, call := range callsIn(fn) {
			g := call.Common().StaticCallee()
			if g == nil || !p.InLang(g) || g == m.push {
				continue
			}
			guarded := false
			for _, ps := range pushes {
				if dominatesInstr(ps, call) {
					guarded = true
				}
			}
			if guarded {
				continue
			}
			if succ[fn] == nil {
				succ[fn] = map[*ssa.Function]bool{}
			}
			succ[fn][g] = true
		}
	}
	// is evalExpr on a cycle of the remaining graph?
	reach := map[*ssa.Function]bool{}
	var stack []*ssa.Function
	for g := range succ[ee] {
		stack = append(stack, g)
	}
	for len(stack) > 0 {
		f := stack[len(stack)-1]
		stack = stack[:len(stack)-1]
		if reach[f] {
			continue
		}
		reach[f] = true
		for g := range succ[f] {
			stack = append(stack, g)
		}
	}
	if reach[ee] {
		c.violated(rule, "recursion-between-frames evalExpr", p.Pos(ee.Pos()), "the expression evaluator recurses on the syntax tree without a depth test between frame pushes: the Go stack one jqawk call uses grows with the nesting of its expressions, so a few thousand live calls of a function whose recursive call sits a few hundred parentheses deep exhaust the Go stack (fatal error, not the call-depth error)")
	} else {
		c.ok(rule, "recursion-between-frames evalExpr", p.Pos(ee.Pos()), "no unguarded cycle through evalExpr")
	}
}

// Package jsonmore is the positive example for the zero-count rule C03/R1(i).
package jsonmore

import (
	"encoding/json"
	"io"
)

func Values(r io.Reader) (n int) {
	d := json.NewDecoder(r)
	for d.More() {
		var v any
		if d.Decode(&v) != nil {
			return
		}
		n++
	}
	return
}

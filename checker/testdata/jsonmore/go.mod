module verif/testdata/jsonmore

go 1.22

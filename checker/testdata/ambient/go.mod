module verif/testdata/ambient

go 1.22

// Package ambient is the positive example for the zero-count rule C10/R4: every construct below
// must be reported by the matcher on every run.
package ambient

import (
	"math/rand"
	"os"
	"time"
)

func Stamp() int64 { return time.Now().UnixNano() }

func Dice() int { return rand.Intn(6) }

func Env() string { return os.Getenv("HOME") }

func Spawn(f func()) { go f() }

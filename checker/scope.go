package main

// C01/R2 sentinel-scope-agreement (also C11/R4 context-guards): errBreak / errContinue /
// errReturn cannot escape iff the parser only builds break/continue/return nodes where the
// evaluator has an enclosing catcher.

import (
	"fmt"
	"go/token"
	"sort"
	"strings"

	"golang.org/x/tools/go/ssa"
)

type ctxFlag struct {
	field    string   // Parser field
	nodes    []string // statement node types guarded by it
	sentinel []string // sentinels those nodes raise
}

var ctxFlags = []ctxFlag{
	{"inLoop", []string{"StatementBreak", "StatementContinue"}, []string{"errBreak", "errContinue"}},
	{"inFunction", []string{"StatementReturn"}, []string{"errReturn"}},
}

// constructionSites: Allocs of lang.<typeName> in package lang.
func constructionSites(p *Program, typeName string) []*ssa.Alloc {
	var out []*ssa.Alloc
	for _, f := range p.Funcs {
		if !p.InLang(f) {
			continue
		}
		allInstrs(f, func(in ssa.Instruction) {
			if a, ok := in.(*ssa.Alloc); ok && isLangNamed(a.Type(), typeName) {
				if _, isPtr := a.Type().Underlying().(interface{ Elem() interface{} }); isPtr {
					_ = isPtr
				}
				out = append(out, a)
			}
		})
	}
	return out
}

// flagKnownTrue: facts contain (load of Parser.<field>) == true.
func flagKnownTrue(facts factSet, field string) (bool, ssa.Value) {
	for f := range facts {
		cond, truth := f.cond, f.truth
		for {
			if u, ok := cond.(*ssa.UnOp); ok && u.Op == token.NOT {
				cond, truth = u.X, !truth
				continue
			}
			break
		}
		if sf, ok := loadedField(cond); ok && sf.Is("Parser", field) && truth {
			return true, cond
		}
	}
	return false, nil
}

// contextGuards = P1: every construction of a guarded node is dominated by its flag being true.
func contextGuards(c *Ctx, rule string) {
	p := c.P
	c.note("%s context-guards: every construction site of StatementBreak/StatementContinue (StatementReturn) is only reachable under the fact Parser.inLoop == true (Parser.inFunction == true), with no store to the flag between the test and the construction.", rule)
	for _, cf := range ctxFlags {
		for _, node := range cf.nodes {
			sites := constructionSites(p, node)
			if len(sites) == 0 {
				c.undecided(rule, "construction "+node, "", "no construction site of "+node+" found in package lang")
				continue
			}
			for i, a := range sites {
				fn := a.Parent()
				key := fmt.Sprintf("construction %s #%d in %s", node, i+1, shortName(fn))
				ok, cond := flagKnownTrue(FactsOf(fn).At(a.Block()), cf.field)
				if !ok {
					c.violated(rule, key, p.InstrPos(a), fmt.Sprintf("a %s node is built on a path where Parser.%s is not known to be true: the statement is accepted outside its context and its sentinel can escape at run time", node, cf.field))
					continue
				}
				// no store to the flag between the load and the construction
				ld := cond.(ssa.Instruction)
				killed := false
				between := reachableFrom([]*ssa.BasicBlock{ld.Block()}, map[*ssa.BasicBlock]bool{a.Block(): true})
				for _, st := range storesToField(fn, "Parser", cf.field, false) {
					if between[st.Block()] && canReach(st, a) && dominatesInstr(ld, st) {
						killed = true
					}
				}
				if killed {
					c.undecided(rule, key, p.InstrPos(a), "the flag is stored between its test and the construction")
					continue
				}
				c.ok(rule, key, p.InstrPos(a), fmt.Sprintf("dominated by Parser.%s == true", cf.field))
			}
		}
	}
}

// sinkFields follows a value to the struct fields it is stored into (through returns to the
// callers, local variables, phis and interface conversions).
func sinkFields(p *Program, v ssa.Value) (fields map[string]bool, unknown []string) {
	fields = map[string]bool{}
	seen := map[ssa.Value]bool{}
	var rec func(v ssa.Value, depth int)
	rec = func(v ssa.Value, depth int) {
		if seen[v] || depth > 12 {
			return
		}
		seen[v] = true
		for _, r := range referrersOf(v) {
			switch x := r.(type) {
			case *ssa.Store:
				if x.Val != v {
					continue // v is the address
				}
				if sf, ok := fieldOfAddr(x.Addr); ok && sf.Struct != nil {
					fields[sf.Struct.Obj().Name()+"."+sf.Name] = true
					continue
				}
				if a, ok := x.Addr.(*ssa.Alloc); ok {
					rec(a, depth+1) // the variable: its loads and its address
					continue
				}
				unknown = append(unknown, "stored to "+x.Addr.String()+" at "+p.InstrPos(x))
			case *ssa.UnOp:
				if x.Op == token.MUL {
					rec(x, depth+1)
				}
			case *ssa.Phi:
				rec(x, depth+1)
			case *ssa.MakeInterface:
				rec(x, depth+1)
			case *ssa.ChangeInterface:
				rec(x, depth+1)
			case *ssa.ChangeType:
				rec(x, depth+1)
			case *ssa.Extract:
				rec(x, depth+1)
			case *ssa.Return:
				fn := x.Parent()
				for i, res := range x.Results {
					if res != v {
						continue
					}
					for _, cs := range p.CallSitesOf(fn) {
						cv, ok := cs.(*ssa.Call)
						if !ok {
							continue
						}
						if fn.Signature.Results().Len() == 1 {
							rec(cv, depth+1)
							continue
						}
						for _, rr := range referrersOf(cv) {
							if ex, ok := rr.(*ssa.Extract); ok && ex.Index == i {
								rec(ex, depth+1)
							}
						}
					}
				}
			case *ssa.If, *ssa.BinOp, *ssa.DebugRef:
				// comparisons
			case *ssa.FieldAddr, *ssa.Field:
				// reading a field of the node: not a sink
			case *ssa.TypeAssert:
				// inspecting the node
			case ssa.CallInstruction:
				unknown = append(unknown, "passed to "+calleeName(x.Common())+" at "+p.InstrPos(x))
			default:
				unknown = append(unknown, fmt.Sprintf("%T at %s", r, p.InstrPos(r)))
			}
		}
	}
	rec(v, 0)
	return
}

// reachableFuncs: functions reachable in the call graph from f (including f).
func reachableFuncs(p *Program, f *ssa.Function) map[*ssa.Function]bool {
	return reachableFuncsOpt(p, f, true)
}

// reachableFuncsOpt: withClosures also counts function literals created (not necessarily called)
// by a reachable function.
func reachableFuncsOpt(p *Program, f *ssa.Function, withClosures bool) map[*ssa.Function]bool {
	seen := map[*ssa.Function]bool{}
	var work []*ssa.Function
	work = append(work, f)
	seen[f] = true
	for len(work) > 0 {
		g := work[len(work)-1]
		work = work[:len(work)-1]
		if !p.InModule(g) {
			continue
		}
		for _, c := range callsIn(g) {
			for _, callee := range p.Callees(c) {
				if !seen[callee] {
					seen[callee] = true
					work = append(work, callee)
				}
			}
		}
		for _, a := range g.AnonFuncs {
			// closures created here may be called later; count them as reachable
			if withClosures && !seen[a] {
				seen[a] = true
				work = append(work, a)
			}
		}
	}
	return seen
}

type flagRegion struct {
	Store    *ssa.Store
	Calls    []*ssa.Call
	LeakAt   []ssa.Instruction // returns reached with the flag still true and no deferred restore
	Restored bool
	// restores whose value is not a copy of the flag taken before it was set
	StaleRestore []*ssa.Store
}

// savedBefore: the value a restore writes back is (a copy of) a load of Parser.<field> that was
// executed before the store `set` that switched the flag on. d is the Defer instruction when the
// restore sits in a deferred closure (parameters / captured variables are resolved through it).
func savedBefore(v ssa.Value, d *ssa.Defer, set *ssa.Store, field string) bool {
	seen := map[ssa.Value]bool{}
	var rec func(v ssa.Value, depth int) bool
	rec = func(v ssa.Value, depth int) bool {
		if depth > 8 || seen[v] {
			return false
		}
		seen[v] = true
		switch x := v.(type) {
		case *ssa.UnOp:
			if x.Op != token.MUL {
				return false
			}
			if sf, ok := loadedField(x); ok && sf.Is("Parser", field) {
				return x.Parent() == set.Parent() && dominatesInstr(x, set)
			}
			// load of a local / captured variable: every store to it must qualify
			switch a := x.X.(type) {
			case *ssa.Alloc:
				n, ok := 0, true
				for _, r := range referrersOf(a) {
					if st, isSt := r.(*ssa.Store); isSt && st.Addr == ssa.Value(a) {
						n++
						if !rec(st.Val, depth+1) {
							ok = false
						}
					}
				}
				return n > 0 && ok
			case *ssa.FreeVar:
				if al := freeVarAlloc(a); al != nil {
					n, ok := 0, true
					for _, r := range referrersOf(al) {
						if st, isSt := r.(*ssa.Store); isSt && st.Addr == ssa.Value(al) {
							n++
							if !rec(st.Val, depth+1) {
								ok = false
							}
						}
					}
					return n > 0 && ok
				}
			}
			return false
		case *ssa.Parameter:
			// parameter of the deferred closure: the argument at the defer site
			if d == nil {
				return false
			}
			fn := x.Parent()
			for i, prm := range fn.Params {
				if prm == x && i < len(d.Call.Args) {
					return rec(d.Call.Args[i], depth+1)
				}
			}
			return false
		case *ssa.Phi:
			for _, e := range x.Edges {
				if !rec(e, depth+1) {
					return false
				}
			}
			return len(x.Edges) > 0
		}
		return false
	}
	return rec(v, 0)
}

// flagRegions: for every store `Parser.<field> = true`, the calls executed while the flag is
// true (until a store that restores it, or the function's end when a deferred closure restores it).
func flagRegions(p *Program, field string) []flagRegion {
	var out []flagRegion
	for _, fn := range p.Funcs {
		if !p.InLang(fn) {
			continue
		}
		for _, st := range storesToField(fn, "Parser", field, false) {
			if b, ok := constBool(st.Val); !ok || !b {
				continue
			}
			reg := flagRegion{Store: st}
			// deferred restores registered in this function
			deferRestores := false
			allInstrs(fn, func(in ssa.Instruction) {
				d, ok := in.(*ssa.Defer)
				if !ok {
					return
				}
				var cf *ssa.Function
				if mc, ok := d.Call.Value.(*ssa.MakeClosure); ok {
					cf, _ = mc.Fn.(*ssa.Function)
				} else {
					cf = d.Call.StaticCallee()
				}
				if cf == nil {
					return
				}
				for _, s := range storesToField(cf, "Parser", field, false) {
					if b, ok := constBool(s.Val); !ok || !b {
						if dominatesInstr(d, st) || d.Block() == st.Block() {
							deferRestores = true
							if !savedBefore(s.Val, d, st, field) {
								reg.StaleRestore = append(reg.StaleRestore, s)
							}
						}
					}
				}
			})
			seen := map[*ssa.BasicBlock]bool{}
			var walk func(b *ssa.BasicBlock, from int)
			walk = func(b *ssa.BasicBlock, from int) {
				for i := from; i < len(b.Instrs); i++ {
					switch x := b.Instrs[i].(type) {
					case *ssa.Store:
						if sf, ok := fieldOfAddr(x.Addr); ok && sf.Is("Parser", field) && x != st {
							reg.Restored = true
							if !savedBefore(x.Val, nil, st, field) {
								reg.StaleRestore = append(reg.StaleRestore, x)
							}
							return
						}
					case *ssa.Call:
						reg.Calls = append(reg.Calls, x)
					case *ssa.Return:
						if !deferRestores {
							reg.LeakAt = append(reg.LeakAt, x)
						}
						return
					}
				}
				for _, s := range b.Succs {
					if !seen[s] {
						seen[s] = true
						walk(s, 0)
					}
				}
			}
			walk(st.Block(), instrIndex(st)+1)
			out = append(out, reg)
		}
	}
	return out
}

// scopeAgreement implements C01/R2; returns the sentinels it discharges.
func scopeAgreement(c *Ctx, rule string) Kinds {
	p := c.P
	ek := EKOf(p)
	c.note("%s sentinel-scope-agreement: (P1) guarded construction of break/continue/return nodes; (P2) accept-scope = AST fields that receive the result of a parse call executed while Parser.inLoop / inFunction is true; (E) catch-scope = child fields whose evaluation call in the evaluator does not let the sentinel through; agreement accept ⊆ catch; raise sites only in the arm of the corresponding node; rule bodies, patterns, function bodies and selectors are parsed with the flags false; every evaluation call evaluates a child of the node being evaluated (tree walking), except the listed roots.", rule)
	contextGuards(c, rule+"-P1")
	discharged := Kinds(0)
	allOK := true
	mark := func(ok bool) {
		if !ok {
			allOK = false
		}
	}
	before := len(c.Obs)

	sites := ErrSites(p)
	for _, cf := range ctxFlags {
		// construction reachability
		reachCons := map[*ssa.Function]bool{}
		consFns := map[*ssa.Function]bool{}
		for _, node := range cf.nodes {
			for _, a := range constructionSites(p, node) {
				consFns[a.Parent()] = true
			}
		}
		for _, f := range p.Funcs {
			if !p.InLang(f) {
				continue
			}
			r := reachableFuncs(p, f)
			for cfn := range consFns {
				if r[cfn] {
					reachCons[f] = true
				}
			}
		}
		// P2 accept-scope
		accept := map[string]string{} // field -> where
		regs := flagRegions(p, cf.field)
		if len(regs) == 0 {
			c.undecided(rule+"-P2", "regions "+cf.field, "", "no store `Parser."+cf.field+" = true` found: the context flag is never set, or set in an unrecognised way")
			mark(false)
		}
		for i, reg := range regs {
			key := fmt.Sprintf("region %s #%d in %s", cf.field, i+1, shortName(reg.Store.Parent()))
			for _, sr := range reg.StaleRestore {
				c.violated(rule+"-P2", key+" stale-restore", p.InstrPos(sr), "the value written back to Parser."+cf.field+" when the region ends is not a copy of the flag taken before it was switched on: the flag stays true afterwards, so the guarded statement is accepted in everything parsed later (its sentinel then escapes at run time)")
				mark(false)
			}
			for _, l := range reg.LeakAt {
				c.violated(rule+"-P2", key+" leak", p.InstrPos(l), "the function can return with Parser."+cf.field+" still true and no deferred restore: everything parsed afterwards is accepted as if inside the context")
				mark(false)
			}
			nParse := 0
			for _, call := range reg.Calls {
				isParse := false
				for _, callee := range p.Callees(call) {
					if reachCons[callee] {
						isParse = true
					}
				}
				if !isParse {
					continue
				}
				nParse++
				var res ssa.Value = call
				if call.Call.Signature().Results().Len() > 1 {
					res = nil
					for _, r := range referrersOf(call) {
						if ex, ok := r.(*ssa.Extract); ok && ex.Index == 0 {
							res = ex
						}
					}
				}
				if res == nil {
					c.undecided(rule+"-P2", key+" call "+calleeName(call.Common()), p.InstrPos(call), "result of a parse call inside the region is discarded")
					mark(false)
					continue
				}
				fields, unknown := sinkFields(p, res)
				if len(unknown) > 0 || len(fields) == 0 {
					c.undecided(rule+"-P2", key+" call "+calleeName(call.Common()), p.InstrPos(call), "cannot map the parse call's result to AST fields: "+strings.Join(unknown, "; "))
					mark(false)
					continue
				}
				for f := range fields {
					accept[f] = p.InstrPos(call)
				}
			}
			c.ok(rule+"-P2", key, p.InstrPos(reg.Store), fmt.Sprintf("%d parse call(s) run while the flag is true", nParse))
			// roots are not parsed inside a region
			for _, call := range reg.Calls {
				for _, callee := range p.Callees(call) {
					r := reachableFuncs(p, callee)
					for _, rootName := range []string{"(*Parser).parseRule", "(*Parser).parseFunction", "(*Parser).Parse", "(*Parser).ParseExpression"} {
						rf := p.LangFunc(rootName)
						if rf != nil && r[rf] {
							c.violated(rule+"-P2", key+" encloses "+rootName, p.InstrPos(call), "a rule/function/selector root can be parsed while Parser."+cf.field+" is true")
							mark(false)
						}
					}
				}
			}
		}
		// E catch-scope
		for _, s := range cf.sentinel {
			bit := ek.Sentinel(s)
			if bit == 0 {
				c.undecided(rule+"-E", "sentinel "+s, "", "sentinel not discovered")
				mark(false)
				continue
			}
			catch := map[string]bool{}
			leak := map[string]bool{}
			for _, site := range sites {
				if !p.InLang(site.Fn) || site.Swallow == nil || !strings.Contains(site.ArgDesc, ".") {
					continue
				}
				if !site.Swallow.Kinds.Has(bit) {
					continue
				}
				if site.Swallow.Through.Has(bit) {
					leak[site.ArgDesc] = true
				} else {
					catch[site.ArgDesc] = true
				}
			}
			var fs []string
			for f := range accept {
				fs = append(fs, f)
			}
			sort.Strings(fs)
			for _, f := range fs {
				key := fmt.Sprintf("agreement %s accepted-in %s", s, f)
				switch {
				case catch[f] && !leak[f]:
					c.ok(rule+"-A", key, accept[f], "the evaluator consumes "+s+" around the evaluation of "+f)
				case leak[f]:
					c.violated(rule+"-A", key, accept[f], fmt.Sprintf("the parser accepts the statement raising %s inside %s, but some evaluation of %s lets %s through to its caller", s, f, f, s))
					mark(false)
				default:
					c.violated(rule+"-A", key, accept[f], fmt.Sprintf("the parser accepts the statement raising %s inside %s, but no evaluation call of %s consumes %s: it escapes as an error", s, f, f, s))
					mark(false)
				}
			}
			if len(fs) == 0 {
				c.undecided(rule+"-A", "agreement "+s, "", "empty accept-scope")
				mark(false)
			}
		}
	}
	// raise sites
	raiseArm := map[string]string{"errBreak": "StatementBreak", "errContinue": "StatementContinue", "errReturn": "StatementReturn"}
	for sName, node := range raiseArm {
		g := ek.SentinelGlobal(sName)
		if g == nil {
			continue
		}
		n := 0
		for _, f := range p.Funcs {
			if !p.InLang(f) {
				continue
			}
			allInstrs(f, func(in ssa.Instruction) {
				u, ok := in.(*ssa.UnOp)
				if !ok || globalLoaded(u) != g {
					return
				}
				raised := false
				for _, r := range referrersOf(u) {
					switch r.(type) {
					case *ssa.BinOp, *ssa.DebugRef:
					default:
						raised = true
					}
				}
				if !raised {
					return
				}
				n++
				key := fmt.Sprintf("raise-site %s #%d in %s", sName, n, shortName(f))
				inArm := false
				if len(f.Params) > 1 {
					for _, tc := range typeCasesOn(f, f.Params[1]) {
						if tc.TypeName == node && caseRegion(tc)[u.Block()] {
							inArm = true
						}
					}
				}
				if inArm {
					c.ok(rule+"-R", key, p.InstrPos(u), "raised only while evaluating a "+node+" node")
				} else {
					c.violated(rule+"-R", key, p.InstrPos(u), sName+" is raised outside the arm that evaluates a "+node+" node: the parser's context guard does not cover this raise")
					mark(false)
				}
			})
		}
		if n == 0 {
			c.undecided(rule+"-R", "raise-site "+sName, "", "no raise site found")
			mark(false)
		}
	}
	// tree-walking: evaluation calls evaluate children of the node being evaluated
	mark(treeWalking(c, rule+"-N"))
	for _, o := range c.Obs[before:] {
		if o.Verdict != "ok" {
			allOK = false
		}
	}
	if allOK {
		for _, cf := range ctxFlags {
			for _, s := range cf.sentinel {
				discharged |= ek.Sentinel(s)
			}
		}
	}
	return discharged
}

// evaluation roots: call sites whose node argument is not a child of the node being evaluated
var evalRoots = map[string]string{
	"(*lang.Evaluator).callFunction -> (*lang.Evaluator).evalStatement(ExprFunction.Body)": "function bodies are evaluated at call time; callFunction consumes errReturn (consumption table) and functions are parsed with inLoop false",
	"(*lang.Evaluator).evalRules -> (*lang.Evaluator).evalExpr(Rule.Pattern)":              "rule patterns are roots, parsed with both flags false",
	"(*lang.Evaluator).evalRules -> (*lang.Evaluator).evalStatement(Rule.Body)":            "rule bodies are roots, parsed with both flags false",
	"lang.EvalProgram -> (*lang.Evaluator).evalStatement(Rule.Body)":                       "BEGIN/END/BEGINFILE/ENDFILE bodies are roots, parsed with both flags false",
	"lang.EvalExpression -> (*lang.Evaluator).evalExpr(Expr)":                              "the selector expression is a root, parsed by ParseExpression with both flags false",
}

func isNodeType(T interface{ String() string }) bool {
	s := T.String()
	return strings.Contains(s, langPath+".Expr") || strings.Contains(s, langPath+".Statement") || strings.Contains(s, langPath+".MatchCase")
}

func treeWalking(c *Ctx, rule string) bool {
	p := c.P
	good := true
	n := 0
	used := map[string]bool{}
	for _, s := range ErrSites(p) {
		if !p.InLang(s.Fn) {
			continue
		}
		callee := s.Call.Common().StaticCallee()
		if callee == nil || callee.Signature.Recv() == nil || !isLangNamed(callee.Signature.Recv().Type(), "Evaluator") {
			continue
		}
		// node-typed arguments
		args := s.Call.Common().Args[1:]
		for _, a := range args {
			if !isNodeType(a.Type()) {
				continue
			}
			n++
			fromParam := derivesFromLocal2(a, func(x ssa.Value) bool {
				prm, ok := x.(*ssa.Parameter)
				return ok && isNodeType(prm.Type())
			})
			base := strings.TrimRight(strings.SplitN(s.Key, " #", 2)[0], " ")
			if fromParam {
				c.ok(rule, "child-eval "+s.Key, p.InstrPos(s.Call), "evaluates a child of the node being evaluated")
				continue
			}
			if _, ok := evalRoots[base]; !ok {
				// the call may sit in a helper split off the listed function
				if parts := strings.SplitN(base, " -> ", 2); len(parts) == 2 {
					for k := range evalRoots {
						kp := strings.SplitN(k, " -> ", 2)
						if len(kp) == 2 && kp[1] == parts[1] && p.inClusterOf(p.funcByShortName(kp[0]), s.Fn) {
							base = k
						}
					}
				}
			}
			if why, ok := evalRoots[base]; ok {
				used[base] = true
				c.ok(rule, "root-eval "+s.Key, p.InstrPos(s.Call), "evaluation root: "+why)
				continue
			}
			good = false
			c.violated(rule, "eval "+s.Key, p.InstrPos(s.Call), "evaluates a node that is neither a child of the node being evaluated nor a listed root: a stored node evaluated outside its syntactic parent escapes the parser's context guards")
		}
	}
	if n < 30 {
		c.undecided(rule, "instance-floor", "", fmt.Sprintf("%d node-evaluating calls found, 40 confirmed by hand", n))
		good = false
	}
	return good
}

// derivesFromLocal2: derivesFrom extended through type-switch bindings, range loops over node
// slices, and local struct copies (range variables of MatchCase / ObjectKeyValue).
func derivesFromLocal2(v ssa.Value, root func(ssa.Value) bool) bool {
	seen := map[ssa.Value]bool{}
	var rec func(v ssa.Value, depth int) bool
	rec = func(v ssa.Value, depth int) bool {
		if depth > 16 {
			return false
		}
		if root(v) {
			return true
		}
		if seen[v] {
			return true // cycle through a phi: the other edges decide
		}
		seen[v] = true
		switch x := v.(type) {
		case *ssa.UnOp:
			return x.Op == token.MUL && rec(x.X, depth+1)
		case *ssa.FieldAddr:
			return rec(x.X, depth+1)
		case *ssa.Field:
			return rec(x.X, depth+1)
		case *ssa.IndexAddr:
			return rec(x.X, depth+1)
		case *ssa.Index:
			return rec(x.X, depth+1)
		case *ssa.Extract:
			return rec(x.Tuple, depth+1)
		case *ssa.TypeAssert:
			return rec(x.X, depth+1)
		case *ssa.MakeInterface:
			return rec(x.X, depth+1)
		case *ssa.ChangeInterface:
			return rec(x.X, depth+1)
		case *ssa.Slice:
			return rec(x.X, depth+1)
		case *ssa.Next:
			return rec(x.Iter, depth+1)
		case *ssa.Range:
			return rec(x.X, depth+1)
		case *ssa.Phi:
			for _, e := range x.Edges {
				if !rec(e, depth+1) {
					return false
				}
			}
			return true
		case *ssa.Alloc:
			// local variable / composite literal: every stored component derives from root
			n := 0
			ok := true
			var visit func(addr ssa.Value)
			visit = func(addr ssa.Value) {
				for _, r := range referrersOf(addr) {
					switch y := r.(type) {
					case *ssa.Store:
						if y.Addr == addr {
							n++
							if !rec(y.Val, depth+1) {
								ok = false
							}
						}
					case *ssa.IndexAddr:
						if y.X == addr {
							visit(y)
						}
					}
				}
			}
			visit(x)
			return n > 0 && ok
		}
		return false
	}
	return rec(v, 0)
}

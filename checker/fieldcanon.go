package main

import (
	"go/types"
	"strings"
)

// Frozen layouts of the structs whose unexported fields the rules name. A consistent rename of
// such a field keeps its position and type: when the struct still has the frozen number of fields
// and the type at a position is the frozen one, the field at that position is *called* by its frozen
// name everywhere in the checker (renderings, field tests), whatever it is called in the source.
// A field that was added, removed or retyped is not renamed (the rules then see the real names).
type frozenField struct{ name, typ string }

var frozenLayouts = map[string][]frozenField{
	"Evaluator": {
		{"prog", "Program"}, {"lexer", "*Lexer"}, {"stdout", "io.Writer"}, {"root", "*Cell"}, {"ruleRoot", "*Cell"},
		{"stackTop", "*stackFrame"}, {"returnVal", "*Value"}, {"beginRules", "[]*Rule"}, {"beginFileRules", "[]*Rule"},
		{"patternRules", "[]*Rule"}, {"endRules", "[]*Rule"}, {"endFileRules", "[]*Rule"}, {"fuzzing", "bool"},
	},
	"Parser": {
		{"lexer", "*Lexer"}, {"current", "*Token"}, {"previous", "*Token"}, {"rules", "map[TokenTag]parseRule"},
		{"didEndStatement", "bool"}, {"inFunction", "bool"}, {"inLoop", "bool"},
	},
	"Lexer":      {{"src", "string"}, {"pos", "int"}, {"line", "int"}, {"tokenStart", "int"}},
	"stackFrame": {{"name", "string"}, {"locals", "map[string]*Cell"}, {"depth", "int"}, {"parent", "*stackFrame"}},
	"parseRule":  {{"prec", "Precedence"}, {"prefix", "func(*Parser) (Expr, error)"}, {"infix", "func(*Parser, Expr) (Expr, error)"}},
}

var canonFieldCache = map[*types.Struct][]string{}

func shortType(t types.Type) string {
	return types.TypeString(t, func(p *types.Package) string {
		if strings.HasSuffix(p.Path(), "/src") {
			return ""
		}
		return p.Name()
	})
}

// canonFieldName: the name the checker uses for field idx of struct st (named `named`).
func canonFieldName(named *types.Named, st *types.Struct, idx int) string {
	if named == nil || st == nil {
		return st.Field(idx).Name()
	}
	if names, ok := canonFieldCache[st]; ok {
		return names[idx]
	}
	names := make([]string, st.NumFields())
	for i := range names {
		names[i] = st.Field(i).Name()
	}
	if fz, ok := frozenLayouts[named.Obj().Name()]; ok && strings.HasSuffix(named.Obj().Pkg().Path(), "/src") && len(fz) == st.NumFields() {
		same := true
		for i, f := range fz {
			if shortType(st.Field(i).Type()) != f.typ {
				same = false
			}
		}
		if same {
			for i, f := range fz {
				names[i] = f.name
			}
		}
	}
	canonFieldCache[st] = names
	return names[idx]
}

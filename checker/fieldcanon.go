package main

import (
	"go/types"
	"strings"
)

// Frozen layouts of the structs whose unexported fields the rules name. A consistent rename of
// such a field keeps its position and type: when the struct still has the frozen number of fields
// and the type at a position is the frozen one, the field at that position is *called* by its frozen
// name everywhere in the checker (renderings, field tests), whatever it is called in the source.
// A field that was added, removed or retyped is not renamed (the rules then see the real names).
type frozenField struct{ name, typ string }

var frozenLayouts = map[string][]frozenField{
	"Evaluator": {
		{"prog", "Program"}, {"lexer", "*Lexer"}, {"stdout", "io.Writer"}, {"root", "*Cell"}, {"ruleRoot", "*Cell"},
		{"stackTop", "*stackFrame"}, {"returnVal", "*Value"}, {"beginRules", "[]*Rule"}, {"beginFileRules", "[]*Rule"},
		{"patternRules", "[]*Rule"}, {"endRules", "[]*Rule"}, {"endFileRules", "[]*Rule"}, {"fuzzing", "bool"},
	},
	"Parser": {
		{"lexer", "*Lexer"}, {"current", "*Token"}, {"previous", "*Token"}, {"rules", "map[TokenTag]parseRule"},
		{"didEndStatement", "bool"}, {"inFunction", "bool"}, {"inLoop", "bool"},
	},
	"Lexer":      {{"src", "string"}, {"pos", "int"}, {"line", "int"}, {"tokenStart", "int"}},
	"stackFrame": {{"name", "string"}, {"locals", "map[string]*Cell"}, {"depth", "int"}, {"parent", "*stackFrame"}},
	"parseRule":  {{"prec", "Precedence"}, {"prefix", "func(*Parser) (Expr, error)"}, {"infix", "func(*Parser, Expr) (Expr, error)"}},
}

var canonFieldCache = map[*types.Struct][]string{}

func shortType(t types.Type) string {
	s := types.TypeString(t, func(p *types.Package) string {
		if strings.HasSuffix(p.Path(), "/src") {
			return ""
		}
		return p.Name()
	})
	for from, to := range typeAliasNames {
		s = wordReplace(s, from, to)
	}
	return s
}

func wordReplace(s, from, to string) string {
	out := ""
	for {
		i := strings.Index(s, from)
		if i < 0 {
			return out + s
		}
		before := i == 0 || !isIdentByte(s[i-1])
		after := i+len(from) == len(s) || !isIdentByte(s[i+len(from)])
		if before && after {
			out += s[:i] + to
		} else {
			out += s[:i+len(from)]
		}
		s = s[i+len(from):]
	}
}

func isIdentByte(b byte) bool {
	return b == '_' || b >= '0' && b <= '9' || b >= 'a' && b <= 'z' || b >= 'A' && b <= 'Z'
}

// A frozen struct that was renamed as a type (parseRule -> exprRule): when package lang has no type of
// the frozen name and exactly one named struct whose field types are the frozen ones, in order, that
// struct goes by the frozen name in the checker.
var typeAliasNames = map[string]string{} // source name -> frozen name

func canonTypeName(tn *types.TypeName) string {
	if tn == nil {
		return ""
	}
	if to, ok := typeAliasNames[tn.Name()]; ok && tn.Pkg() != nil && strings.HasSuffix(tn.Pkg().Path(), "/src") {
		return to
	}
	return tn.Name()
}

func computeTypeAliases(lang *types.Package) {
	if lang == nil {
		return
	}
	scope := lang.Scope()
	for frozen, fz := range frozenLayouts {
		if _, isType := scope.Lookup(frozen).(*types.TypeName); isType {
			continue
		}
		var cands []string
		for _, n := range scope.Names() {
			tn, ok := scope.Lookup(n).(*types.TypeName)
			if !ok {
				continue
			}
			if _, taken := frozenLayouts[n]; taken {
				continue
			}
			st, ok := tn.Type().Underlying().(*types.Struct)
			if !ok || st.NumFields() != len(fz) {
				continue
			}
			same := true
			for i, f := range fz {
				if wordReplace(shortType(st.Field(i).Type()), n, frozen) != f.typ {
					same = false
				}
			}
			if same {
				cands = append(cands, n)
			}
		}
		if len(cands) == 1 {
			typeAliasNames[cands[0]] = frozen
		}
	}
}

// canonFieldName: the name the checker uses for field idx of struct st (named `named`).
func canonFieldName(named *types.Named, st *types.Struct, idx int) string {
	if named == nil || st == nil {
		return st.Field(idx).Name()
	}
	if names, ok := canonFieldCache[st]; ok {
		return names[idx]
	}
	names := make([]string, st.NumFields())
	for i := range names {
		names[i] = st.Field(i).Name()
	}
	if fz, ok := frozenLayouts[canonTypeName(named.Obj())]; ok && strings.HasSuffix(named.Obj().Pkg().Path(), "/src") && len(fz) == st.NumFields() {
		same := true
		for i, f := range fz {
			if shortType(st.Field(i).Type()) != f.typ {
				same = false
			}
		}
		if same {
			for i, f := range fz {
				names[i] = f.name
			}
		}
	}
	canonFieldCache[st] = names
	return names[idx]
}

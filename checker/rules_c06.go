package main

import (
	"fmt"
	"go/constant"
	"go/token"
	"go/types"
	"sort"
	"strings"

	"golang.org/x/tools/go/ssa"
)

func init() {
	register(&ruleSet{
		id:    "C06",
		title: "precedence and associativity",
		run:   runC06,
		decided: "the complete precedence x associativity relation realised by the Pratt parser (table rows, loop test and right binding power of every parselet extracted from the source) equals the relation prescribed by the statement, for every ordered pair of infix operators and every prefix operator x infix operator; " +
			"assignment tokens are routed to a parselet that validates its target and parses its right side right-to-left; the compound-assignment desugaring table; grouping returns the inner node after a required ')'." +
			" The operator loop can be left successfully only through its precedence test; every infix parselet builds its node around the left operand it was handed; the assignment-target validation precedes the consumption of the operator and every successful return." +
			" An identifier is a run of letters, digits and '_' only; a root selector's text reaches the expression parser unchanged." +
			" A prefix operator parselet consumes one operator and parses one operand per activation; no branch of the parser depends on Parser state other than the token cursor, the operator table and the three statement-context flags. An infix parselet is entered only through the operator table from the climbing loop (never called directly by a prefix parselet).",
		notDecided: "evaluation of the grouped tree (C05); ++/-- (outside the statement).",
	})
}

// oracle: precedence levels of the property statement (higher binds tighter)
var c06Levels = map[string]int{
	"LParen": 6, "Dot": 6, "LSquare": 6, // call, member, index
	// prefix ! - + : level 5 (prefix table below)
	"Multiply": 4, "Divide": 4, "Percent": 4,
	"Plus": 3, "Minus": 3,
	"EqualEqual": 2, "BangEqual": 2, "LessThan": 2, "LessEqual": 2, "GreaterThan": 2, "GreaterEqual": 2, "Tilde": 2, "BangTilde": 2, "Is": 2,
	"AmpAmp": 1, "PipePipe": 1,
	"Equal": 0, "PlusEqual": 0, "MinusEqual": 0, "MultiplyEqual": 0, "DivideEqual": 0,
}

const c06PrefixLevel = 5

var c06Prefix = []string{"Bang", "Minus", "Plus"}
var c06Excluded = map[string]string{"PlusPlus": "++/-- are outside the statement", "MinusMinus": "++/-- are outside the statement"}

func runC06(c *Ctx) {
	p := c.P
	m := extractPratt(p)
	c.note("R1 pratt-model-extraction: table = the map[TokenTag]parseRule literal (keys and precedences folded by the type checker, parselets resolved to functions); loop = the cyclic test `minPrec OP prec(current)` in the function that invokes parseRule.infix; right binding power per parselet = the argument of its call to that function (own+k read from Parser.previous after advance, a constant, delimited, or none).")
	c.note("R2 grouping-matrix oracle (statement): call/member/index bind tighter than prefix ! - +, then * / %%, then + -, then comparisons ~ !~ is > && || > assignments; op2 is absorbed into op1's right operand iff level(op2) > level(op1), or the levels are equal and the level is assignment. Pairs suffice for triples because the climbing loop has no memory beyond minPrec.")
	for _, pr := range m.Problems {
		c.undecided("R1", "model: "+pr, "", pr)
	}
	if m.Climb == nil || len(m.Rows) == 0 {
		return
	}
	c.ok("R1", "table", p.Pos(m.Rows[0].Pos), fmt.Sprintf("%d rows extracted", len(m.Rows)))
	c.Analysed["pratt_rows"] = len(m.Rows)
	if len(m.Rows) < 30 {
		c.undecided("R1", "instance-floor", "", fmt.Sprintf("%d table rows, 36 confirmed by hand", len(m.Rows)))
	}
	c.ok("R1", "loop", p.Pos(m.LoopPos), "loop test: minPrec "+m.LoopOp.String()+" prec(current) in "+shortName(m.Climb))
	// the loop stops only at its precedence test (or with an error)
	if m.LoopIf != nil {
		h := m.LoopIf.Block()
		// the natural loop: blocks reachable from the body entry (not through the test) that can get back to the test
		region := map[*ssa.BasicBlock]bool{}
		for b := range reachableFrom([]*ssa.BasicBlock{m.LoopBody}, map[*ssa.BasicBlock]bool{h: true}) {
			if b == h || reachableFrom([]*ssa.BasicBlock{b}, nil)[h] {
				region[b] = true
			}
		}
		ek := EKOf(p)
		var bad []string
		for b := range region {
			if b == h {
				continue
			}
			for _, s := range b.Succs {
				if region[s] || s == h {
					continue
				}
				// leaving the loop body: only towards an error return
				okExit := true
				for x := range reachableFrom([]*ssa.BasicBlock{s}, nil) {
					if r, isRet := x.Instrs[len(x.Instrs)-1].(*ssa.Return); isRet {
						res := effectiveResults(r)
						if ek.KindsAt(res[len(res)-1], FactsOf(m.Climb).At(x)).Has(KNil) {
							okExit = false
						}
					}
				}
				if !okExit {
					bad = append(bad, p.InstrPos(b.Instrs[len(b.Instrs)-1]))
				}
			}
		}
		sort.Strings(bad)
		c.check(len(bad) == 0, "R1", "loop-exits", p.Pos(m.LoopPos), "the operator loop ends only when the next operator binds too loosely (or with an error)", "the operator loop can also be left successfully at "+strings.Join(bad, ", ")+": the grouping then depends on something other than the precedences (e.g. on layout), which the matrix does not model")
	}
	// every oracle operator must be in the table with an infix parselet
	var infixOps []string
	for tag := range c06Levels {
		infixOps = append(infixOps, tag)
	}
	sort.Strings(infixOps)
	for _, tag := range infixOps {
		r := m.ByTag[tag]
		if r == nil || r.Infix == nil {
			c.violated("R1", "row "+tag, "", "operator of the statement has no infix parselet in the table")
		}
	}
	// table rows with an infix parselet that the oracle does not know
	for _, r := range m.Rows {
		if r.Infix == nil {
			continue
		}
		if _, ok := c06Levels[r.Tag]; !ok {
			if why, ex := c06Excluded[r.Tag]; ex {
				c.ok("R1", "row "+r.Tag, p.Pos(r.Pos), "excluded from the matrix: "+why)
			} else {
				c.undecided("R1", "row "+r.Tag, p.Pos(r.Pos), "infix operator not covered by the oracle: the language was extended, the oracle needs updating")
			}
		}
	}
	prattParselets(c, m)
	infixOnlyFromLoop(c, m)
	leftOperandPassthrough(c, m)
	prefixOperatorShape(c, m)
	parserStateSteering(c, m)
	// outside the parselets an expression is always parsed from the lowest level (assignment): a
	// statement that parses its condition from a higher level cannot hold `x = f()` un-parenthesised
	{
		isParselet := map[*ssa.Function]bool{}
		for _, r := range m.Rows {
			if r.Prefix != nil {
				isParselet[r.Prefix] = true
			}
			if r.Infix != nil {
				isParselet[r.Infix] = true
			}
		}
		n := 0
		for _, cs := range p.CallSitesOf(m.Climb) {
			f := cs.Parent()
			if p.inTestFile(f) || isParselet[f] || f == m.Climb {
				continue
			}
			n++
			arg := cs.Common().Args[1]
			k, isC := constInt(arg)
			name := m.PrecNames[k]
			lowest := isC
			for v := range m.PrecNames {
				if v != 0 && v < k { // PrecNone (0) is not an operator level
					lowest = false
				}
			}
			c.check(lowest, "R1", fmt.Sprintf("statement-level-expression #%d in %s", n, shortName(f)), p.InstrPos(cs), "parsed from the assignment level", "an expression outside the operator parselets is parsed from level "+name+" ("+p.Render(arg)+") instead of the lowest one: operators below that level (assignment) are a syntax error there unless parenthesised")
		}
		if n == 0 {
			c.undecided("R1", "statement-level-expression", "", "no call of the climbing function outside the parselets (expression() is expected)")
		}
	}
	c.shared("R11", "C05/R1", "a prefix operator applies to the operand it is written in front of: unary nodes are built by the unary parselets only (an infix parselet that wraps what it parsed in a unary node applies the operator to a whole sub-expression)", keyHas("unary-universe", "unary unknown-operator"), runC05)
	c.shared("R10", "C05/R3", "the evaluator computes the tree the parser built: every binary node evaluates its own two operands and applies its operator to them (no flattening of a chain of equal operators, which would regroup `1 + 2 + \"x\"`)", keyHas("operator Plus", "left-once", "left-before-right", "operand-source"), runC05)
	c.shared("R6", "C13/R1", "member access binds tighter than binary `-`: an identifier is a run of letters, digits and '_' only, so `$.a-b` is `($.a) - b` and never the one name `a-b`", keyHas("identifier-class"), runC13)
	c.shared("R12", "C13/R2", "prefix - binds looser than call, member and index on a literal as on a variable: the number token is digits and dots only and `-` is always a token of its own — a sign absorbed by the lexer makes `-2.5.floor()` group as `(-2.5).floor()`", keyHas("numeric-class", "numeric-token", "spelling -", "longest-match - "), runC13)
	c.shared("R13", "C13/R6", "an operand is followed by its operators whatever the operand is, a match expression included: the layout flag (a statement ended here) is read by the statement-end test only, not by the operator loop", keyHas("flag-read"), c13NewlineFlag)
	c.shared("R14", "C10/R6", "an operator application has the value its operands give it: evaluation keeps no memo keyed by source position (two operators on one left spine start at the same token)", keyHas("evaluator-state", "interpreter-state"), func(s *Ctx) { interpreterState(s, "R6") })
	c.shared("R7", "C14/R4", "a root selector means what its text says: it reaches the expression parser unchanged (nothing is pasted in front of a leading parenthesis)", keyHas("root-list-contents"), func(s *Ctx) { rootsPerValue(s, "R4") })

	// R2: the matrix
	cells, bad := 0, 0
	for _, op1 := range infixOps {
		r1 := m.ByTag[op1]
		if r1 == nil || r1.Infix == nil {
			continue
		}
		rb := m.Rbp[r1.Infix]
		if strings.HasPrefix(rb.Why, "UNDECIDED") {
			continue
		}
		var wrongAbsorb, wrongRelease []string
		for _, op2 := range infixOps {
			r2 := m.ByTag[op2]
			if r2 == nil || r2.Infix == nil {
				continue
			}
			cells++
			var got bool
			switch rb.Kind {
			case rbpOwn:
				got = m.absorbs(r1.Prec+rb.K, r2.Prec)
			case rbpConst:
				got = m.absorbs(rb.K, r2.Prec)
			default:
				got = false // no expression operand on the right (is, call, member, index: delimited)
			}
			l1, l2 := c06Levels[op1], c06Levels[op2]
			want := l2 > l1 || (l1 == l2 && l1 == 0)
			if rb.Kind == rbpNone || rb.Kind == rbpDelimited {
				// suffix-like operators (is <type>, call, member, index): nothing can be absorbed,
				// and the statement gives them no right operand expression
				want = false
			}
			if got != want {
				bad++
				if got {
					wrongAbsorb = append(wrongAbsorb, op2)
				} else {
					wrongRelease = append(wrongRelease, op2)
				}
			}
		}
		key := "matrix-row " + op1
		if len(wrongAbsorb)+len(wrongRelease) == 0 {
			c.ok("R2", key, p.Pos(r1.Pos), fmt.Sprintf("right operand parsed at %s; agrees with the statement against all %d following operators", describeRbp(rb), len(infixOps)))
			continue
		}
		var parts []string
		if len(wrongAbsorb) > 0 {
			parts = append(parts, fmt.Sprintf("`a %s b OP c` groups as `a %s (b OP c)` but must group as `(a %s b) OP c` for OP in {%s}", op1, op1, op1, strings.Join(wrongAbsorb, ", ")))
		}
		if len(wrongRelease) > 0 {
			parts = append(parts, fmt.Sprintf("`a %s b OP c` groups as `(a %s b) OP c` but must group as `a %s (b OP c)` for OP in {%s}", op1, op1, op1, strings.Join(wrongRelease, ", ")))
		}
		c.violated("R2", key, p.Pos(r1.Pos), fmt.Sprintf("right operand parsed at %s with loop test %s: %s", describeRbp(rb), m.LoopOp, strings.Join(parts, "; ")))
	}
	// prefix operators
	for _, op := range c06Prefix {
		r := m.ByTag[op]
		if r == nil || r.Prefix == nil {
			c.violated("R2", "prefix-row "+op, "", "prefix operator of the statement has no prefix parselet")
			continue
		}
		rb := m.Rbp[r.Prefix]
		if rb.Kind != rbpConst {
			c.undecided("R2", "prefix-row "+op, p.Pos(r.Pos), "prefix parselet does not parse its operand at a constant precedence: "+describeRbp(rb))
			continue
		}
		var wrong []string
		for _, op2 := range infixOps {
			r2 := m.ByTag[op2]
			if r2 == nil || r2.Infix == nil {
				continue
			}
			cells++
			got := m.absorbs(rb.K, r2.Prec)
			want := c06Levels[op2] > c06PrefixLevel
			if got != want {
				bad++
				wrong = append(wrong, op2)
			}
		}
		if len(wrong) == 0 {
			c.ok("R2", "prefix-row "+op, p.Pos(r.Pos), "operand parsed at "+describeRbp(rb)+": only call/member/index bind tighter")
		} else {
			c.violated("R2", "prefix-row "+op, p.Pos(r.Pos), fmt.Sprintf("prefix %s operand parsed at %s: wrong grouping against {%s}", op, describeRbp(rb), strings.Join(wrong, ", ")))
		}
	}
	// the expression entry point parses at the lowest operator level so that every operator can start
	if ex := p.LangFunc("(*Parser).expression"); ex != nil {
		okEntry := false
		for _, call := range callsIn(ex) {
			if call.Common().StaticCallee() == m.Climb {
				if k, ok := constInt(call.Common().Args[1]); ok {
					minPrec := int64(1 << 30)
					for _, tag := range infixOps {
						if r := m.ByTag[tag]; r != nil && r.Prec < minPrec {
							minPrec = r.Prec
						}
					}
					okEntry = m.absorbs(k, minPrec) && k > 0
					c.check(okEntry, "R2", "expression-entry", p.InstrPos(call), fmt.Sprintf("expression() climbs from %d: admits every infix operator and stops at tokens without a row (prec 0)", k), fmt.Sprintf("expression() climbs from %d: some infix operators are never accepted, or tokens without a table row are treated as operators", k))
				}
			}
		}
	} else {
		c.undecided("R2", "expression-entry", "", "anchor (*Parser).expression not found")
	}
	c.Analysed["matrix_cells"] = cells
	c.Analysed["matrix_cells_disagreeing"] = bad

	c06R3(c, m)
	c06R4(c, m)
}

func describeRbp(r rbp) string {
	switch r.Kind {
	case rbpOwn:
		if r.K == 0 {
			return "own precedence"
		}
		return fmt.Sprintf("own precedence %+d", r.K)
	case rbpConst:
		return fmt.Sprintf("constant precedence %d", r.K)
	case rbpDelimited:
		return "delimited (full expression up to a closing token)"
	}
	if r.Why != "" {
		return "none (" + r.Why + ")"
	}
	return "none"
}

var assignTokens = []string{"Equal", "PlusEqual", "MinusEqual", "MultiplyEqual", "DivideEqual"}
var compoundOracle = map[string]string{"PlusEqual": "Plus", "MinusEqual": "Minus", "MultiplyEqual": "Multiply", "DivideEqual": "Divide"}

// R3 assignment-shape
func c06R3(c *Ctx, m *prattModel) {
	p := c.P
	c.note("R3 assignment-shape: each of = += -= *= /= is routed to an infix parselet that (i) validates its target with an allow-list (identifier, member, index) before consuming the operator and (ii) parses the right side at its own precedence (right-to-left); compound forms build `left = left OP right` with OP from the table += -> +, -= -> -, *= -> *, /= -> /.")
	for _, tag := range assignTokens {
		r := m.ByTag[tag]
		if r == nil || r.Infix == nil {
			c.violated("R3", "assign-token "+tag, "", "no infix parselet")
			continue
		}
		acc := assignTargetAcceptance(p, r.Infix)
		bad := acc.bad()
		if acc.undecided != "" {
			c.undecided("R3", "target-validation "+tag, p.Pos(r.Infix.Pos()), acc.undecided)
		} else if len(bad) > 0 {
			c.violated("R3", "target-validation "+tag, p.Pos(r.Pos), fmt.Sprintf("token %s is routed to %s, which accepts as assignment target: %s", tag, shortName(r.Infix), strings.Join(bad, ", ")))
		} else {
			c.ok("R3", "target-validation "+tag, p.Pos(r.Pos), shortName(r.Infix)+" accepts only identifiers and member/index expressions")
		}
	}
	// desugaring table
	rw := findCompoundRewriter(p, m)
	if rw == nil {
		c.undecided("R3", "desugar-table", "", "no function reachable from the compound-assignment parselet maps the four compound operator tokens to their binary operators")
		return
	}
	table, tpos, problem := tagSwitchTable(rw, m.TagNames)
	if problem != "" {
		c.undecided("R3", "desugar-table", p.Pos(rw.Pos()), problem)
		return
	}
	for from, want := range compoundOracle {
		got := table[from]
		c.check(got == want, "R3", "desugar "+from, tpos(p), from+" -> "+got, fmt.Sprintf("%s is rewritten with operator %q, the statement requires %s", from, got, want))
	}
	// callers pass only the four compound tokens (panic default unreachable: C01/R5)
	// shape of the built node: outer Equal, Left = left, Right = inner{Left: left, Right: right, Op}
	shapeOK, why := compoundShape(rw)
	c.check(shapeOK, "R3", "desugar-shape", p.Pos(rw.Pos()), "builds ExprBinary{left, ExprBinary{left, right, OP}, Equal}", why)
}

// tagSwitchTable extracts, from a function that switches on a TokenTag value and assigns a
// TokenTag constant per case, the map case-constant -> assigned constant (a phi of constants
// whose incoming edges carry `tag == K` facts).
func tagSwitchTable(fn *ssa.Function, tagNames map[int64]string) (map[string]string, func(*Program) string, string) {
	F := FactsOf(fn)
	out := map[string]string{}
	var pos token.Pos
	found := false
	allInstrs(fn, func(in ssa.Instruction) {
		phi, ok := in.(*ssa.Phi)
		if !ok || !isLangNamed(phi.Type(), "TokenTag") || found {
			return
		}
		for i, e := range phi.Edges {
			k, ok := constInt(e)
			if !ok {
				return
			}
			pred := phi.Block().Preds[i]
			for _, r := range F.OnEdge(pred, phi.Block()).Rels() {
				if r.op != relEQ {
					continue
				}
				if kk, ok := constInt(r.y); ok && isLangNamed(r.x.Type(), "TokenTag") {
					out[tagNames[kk]] = tagNames[k]
				}
			}
		}
		found = true
		pos = phi.Pos()
	})
	if !found {
		return nil, nil, "no TokenTag-valued merge of constants found in " + shortName(fn)
	}
	return out, func(p *Program) string {
		if pos.IsValid() {
			return p.Pos(pos)
		}
		return p.Pos(fn.Pos())
	}, ""
}

// findCompoundRewriter: the function, in the private cluster of a compound-assignment parselet, that
// switches on the operator token and yields the binary operator (found by that shape, not by name).
func findCompoundRewriter(p *Program, m *prattModel) *ssa.Function {
	seen := map[*ssa.Function]bool{}
	for _, tag := range assignTokens {
		r := m.ByTag[tag]
		if r == nil || r.Infix == nil || compoundOracle[tag] == "" {
			continue
		}
		for _, g := range p.privateCluster(r.Infix) {
			if seen[g] {
				continue
			}
			seen[g] = true
			if table, _, problem := tagSwitchTable(g, m.TagNames); problem == "" && len(table) >= 4 {
				return g
			}
		}
	}
	return nil
}

func compoundShape(fn *ssa.Function) (bool, string) {
	// find the two ExprBinary allocations
	var allocs []*ssa.Alloc
	allInstrs(fn, func(in ssa.Instruction) {
		if a, ok := in.(*ssa.Alloc); ok && isLangNamed(a.Type(), "ExprBinary") {
			allocs = append(allocs, a)
		}
	})
	if len(allocs) != 2 {
		return false, fmt.Sprintf("expected two ExprBinary nodes, found %d", len(allocs))
	}
	fieldStore := func(a *ssa.Alloc, field string) ssa.Value {
		var v ssa.Value
		for _, r := range referrersOf(a) {
			fa, ok := r.(*ssa.FieldAddr)
			if !ok {
				continue
			}
			if sf, ok := fieldOfAddr(fa); ok && sf.Name == field {
				for _, rr := range referrersOf(fa) {
					if st, ok := rr.(*ssa.Store); ok && st.Addr == fa {
						v = st.Val
					}
				}
			}
		}
		return v
	}
	// the two operand parameters: the Expr-typed ones, in order (a receiver may or may not be there)
	var operands []*ssa.Parameter
	for _, prm := range fn.Params {
		if isLangNamed(prm.Type(), "Expr") {
			operands = append(operands, prm)
		}
	}
	if len(operands) != 2 {
		return false, "unexpected signature"
	}
	left, right := operands[0], operands[1]
	var outer, inner *ssa.Alloc
	for _, a := range allocs {
		rv := fieldStore(a, "Right")
		if mi, ok := rv.(*ssa.MakeInterface); ok {
			for _, b := range allocs {
				if mi.X == b && b != a {
					outer, inner = a, b
				}
			}
		}
	}
	if outer == nil {
		return false, "no ExprBinary whose Right is the other ExprBinary"
	}
	if fieldStore(outer, "Left") != ssa.Value(left) {
		return false, "outer Left is not the assignment target"
	}
	if fieldStore(inner, "Left") != ssa.Value(left) {
		return false, "inner Left is not the assignment target: `a OP= b` would not read `a`"
	}
	if fieldStore(inner, "Right") != ssa.Value(right) {
		return false, "inner Right is not the right operand"
	}
	// outer OpToken.Tag must be the constant Equal: check the local Token alloc stored
	return true, ""
}

// ---- assignment target acceptance (shared with C11/R3) -----------------------------------

type targetAcceptance struct {
	perType   map[string]string // Expr type name -> "reject" | "accept" | "accept-if-member-or-index" | "accept-conditionally"
	undecided string
}

func (a targetAcceptance) bad() []string {
	var out []string
	for t, v := range a.perType {
		switch {
		case v == "reject":
		case v == "accept" && t == "ExprIdentifier":
		case v == "accept-if-member-or-index" && t == "ExprBinary":
		default:
			out = append(out, "*"+t+" ("+v+")")
		}
	}
	sort.Strings(out)
	return out
}

// exprImplementors lists the struct types of package lang whose pointer type implements the
// named interface (Expr / Statement).
func exprImplementors(p *Program, iface string) []string {
	scope := p.Lang.Types.Scope()
	io := scope.Lookup(iface)
	if io == nil {
		return nil
	}
	it, ok := io.Type().Underlying().(*types.Interface)
	if !ok {
		return nil
	}
	var out []string
	for _, n := range scope.Names() {
		tn, ok := scope.Lookup(n).(*types.TypeName)
		if !ok || tn.IsAlias() {
			continue
		}
		if _, isStruct := tn.Type().Underlying().(*types.Struct); !isStruct {
			continue
		}
		if types.Implements(types.NewPointer(tn.Type()), it) {
			out = append(out, n)
		}
	}
	sort.Strings(out)
	return out
}

// assignTargetAcceptance decides, for the infix parselet f, which Expr node types it lets through
// as the left operand before it consumes the operator token.
func assignTargetAcceptance(p *Program, f *ssa.Function) targetAcceptance {
	res := targetAcceptance{perType: map[string]string{}}
	types_ := exprImplementors(p, "Expr")
	if len(types_) < 8 {
		res.undecided = fmt.Sprintf("found %d implementations of Expr, 9 confirmed by hand", len(types_))
		return res
	}
	if len(f.Params) < 2 {
		res.undecided = "parselet has no left-operand parameter"
		return res
	}
	left := f.Params[1]
	// the first operator-consuming call
	var consume ssa.Instruction
	for _, c := range callsIn(f) {
		if staticCalleeIs(c, "(*lang.Parser).advance") || staticCalleeIs(c, "(*lang.Parser).consume") {
			if consume == nil || dominatesInstr(c, consume) {
				consume = c
			}
		}
	}
	if consume == nil {
		res.undecided = "parselet does not consume a token"
		return res
	}
	cases := typeCasesOn(f, left)
	F := FactsOf(f)
	if len(cases) == 0 {
		// the validation is a predicate helper: ok(left) holds where the operator is consumed
		for _, call := range callsIn(f) {
			g := call.Common().StaticCallee()
			cv, isVal := call.(*ssa.Call)
			if g == nil || !isVal || !p.InLang(g) || len(g.Blocks) == 0 || g.Signature.Results().Len() != 1 || !isBoolType(g.Signature.Results().At(0).Type()) {
				continue
			}
			j := -1
			for i, a := range call.Common().Args {
				if a == ssa.Value(left) {
					j = i
				}
			}
			if j < 0 || j >= len(g.Params) {
				continue
			}
			if known, val := F.At(consume.Block()).Truth(cv); !known || !val {
				continue
			}
			res = predicateAcceptance(p, g, g.Params[j], types_)
			for _, rc := range p.successResults(f) {
				if known, val := F.At(rc.Ret.Block()).Truth(cv); !known || !val {
					res.perType["any node (the successful return at "+p.InstrPos(rc.Ret)+" is not under "+shortName(g)+"(left))"] = "accept"
				}
			}
			return res
		}
	}
	// the validation comes first: its first type test dominates the consumption of the operator and
	// every successful return (a return that precedes it hands out an unvalidated node)
	if len(cases) > 0 {
		first := cases[0]
		for _, x := range cases {
			if x.Assert.Block().Dominates(first.Assert.Block()) {
				first = x
			}
		}
		if !dominatesInstr(first.Assert, consume) {
			for _, rc := range p.successResults(f) {
				if !dominatesInstr(first.Assert, rc.Ret) {
					res.perType["any node (the successful return at "+p.InstrPos(rc.Ret)+" is not preceded by the target validation)"] = "accept"
				}
			}
		}
	}
	for _, tn := range types_ {
		// which case does *tn take? the first assertion (in dominance order) on that exact type
		var tc *typeCase
		for i := range cases {
			if cases[i].TypeName == tn {
				if tc == nil || cases[i].Assert.Block().Dominates(tc.Assert.Block()) {
					tc = &cases[i]
				}
			}
		}
		if tc == nil {
			// no case for this type: falls to default / past the switch. Is consume reachable
			// from the end of the chain? If the chain's final false edge leads to an error return
			// (default: reject) the consume is unreachable from there.
			if len(cases) == 0 {
				res.perType[tn] = "accept"
				continue
			}
			// last assertion in the chain: the one that does not dominate any other
			last := cases[0]
			for _, x := range cases {
				if last.Assert.Block().Dominates(x.Assert.Block()) {
					last = x
				}
			}
			// the If testing the last assertion
			var lastIf *ssa.If
			for _, r := range referrersOf(last.Assert) {
				if ex, ok := r.(*ssa.Extract); ok && ex.Index == 1 {
					for _, rr := range referrersOf(ex) {
						if x, ok := rr.(*ssa.If); ok {
							lastIf = x
						}
					}
				}
			}
			if lastIf == nil {
				res.undecided = "type switch chain not understood"
				return res
			}
			def := lastIf.Block().Succs[1]
			if reachableFrom([]*ssa.BasicBlock{def}, nil)[consume.Block()] {
				res.perType[tn] = "accept"
			} else {
				res.perType[tn] = "reject"
			}
			continue
		}
		region := caseRegion(*tc)
		// edges leaving the case body towards the operator consumption
		reachConsume := false
		allGuarded := true
		tv := typeCaseValue(*tc)
		for b := range region {
			for _, s := range b.Succs {
				if region[s] && !(s == consume.Block()) {
					continue
				}
				if !(s == consume.Block() || reachableFrom([]*ssa.BasicBlock{s}, nil)[consume.Block()]) {
					continue
				}
				if region[s] {
					continue
				}
				reachConsume = true
				// is this edge guarded by OpToken.Tag == Dot / LSquare on the asserted value?
				guarded := false
				for _, r := range F.OnEdge(b, s).Rels() {
					if r.op != relEQ {
						continue
					}
					k, ok := constInt(r.y)
					if !ok {
						continue
					}
					name := constNames(p.Lang.Types, "TokenTag")[k]
					if name != "Dot" && name != "LSquare" {
						continue
					}
					if derivesFrom(r.x, func(x ssa.Value) bool { return x == tv }, 0) {
						if sf, ok := loadedField(r.x); ok && sf.Name == "Tag" {
							guarded = true
						}
					}
				}
				if !guarded {
					allGuarded = false
				}
			}
		}
		if consume.Block() != nil && region[consume.Block()] {
			reachConsume, allGuarded = true, false
		}
		switch {
		case !reachConsume:
			res.perType[tn] = "reject"
		case allGuarded:
			res.perType[tn] = "accept-if-member-or-index"
		default:
			res.perType[tn] = "accept"
		}
	}
	return res
}

// predicateAcceptance: g(expr) bool is the target validation; per Expr type, can it return true?
// The leaves of the returned boolean are followed through the phi of the return block: a leaf
// `false` rejects, a leaf `true` accepts (guarded when the edge carries OpToken.Tag == Dot /
// LSquare on the asserted node), a leaf that is itself that comparison accepts member / index.
func predicateAcceptance(p *Program, g *ssa.Function, subject ssa.Value, types_ []string) targetAcceptance {
	res := targetAcceptance{perType: map[string]string{}}
	cases := typeCasesOn(g, subject)
	if len(cases) == 0 {
		res.undecided = "the validation predicate " + shortName(g) + " has no type switch on its argument"
		return res
	}
	F := FactsOf(g)
	tagNames := constNames(p.Lang.Types, "TokenTag")
	isMemberTest := func(r rel, tv ssa.Value) bool {
		if r.op != relEQ {
			return false
		}
		k, ok := constInt(r.y)
		if !ok {
			return false
		}
		if n := tagNames[k]; n != "Dot" && n != "LSquare" {
			return false
		}
		if !derivesFrom(r.x, func(x ssa.Value) bool { return x == tv }, 0) {
			return false
		}
		sf, ok := loadedField(r.x)
		return ok && sf.Name == "Tag"
	}
	type leaf struct {
		at    *ssa.BasicBlock // the block the leaf belongs to (the predecessor for a phi edge)
		facts factSet
		v     ssa.Value
	}
	var leaves []leaf
	var expand func(v ssa.Value, at *ssa.BasicBlock, fs factSet, d int)
	expand = func(v ssa.Value, at *ssa.BasicBlock, fs factSet, d int) {
		if ph, ok := v.(*ssa.Phi); ok && d < 4 {
			for i, e := range ph.Edges {
				pred := ph.Block().Preds[i]
				expand(e, pred, F.OnEdge(pred, ph.Block()), d+1)
			}
			return
		}
		leaves = append(leaves, leaf{at, fs, v})
	}
	for _, r := range returnsOf(g) {
		expand(effectiveResults(r)[0], r.Block(), F.At(r.Block()), 0)
	}
	regionOf := map[string]map[*ssa.BasicBlock]bool{}
	tvOf := map[string]ssa.Value{}
	for _, tn := range types_ {
		var tc *typeCase
		for i := range cases {
			if cases[i].TypeName == tn && (tc == nil || cases[i].Assert.Block().Dominates(tc.Assert.Block())) {
				tc = &cases[i]
			}
		}
		if tc != nil {
			regionOf[tn] = caseRegion(*tc)
			tvOf[tn] = typeCaseValue(*tc)
		}
	}
	for _, tn := range types_ {
		verdict := "reject"
		for _, lf := range leaves {
			if k, ok := lf.v.(*ssa.Const); ok && k.Value != nil && k.Value.Kind() == constant.Bool && !constant.BoolVal(k.Value) {
				continue
			}
			// does the leaf apply to this type?
			inOther := false
			for other, reg := range regionOf {
				if other != tn && reg[lf.at] {
					inOther = true
				}
			}
			if reg, has := regionOf[tn]; has {
				if !reg[lf.at] {
					// outside the type's own case: reachable for it only past the switch; a leaf in
					// another type's case is not, one in no case at all is judged conservatively
					if inOther {
						continue
					}
					if !reachableFrom([]*ssa.BasicBlock{caseEntryOf(cases, tn)}, nil)[lf.at] {
						continue
					}
				}
			} else if inOther {
				continue
			}
			guarded := false
			if tv := tvOf[tn]; tv != nil {
				for _, r := range lf.facts.Rels() {
					if isMemberTest(r, tv) {
						guarded = true
					}
				}
				if b, ok := lf.v.(*ssa.BinOp); ok {
					if r, ok := relsOf(fact{b, true}); ok && isMemberTest(r, tv) {
						guarded = true
					}
				}
			}
			if guarded {
				if verdict == "reject" {
					verdict = "accept-if-member-or-index"
				}
			} else {
				verdict = "accept"
			}
		}
		res.perType[tn] = verdict
	}
	return res
}

func isBoolType(T types.Type) bool {
	b, ok := T.Underlying().(*types.Basic)
	return ok && b.Info()&types.IsBoolean != 0
}

func caseEntryOf(cases []typeCase, tn string) *ssa.BasicBlock {
	var tc *typeCase
	for i := range cases {
		if cases[i].TypeName == tn && (tc == nil || cases[i].Assert.Block().Dominates(tc.Assert.Block())) {
			tc = &cases[i]
		}
	}
	if tc == nil {
		return nil
	}
	return tc.Entry
}

// R4 grouping-parens
func c06R4(c *Ctx, m *prattModel) {
	p := c.P
	c.note("R4 grouping-parens: the prefix parselet of '(' parses a full expression(), requires ')' and returns the inner node itself.")
	r := m.ByTag["LParen"]
	if r == nil || r.Prefix == nil {
		c.violated("R4", "group", "", "no prefix parselet for '('")
		return
	}
	g := r.Prefix
	var exprCall *ssa.Call
	findInner := func() {
		exprCall = nil
		for _, call := range callsIn(g) {
			if staticCalleeIs(call, "(*lang.Parser).expression") {
				exprCall, _ = call.(*ssa.Call)
			}
		}
	}
	findInner()
	// the parselet may hand over to a helper of its own in tail position (`return p.expressionThen(RParen)`):
	// the helper is judged instead, with its token-tag parameters bound to the constants passed
	tagArg := map[*ssa.Parameter]int64{}
	if exprCall == nil {
		for _, rc := range returnsOf(g) {
			res := effectiveResults(rc)
			if len(res) == 0 {
				continue
			}
			ex, ok := res[0].(*ssa.Extract)
			if !ok {
				continue
			}
			tc, ok := ex.Tuple.(*ssa.Call)
			if !ok {
				continue
			}
			h := tc.Call.StaticCallee()
			if h == nil || !p.InLang(h) || len(h.Blocks) == 0 || h == g || len(h.Params) != len(tc.Call.Args) {
				continue
			}
			for i, a := range tc.Call.Args {
				if k, ok := constInt(a); ok {
					tagArg[h.Params[i]] = k
				}
			}
			g = h
			findInner()
			break
		}
	}
	if exprCall == nil {
		c.violated("R4", "group-inner", p.Pos(g.Pos()), "the grouping parselet does not parse a full expression()")
		return
	}
	// consume(RParen) after the expression
	closes := false
	rparen := int64(-1)
	for v, n := range m.TagNames {
		if n == "RParen" {
			rparen = v
		}
	}
	for _, call := range callsIn(g) {
		if staticCalleeIs(call, "(*lang.Parser).consume") && dominatesInstr(exprCall, call) {
			if tagsOfConsume(call)[rparen] {
				closes = true
			}
			for prm := range tagParamsOfConsume(call) {
				if k, ok := tagArg[prm]; ok && k == rparen {
					closes = true
				}
			}
		}
	}
	c.check(closes, "R4", "group-close", p.Pos(g.Pos()), "')' is required after the inner expression", "the grouping parselet does not require ')' after the inner expression")
	// success return returns the inner expression value itself
	okRet := false
	for _, ret := range returnsOf(g) {
		res := effectiveResults(ret)
		if ex, ok := res[0].(*ssa.Extract); ok && ex.Tuple == ssa.Value(exprCall) && ex.Index == 0 {
			okRet = true
		}
	}
	c.check(okRet, "R4", "group-returns-inner", p.Pos(g.Pos()), "returns the inner node unchanged", "the grouping parselet does not return the inner node itself")
}

// tagParamsOfConsume: the parameters of the enclosing function passed as tags to a consume(tags...) call.
func tagParamsOfConsume(call ssa.CallInstruction) map[*ssa.Parameter]bool {
	out := map[*ssa.Parameter]bool{}
	args := call.Common().Args
	if len(args) < 2 {
		return out
	}
	sl, ok := args[1].(*ssa.Slice)
	if !ok {
		return out
	}
	arr, ok := sl.X.(*ssa.Alloc)
	if !ok {
		return out
	}
	for _, r := range referrersOf(arr) {
		if ia, ok := r.(*ssa.IndexAddr); ok {
			for _, rr := range referrersOf(ia) {
				if st, ok := rr.(*ssa.Store); ok {
					if prm, ok := st.Val.(*ssa.Parameter); ok {
						out[prm] = true
					}
				}
			}
		}
	}
	return out
}

// tagsOfConsume: the TokenTag constants passed to a consume(tags...) call.
func tagsOfConsume(call ssa.CallInstruction) map[int64]bool {
	out := map[int64]bool{}
	args := call.Common().Args
	if len(args) < 2 {
		return out
	}
	// variadic: slice of a local array; find stores into it
	sl, ok := args[1].(*ssa.Slice)
	if !ok {
		return out
	}
	arr, ok := sl.X.(*ssa.Alloc)
	if !ok {
		return out
	}
	for _, r := range referrersOf(arr) {
		if ia, ok := r.(*ssa.IndexAddr); ok {
			for _, rr := range referrersOf(ia) {
				if st, ok := rr.(*ssa.Store); ok {
					if k, ok := constInt(st.Val); ok {
						out[k] = true
					}
				}
			}
		}
	}
	return out
}

// prattParselets: the right binding power of every parselet and the operand-bypass rule (R1)
func prattParselets(c *Ctx, m *prattModel) {
	p := c.P
	for f, r := range m.Rbp {
		for _, ret := range m.operandBypass(p, f, r) {
			c.violated("R1", "rbp-bypass "+shortName(f), p.InstrPos(ret), "this parselet can return a node without having parsed its operand through the precedence-climbing function: on that path the operand is taken with a different binding power, so the grouping matrix does not describe it (e.g. a suffix then attaches to the whole prefix expression)")
		}
		if strings.HasPrefix(r.Why, "UNDECIDED") {
			c.undecided("R1", "rbp "+shortName(f), p.Pos(f.Pos()), r.Why)
		} else {
			c.ok("R1", "rbp "+shortName(f), p.Pos(f.Pos()), describeRbp(r))
		}
	}
}

// infixOnlyFromLoop: an infix parselet is entered only through the table, from the climbing loop,
// which has compared the operator's precedence with the caller's minimum first. A direct call from
// anywhere else (a prefix parselet taking a following `=` itself, say) applies the operator without
// that comparison: the operator then binds to the nearest operand whatever operator encloses it.
// Delegation between infix parselets (one handing its own left operand on) stays inside the loop's
// decision and is accepted.
func infixOnlyFromLoop(c *Ctx, m *prattModel) {
	p := c.P
	infix := map[*ssa.Function]bool{}
	for _, r := range m.Rows {
		if r.Infix != nil {
			infix[r.Infix] = true
		}
	}
	n := 0
	for _, fn := range p.Funcs {
		if !p.InLang(fn) {
			continue
		}
		for _, b := range fn.Blocks {
			for _, in := range b.Instrs {
				call, ok := in.(ssa.CallInstruction)
				if !ok {
					continue
				}
				callee := call.Common().StaticCallee()
				if callee == nil || !infix[callee] {
					continue
				}
				n++
				root := fn
				for root.Parent() != nil {
					root = root.Parent()
				}
				if infix[root] {
					c.ok("R1", "infix-entry "+shortName(callee)+" from "+shortName(fn), p.InstrPos(in), "delegation between infix parselets: still inside the loop's decision")
					continue
				}
				c.violated("R1", "infix-entry "+shortName(callee)+" from "+shortName(fn), p.InstrPos(in), "the infix parselet "+shortName(callee)+" is called directly, not through the operator table by the climbing loop: the operator is applied without comparing its precedence with the enclosing operator's, so it binds to the nearest operand (`a && b = 5` assigns to b) and the grouping matrix does not describe the parser")
			}
		}
	}
	c.ok("R1", "infix-entry", p.Pos(m.LoopPos), fmt.Sprintf("infix parselets are entered only through the table (%d direct calls examined)", n))
}

// leftOperandPassthrough: an infix parselet builds its node around the left operand it was given
func leftOperandPassthrough(c *Ctx, m *prattModel) {
	p := c.P
	c.note("R5 left-operand-passthrough: the climbing loop hands each infix parselet the expression parsed so far; the grouping matrix assumes that this expression becomes, unchanged, the left child of the node the parselet returns. Obligation per infix parselet and successful return: the returned node has a field that is stored exactly the `left` parameter, or is the result of a helper that is passed `left` (a parselet that takes its left operand apart and re-nests it groups differently from what the precedences say).")
	seen := map[*ssa.Function]bool{}
	for _, r := range m.Rows {
		f := r.Infix
		if f == nil || seen[f] {
			continue
		}
		seen[f] = true
		if len(f.Params) < 2 {
			c.undecided("R5", "left-operand "+shortName(f), p.Pos(f.Pos()), "infix parselet without a left-operand parameter")
			continue
		}
		left := f.Params[1]
		n := 0
		for _, rc := range p.successResults(f) {
			n++
			v := effectiveResults(rc.Ret)[0]
			for {
				if mi, ok := v.(*ssa.MakeInterface); ok {
					v = mi.X
					continue
				}
				break
			}
			okPass := false
			switch x := v.(type) {
			case *ssa.Alloc:
				for _, ref := range referrersOf(x) {
					fa, ok := ref.(*ssa.FieldAddr)
					if !ok {
						continue
					}
					for _, rr := range referrersOf(fa) {
						if st, ok := rr.(*ssa.Store); ok && st.Val == ssa.Value(left) {
							okPass = true
						}
					}
				}
			case *ssa.Extract:
				if call, ok := x.Tuple.(*ssa.Call); ok {
					for _, a := range call.Call.Args {
						if a == ssa.Value(left) {
							okPass = true
						}
					}
				}
			case *ssa.Call:
				for _, a := range x.Call.Args {
					if a == ssa.Value(left) {
						okPass = true
					}
				}
			}
			c.check(okPass, "R5", fmt.Sprintf("left-operand %s return#%d", shortName(f), n), p.InstrPos(rc.Ret), "the node is built around the given left operand", "this return of "+shortName(f)+" yields "+abbrev(rc.Value, 120)+", which does not have the given left operand as a child: the parselet re-nests what was already parsed, so the expression no longer means its fully parenthesised form")
		}
		if n == 0 {
			c.undecided("R5", "left-operand "+shortName(f), p.Pos(f.Pos()), "no successful return found")
		}
	}
}

func abbrev(s string, n int) string {
	if len(s) > n {
		return s[:n] + "…"
	}
	return s
}

// prefixOperatorShape: a prefix operator applies to the operand that follows it, one operator per
// parselet activation (a run `-!x` nests by recursion: the operand of `-` is the unary level, which
// parses `!x`).
func prefixOperatorShape(c *Ctx, m *prattModel) {
	p := c.P
	c.note("R8 prefix-operator-shape: the prefix parselet of ! - + ++ -- consumes exactly one operator token, outside any loop, then parses its operand once from the unary level, and returns exactly ExprUnary{Expr: that operand, OpToken: the consumed token (read before the operand is parsed), Postfix: false}. A parselet that collects a run of operators and wraps them afterwards applies them in the wrong order (-!x as !(-x)).")
	seen := map[*ssa.Function]bool{}
	n := 0
	for _, tag := range []string{"Bang", "Minus", "Plus", "PlusPlus", "MinusMinus"} {
		r := m.ByTag[tag]
		if r == nil || r.Prefix == nil {
			c.violated("R8", "prefix-operator "+tag, "", "no prefix parselet")
			continue
		}
		f := r.Prefix
		if seen[f] {
			continue
		}
		seen[f] = true
		n++
		key := "prefix-shape " + shortName(f)
		var adv, operand []*ssa.Call
		for _, call := range callsIn(f) {
			cv, ok := call.(*ssa.Call)
			if !ok {
				continue
			}
			if staticCalleeIs(cv, "(*lang.Parser).advance") || staticCalleeIs(cv, "(*lang.Parser).consume") || isConsumedTokenHelper(cv.Call.StaticCallee()) {
				adv = append(adv, cv)
			}
			if cv.Call.StaticCallee() == m.Climb || staticCalleeIs(cv, "(*lang.Parser).expression") {
				operand = append(operand, cv)
			}
		}
		inLoop := func(in ssa.Instruction) bool { return reachableFrom(in.Block().Succs, nil)[in.Block()] }
		if len(adv) != 1 || len(operand) != 1 || inLoop(adv[0]) || inLoop(operand[0]) {
			c.violated("R8", key, p.Pos(f.Pos()), fmt.Sprintf("the prefix parselet consumes %d tokens and parses %d operands (or does so in a loop): one operator, one operand per activation is required", len(adv), len(operand)))
			continue
		}
		opText := "*p.previous"
		// the operator token is read between the consumption and the operand (or is the result of a
		// consume-and-return helper that precedes the operand)
		okRead := false
		if isConsumedTokenHelper(adv[0].Call.StaticCallee()) {
			opText = p.Render(adv[0]) + "#0"
			okRead = dominatesInstr(adv[0], operand[0])
		}
		want := "&lang.ExprUnary{Expr: " + p.Render(operand[0]) + "#0, OpToken: " + opText + ", Postfix: false}"
		var got []string
		for _, rc := range p.successResults(f) {
			got = append(got, rc.Value)
		}
		okShape := len(got) == 1 && got[0] == want
		if !okShape && len(got) == 1 && got[0] == strings.Replace(want, "OpToken: *p.previous", "OpToken: *p.current", 1) {
			// the operator token copied from the cursor before it is consumed: the same token
			allInstrs(f, func(in ssa.Instruction) {
				if u, ok := in.(*ssa.UnOp); ok && u.Op == token.MUL && p.Render(u) == "*p.current" && beforeAnyCursorMove(f, u) {
					okShape, okRead = true, true
				}
			})
		}
		allInstrs(f, func(in ssa.Instruction) {
			u, ok := in.(*ssa.UnOp)
			if !ok || u.Op != token.MUL {
				return
			}
			if p.Render(u) == "*p.previous" && dominatesInstr(adv[0], u) && dominatesInstr(u, operand[0]) {
				okRead = true
			}
		})
		c.check(okShape && okRead, "R8", key, p.Pos(f.Pos()), want, "the prefix parselet returns {"+strings.Join(got, " ; ")+"}; required: "+want+" with the operator token read after its consumption and before the operand is parsed")
	}
	if n == 0 {
		c.undecided("R8", "prefix-shape", "", "no prefix operator parselet found")
	}
}

// parserStateSteering: parsing an expression depends on the tokens ahead and the precedence handed
// down, not on a memory of what was parsed before.
var parserStateFields = map[string]string{
	"lexer":           "the token source",
	"current":         "the token cursor",
	"previous":        "the token cursor",
	"rules":           "the operator table",
	"didEndStatement": "statement end already consumed (C13/R6)",
	"inFunction":      "return only inside a function (C01/R2 scope agreement)",
	"inLoop":          "break / continue only inside a loop (C01/R2 scope agreement)",
}

func parserStateSteering(c *Ctx, m *prattModel) {
	p := c.P
	c.note("R9 parser-state-steering: the only Parser fields that decide a branch anywhere in the parser are the token cursor (current, previous), the operator table (rules) and the three statement-context flags (didEndStatement, inFunction, inLoop — each covered by its own rule). A branch on any other Parser field (a nesting counter, a mode flag) makes the parse of an expression depend on what was parsed before it: `(a) + (b)` and `a + b` can then differ, which the grouping matrix cannot see.")
	n := 0
	for _, fn := range p.Funcs {
		if !p.InLang(fn) || p.inTestFile(fn) {
			continue
		}
		allInstrs(fn, func(in ssa.Instruction) {
			ifi, ok := in.(*ssa.If)
			if !ok {
				return
			}
			// loads of Parser fields feeding the condition
			var visit func(v ssa.Value, d int)
			seen := map[ssa.Value]bool{}
			visit = func(v ssa.Value, d int) {
				if d > 6 || seen[v] {
					return
				}
				seen[v] = true
				switch x := v.(type) {
				case *ssa.BinOp:
					visit(x.X, d+1)
					visit(x.Y, d+1)
				case *ssa.UnOp:
					if x.Op == token.MUL {
						if sf, ok := fieldOfAddr(x.X); ok && sf.Struct != nil && sf.Struct.Obj().Name() == "Parser" {
							n++
							if _, known := parserStateFields[sf.Name]; !known {
								c.violated("R9", "parser-state "+sf.Name+" in "+shortName(fn), p.InstrPos(ifi), "a branch of the parser depends on Parser."+sf.Name+", which is neither the token cursor, the operator table nor one of the statement-context flags: the parse depends on history")
							}
							return
						}
					}
					visit(x.X, d+1)
				case *ssa.Phi:
					for _, e := range x.Edges {
						visit(e, d+1)
					}
				case *ssa.Convert:
					visit(x.X, d+1)
				case *ssa.ChangeType:
					visit(x.X, d+1)
				case *ssa.FieldAddr:
					visit(x.X, d+1)
				case *ssa.Field:
					visit(x.X, d+1)
				}
			}
			visit(ifi.Cond, 0)
		})
	}
	if n < 10 {
		c.undecided("R9", "parser-state instance-floor", "", fmt.Sprintf("%d branches on Parser fields found, 20 expected", n))
	} else {
		c.ok("R9", "parser-state", "", fmt.Sprintf("%d branches read Parser fields, all from the allowed set", n))
	}
}

package main

// S1: loading /repo's current working tree: go/packages -> type-checked AST -> go/ssa
// + call graph. Nothing is cached between runs.

import (
	"fmt"
	"go/ast"
	"go/token"
	"go/types"
	"os"
	"path/filepath"
	"sort"
	"strings"

	"golang.org/x/tools/go/callgraph"
	"golang.org/x/tools/go/callgraph/cha"
	"golang.org/x/tools/go/callgraph/vta"
	"golang.org/x/tools/go/packages"
	"golang.org/x/tools/go/ssa"
	"golang.org/x/tools/go/ssa/ssautil"
)

const (
	modPath  = "github.com/alligator/jqawk"
	langPath = modPath + "/src"
	cliPath  = modPath + "/cli"
)

// LoadConfig names one build configuration of S1.
type LoadConfig struct {
	Name  string
	Tests bool
	Tags  string
	Env   []string // extra environment, e.g. GOARCH=386
}

// Program is everything the rules look at.
type Program struct {
	Cfg      LoadConfig
	RepoDir  string
	Fset     *token.FileSet
	Pkgs     []*packages.Package // module packages only
	Lang     *packages.Package
	Cli      *packages.Package
	Main     *packages.Package
	SSA      *ssa.Program
	SSAPkgs  map[string]*ssa.Package
	Funcs    []*ssa.Function // all source functions of the module, incl. anonymous, sorted
	litFunc  map[*ast.FuncLit]*ssa.Function
	declFunc map[*types.Func]*ssa.Function
	cg       *callgraph.Graph
	Stats    map[string]int
}

func repoDir() string {
	if d := os.Getenv("JQCHECK_REPO"); d != "" {
		return d
	}
	return "/repo"
}

// Load type-checks and builds SSA for the three packages of the module found in dir.
func Load(dir string, lc LoadConfig) (*Program, error) {
	env := append(os.Environ(),
		"GOFLAGS=-mod=mod", "GOPROXY=off", "GOSUMDB=off", "GOTOOLCHAIN=local", "GOWORK=off")
	env = append(env, lc.Env...)
	cfg := &packages.Config{
		Mode:  packages.LoadAllSyntax,
		Dir:   dir,
		Env:   env,
		Tests: lc.Tests,
	}
	if lc.Tags != "" {
		cfg.BuildFlags = []string{"-tags=" + lc.Tags}
	}
	initial, err := packages.Load(cfg, "./...")
	if err != nil {
		return nil, fmt.Errorf("packages.Load: %v", err)
	}
	p := &Program{Cfg: lc, RepoDir: dir, SSAPkgs: map[string]*ssa.Package{}, Stats: map[string]int{},
		litFunc: map[*ast.FuncLit]*ssa.Function{}, declFunc: map[*types.Func]*ssa.Function{}}
	var errs []string
	for _, pkg := range initial {
		for _, e := range pkg.Errors {
			errs = append(errs, fmt.Sprintf("%s: %v", pkg.PkgPath, e))
		}
		if pkg.IllTyped {
			errs = append(errs, fmt.Sprintf("%s: ill-typed", pkg.PkgPath))
		}
	}
	if len(errs) > 0 {
		return nil, fmt.Errorf("load errors (the tree does not type-check):\n  %s", strings.Join(errs, "\n  "))
	}
	prog, spkgs := ssautil.Packages(initial, ssa.InstantiateGenerics)
	p.SSA = prog
	for i, pkg := range initial {
		if !strings.HasPrefix(pkg.PkgPath, modPath) {
			continue
		}
		// with Tests:true the test variant "pkg [pkg.test]" replaces nothing: keep the
		// variant with most files under each ID
		if spkgs[i] == nil {
			return nil, fmt.Errorf("no SSA package for %s", pkg.ID)
		}
		p.Pkgs = append(p.Pkgs, pkg)
		p.SSAPkgs[pkg.ID] = spkgs[i]
		switch pkg.PkgPath {
		case langPath:
			if p.Lang == nil || len(pkg.Syntax) > len(p.Lang.Syntax) {
				p.Lang = pkg
			}
		case cliPath:
			if p.Cli == nil || len(pkg.Syntax) > len(p.Cli.Syntax) {
				p.Cli = pkg
			}
		case modPath:
			if strings.HasSuffix(pkg.ID, ".test") {
				continue
			}
			if p.Main == nil || len(pkg.Syntax) > len(p.Main.Syntax) {
				p.Main = pkg
			}
		}
	}
	if p.Lang == nil || p.Cli == nil || p.Main == nil {
		return nil, fmt.Errorf("scope: expected packages %s, %s, %s; found %d module packages", modPath, cliPath, langPath, len(p.Pkgs))
	}
	p.Fset = p.Lang.Fset
	prog.Build()

	// collect source functions
	seen := map[*ssa.Function]bool{}
	var add func(f *ssa.Function)
	add = func(f *ssa.Function) {
		if f == nil || seen[f] || f.Blocks == nil {
			return
		}
		seen[f] = true
		p.Funcs = append(p.Funcs, f)
		if lit, ok := f.Syntax().(*ast.FuncLit); ok {
			p.litFunc[lit] = f
		}
		if obj, ok := f.Object().(*types.Func); ok {
			p.declFunc[obj] = f
		}
		for _, a := range f.AnonFuncs {
			add(a)
		}
	}
	for _, sp := range p.SSAPkgs {
		for _, m := range sp.Members {
			switch m := m.(type) {
			case *ssa.Function:
				add(m)
			case *ssa.Type:
				for _, T := range []types.Type{m.Type(), types.NewPointer(m.Type())} {
					ms := prog.MethodSets.MethodSet(T)
					for i := 0; i < ms.Len(); i++ {
						f := prog.MethodValue(ms.At(i))
						if f != nil && f.Synthetic == "" {
							add(f)
						}
					}
				}
			}
		}
	}
	sort.Slice(p.Funcs, func(i, j int) bool { return p.Funcs[i].String() < p.Funcs[j].String() })
	ninstr, nblocks := 0, 0
	for _, f := range p.Funcs {
		for _, b := range f.Blocks {
			nblocks++
			ninstr += len(b.Instrs)
		}
	}
	p.Stats["packages"] = len(p.Pkgs)
	p.Stats["functions"] = len(p.Funcs)
	p.Stats["blocks"] = nblocks
	p.Stats["ssa_instructions"] = ninstr
	nfiles := 0
	for _, pkg := range p.Pkgs {
		nfiles += len(pkg.Syntax)
	}
	p.Stats["files"] = nfiles
	if p.Lang != nil {
		computeTypeAliases(p.Lang.Types)
	}
	computeFuncAliases(p)
	return p, nil
}

// InModule reports whether f is a source function of the jqawk module.
func (p *Program) InModule(f *ssa.Function) bool {
	if f == nil {
		return false
	}
	for f.Parent() != nil {
		f = f.Parent()
	}
	if f.Pkg == nil {
		if o := f.Origin(); o != nil && o.Pkg != nil {
			return strings.HasPrefix(o.Pkg.Pkg.Path(), modPath)
		}
		return false
	}
	return strings.HasPrefix(f.Pkg.Pkg.Path(), modPath)
}

func (p *Program) pkgOfFunc(f *ssa.Function) string {
	for f.Parent() != nil {
		f = f.Parent()
	}
	if f.Pkg == nil {
		return ""
	}
	return f.Pkg.Pkg.Path()
}

// InLang: function is in package lang (non-test file).
func (p *Program) InLang(f *ssa.Function) bool { return p.pkgOfFunc(f) == langPath && !p.inTestFile(f) }
func (p *Program) InCli(f *ssa.Function) bool  { return p.pkgOfFunc(f) == cliPath && !p.inTestFile(f) }

func (p *Program) inTestFile(f *ssa.Function) bool {
	pos := f.Pos()
	if !pos.IsValid() {
		return false
	}
	return strings.HasSuffix(p.Fset.Position(pos).Filename, "_test.go")
}

// Pos renders a position relative to the repo root.
func (p *Program) Pos(pos token.Pos) string {
	if !pos.IsValid() {
		return "?"
	}
	pp := p.Fset.Position(pos)
	rel, err := filepath.Rel(p.RepoDir, pp.Filename)
	if err != nil {
		rel = pp.Filename
	}
	return fmt.Sprintf("%s:%d", rel, pp.Line)
}

// InstrPos gives the best position for an instruction (falling back to neighbours in the block).
func (p *Program) InstrPos(in ssa.Instruction) string {
	if in == nil {
		return "?"
	}
	if in.Pos().IsValid() {
		return p.Pos(in.Pos())
	}
	if v, ok := in.(ssa.Value); ok {
		_ = v
	}
	// operands
	for _, op := range in.Operands(nil) {
		if *op != nil && (*op).Pos().IsValid() {
			return p.Pos((*op).Pos())
		}
	}
	b := in.Block()
	if b != nil {
		idx := -1
		for i, x := range b.Instrs {
			if x == in {
				idx = i
			}
		}
		for i := idx; i >= 0; i-- {
			if b.Instrs[i].Pos().IsValid() {
				return p.Pos(b.Instrs[i].Pos())
			}
		}
		for i := idx + 1; i < len(b.Instrs); i++ {
			if i >= 0 && b.Instrs[i].Pos().IsValid() {
				return p.Pos(b.Instrs[i].Pos())
			}
		}
	}
	if in.Parent() != nil {
		return p.Pos(in.Parent().Pos())
	}
	return "?"
}

// LangFunc finds a package-level function or method of package lang by its
// (receiver-qualified) name, e.g. "EvalProgram", "(*Evaluator).evalExpr", "(*Value).GetMember".
func (p *Program) LangFunc(name string) *ssa.Function {
	if f := p.pkgFunc(p.Lang, name); f != nil {
		return f
	}
	return aliasedFunc(canonicalFuncName("lang", name))
}
func (p *Program) CliFunc(name string) *ssa.Function {
	if f := p.pkgFunc(p.Cli, name); f != nil {
		return f
	}
	return aliasedFunc(canonicalFuncName("cli", name))
}

// canonicalFuncName: "NewEvaluator" -> "lang.NewEvaluator"; "(*Parser).advance" -> "(*lang.Parser).advance".
func canonicalFuncName(pkg, name string) string {
	if strings.HasPrefix(name, "(*") {
		return "(*" + pkg + "." + name[2:]
	}
	if strings.HasPrefix(name, "(") {
		return "(" + pkg + "." + name[1:]
	}
	return pkg + "." + name
}

// aliasedFunc: the function that goes by this (frozen) name after a rename.
func aliasedFunc(short string) *ssa.Function {
	for f, a := range funcAlias {
		if a == short {
			return f
		}
	}
	return nil
}

func (p *Program) pkgFunc(pkg *packages.Package, name string) *ssa.Function {
	sp := p.SSAPkgs[pkg.ID]
	if sp == nil {
		return nil
	}
	if strings.HasPrefix(name, "(") {
		// (*T).m or (T).m
		end := strings.Index(name, ").")
		if end < 0 {
			return nil
		}
		recv, meth := name[1:end], name[end+2:]
		ptr := strings.HasPrefix(recv, "*")
		recv = strings.TrimPrefix(recv, "*")
		tm, ok := sp.Members[recv].(*ssa.Type)
		if !ok {
			return nil
		}
		var T types.Type = tm.Type()
		if ptr {
			T = types.NewPointer(T)
		}
		sel := p.SSA.MethodSets.MethodSet(T).Lookup(pkg.Types, meth)
		if sel == nil {
			return nil
		}
		return p.SSA.MethodValue(sel)
	}
	f, _ := sp.Members[name].(*ssa.Function)
	return f
}

// FuncOfLit maps a function literal of the AST to its SSA function.
func (p *Program) FuncOfLit(l *ast.FuncLit) *ssa.Function { return p.litFunc[l] }

// FuncOfObj maps a declared function object to its SSA function.
func (p *Program) FuncOfObj(o *types.Func) *ssa.Function { return p.declFunc[o] }

// FuncDecl returns the AST declaration of a lang/cli function by name ("Parser.statement", "binary").
func (p *Program) FuncDecl(pkg *packages.Package, name string) *ast.FuncDecl {
	for _, f := range pkg.Syntax {
		if strings.HasSuffix(p.Fset.Position(f.Pos()).Filename, "_test.go") {
			continue
		}
		for _, d := range f.Decls {
			fd, ok := d.(*ast.FuncDecl)
			if !ok {
				continue
			}
			n := fd.Name.Name
			if fd.Recv != nil && len(fd.Recv.List) == 1 {
				t := fd.Recv.List[0].Type
				if st, ok := t.(*ast.StarExpr); ok {
					t = st.X
				}
				if id, ok := t.(*ast.Ident); ok {
					n = id.Name + "." + n
				}
			}
			if n == name {
				return fd
			}
		}
	}
	return nil
}

// CallGraph: static edges + VTA-resolved dynamic edges (built lazily).
func (p *Program) CallGraph() *callgraph.Graph {
	if p.cg == nil {
		all := ssautil.AllFunctions(p.SSA)
		p.cg = vta.CallGraph(all, cha.CallGraph(p.SSA))
		n := 0
		for f, node := range p.cg.Nodes {
			if p.InModule(f) {
				n += len(node.Out)
			}
		}
		p.Stats["callgraph_edges_from_module"] = n
	}
	return p.cg
}

// Callees of a call instruction: the static callee, or the VTA set for dynamic calls.
func (p *Program) Callees(call ssa.CallInstruction) []*ssa.Function {
	if f := call.Common().StaticCallee(); f != nil {
		return []*ssa.Function{f}
	}
	node := p.CallGraph().Nodes[call.Parent()]
	if node == nil {
		return nil
	}
	var out []*ssa.Function
	seen := map[*ssa.Function]bool{}
	for _, e := range node.Out {
		if e.Site == call && !seen[e.Callee.Func] {
			seen[e.Callee.Func] = true
			out = append(out, e.Callee.Func)
		}
	}
	sort.Slice(out, func(i, j int) bool { return out[i].String() < out[j].String() })
	return out
}

// Callers (module functions) of f, with call sites.
func (p *Program) CallSitesOf(f *ssa.Function) []ssa.CallInstruction {
	var out []ssa.CallInstruction
	for _, g := range p.Funcs {
		for _, b := range g.Blocks {
			for _, in := range b.Instrs {
				if c, ok := in.(ssa.CallInstruction); ok {
					for _, callee := range p.Callees(c) {
						if callee == f {
							out = append(out, c)
						}
					}
				}
			}
		}
	}
	return out
}

// shortName renders a function name without the module path.
func shortName(f *ssa.Function) string {
	if f == nil {
		return "<nil>"
	}
	// a consistently renamed function goes by the name the rules know (funccanon.go); its closures too
	root := f
	for root.Parent() != nil {
		root = root.Parent()
	}
	if alias, ok := funcAlias[root]; ok {
		raw := rawShortName(f)
		return alias + strings.TrimPrefix(raw, rawShortName(root))
	}
	return rawShortName(f)
}

// namedOf returns the *types.Named behind T (through pointers), or nil.
func namedOf(T types.Type) *types.Named {
	for {
		switch t := T.(type) {
		case *types.Pointer:
			T = t.Elem()
		case *types.Named:
			return t
		case *types.Alias:
			T = types.Unalias(t)
		default:
			return nil
		}
	}
}

// isLangNamed: T (possibly behind pointers) is lang.<name>.
func isLangNamed(T types.Type, name string) bool {
	n := namedOf(T)
	return n != nil && n.Obj().Pkg() != nil && n.Obj().Pkg().Path() == langPath && canonTypeName(n.Obj()) == name
}

func isErrorType(T types.Type) bool {
	return types.Identical(T, types.Universe.Lookup("error").Type())
}

// LoadDir loads a stand-alone package directory (the positive examples under checker/testdata).
func LoadDir(dir string) (*Program, error) {
	env := append(os.Environ(), "GOFLAGS=-mod=mod", "GOPROXY=off", "GOSUMDB=off", "GOTOOLCHAIN=local", "GOWORK=off")
	cfg := &packages.Config{Mode: packages.LoadAllSyntax, Dir: dir, Env: env}
	initial, err := packages.Load(cfg, "./...")
	if err != nil {
		return nil, err
	}
	for _, pkg := range initial {
		if len(pkg.Errors) > 0 {
			return nil, fmt.Errorf("%s: %v", pkg.PkgPath, pkg.Errors[0])
		}
	}
	prog, spkgs := ssautil.Packages(initial, ssa.InstantiateGenerics)
	prog.Build()
	p := &Program{RepoDir: dir, SSA: prog, SSAPkgs: map[string]*ssa.Package{}, Stats: map[string]int{}, litFunc: map[*ast.FuncLit]*ssa.Function{}, declFunc: map[*types.Func]*ssa.Function{}}
	if len(initial) > 0 {
		p.Fset = initial[0].Fset
	}
	for i, pkg := range initial {
		p.SSAPkgs[pkg.ID] = spkgs[i]
		for _, m := range spkgs[i].Members {
			if f, ok := m.(*ssa.Function); ok && f.Blocks != nil {
				p.Funcs = append(p.Funcs, f)
				p.Funcs = append(p.Funcs, f.AnonFuncs...)
			}
		}
	}
	return p, nil
}

// privateCluster: fn together with the module functions that are only ever called from inside the
// cluster (helpers split off fn), transitively; closures are not included.
func (p *Program) privateCluster(fn *ssa.Function) []*ssa.Function {
	in := map[*ssa.Function]bool{fn: true}
	out := []*ssa.Function{fn}
	for changed := true; changed; {
		changed = false
		for _, f := range out {
			for _, call := range callsIn(f) {
				g := call.Common().StaticCallee()
				if g == nil || in[g] || !p.InModule(g) || p.inTestFile(g) || g.Parent() != nil || len(g.Blocks) == 0 {
					continue
				}
				private := true
				for _, cs := range p.CallSitesOf(g) {
					if !in[cs.Parent()] && !p.inTestFile(cs.Parent()) {
						private = false
					}
				}
				if private {
					in[g] = true
					out = append(out, g)
					changed = true
				}
			}
		}
	}
	return out
}

var clusterCache = map[*ssa.Function]map[*ssa.Function]bool{}

// inClusterOf: fn is owner or one of the helpers split off it (privateCluster).
func (p *Program) inClusterOf(owner, fn *ssa.Function) bool {
	if owner == nil || fn == nil {
		return false
	}
	m, ok := clusterCache[owner]
	if !ok {
		m = map[*ssa.Function]bool{}
		for _, g := range p.privateCluster(owner) {
			m[g] = true
		}
		clusterCache[owner] = m
	}
	return m[fn]
}

// funcByShortName finds a module function by its shortName.
func (p *Program) funcByShortName(name string) *ssa.Function {
	for _, fn := range p.Funcs {
		if shortName(fn) == name {
			return fn
		}
	}
	return nil
}

// DriverFunc: the function that runs the rules over the input — EvalProgram itself, or the helper
// split off it (a function only EvalProgram's cluster calls) that contains the per-value Decode call.
func (p *Program) DriverFunc() *ssa.Function {
	ep := p.LangFunc("EvalProgram")
	if ep == nil {
		return nil
	}
	for _, g := range p.privateCluster(ep) {
		for _, call := range callsIn(g) {
			if f := call.Common().StaticCallee(); f != nil && f.String() == "(*encoding/json.Decoder).Decode" {
				return g
			}
		}
	}
	return ep
}

// isDriver: fn is EvalProgram or the driver split off it.
func (p *Program) isDriver(fn *ssa.Function) bool {
	return fn != nil && (fn == p.LangFunc("EvalProgram") || fn == p.DriverFunc())
}

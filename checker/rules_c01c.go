package main

import (
	"fmt"
	"go/token"
	"go/types"
	"sort"
	"strings"

	"golang.org/x/tools/go/ssa"
)

// payload fields of Value and the tags under which they are set
var payloadTags = map[string][]string{
	"Str":  {"ValueStr", "ValueRegex"},
	"Num":  {"ValueNum"},
	"Bool": {"ValueBool"},
	"Obj":  {"ValueObj"},
}

// frozen exceptions of R7: function -> reason
var payloadExceptions = map[string]string{
	"sort comparator":                            "the numeric comparison dereferences *Num only under the captured all-numbers flag, which the scan clears as soon as one element is not a number (C15/R3 sort-numeric-guard, sort-all-numbers-scan)",
	"(*lang.Value).GetMember array arm":          "int(*member.Num) is reached when member.Tag == ValueNum or v.Proto == nil; every array Value is built with Proto = getArrayPrototype() (checked: all composite literals with Tag: ValueArray set Proto), so the second disjunct never holds for an array",
	"(*lang.Value).resolveIndex":                 "called only with a member whose tag was established as number by its two callers (GetMember's array arm, see above; SetMember after `member.Tag != ValueNum -> error`): checked at the call sites",
	"(*lang.Evaluator).createSpeculativeObjects": "Str / Num of a speculative value are dereferenced under explicit `!= nil` tests of those fields",
}

// payloadUnderTag = C01/R7
func payloadUnderTag(c *Ctx, rule string) {
	p := c.P
	c.note("%s payload-under-tag: every dereference of Value.Str / Num / Bool / Obj in package lang is executed only where the same Value's tag is known (must-fact, or may-set of its tag) to be one that carries that payload, or the field was tested non-nil, or the Value is the result of checkArg(_, _, K) with a nil error; every composite literal Value{Tag: K} sets K's payload; Value.Tag is never stored on its own. Frozen exceptions are listed with their reason.", rule)
	for k, v := range payloadExceptions {
		c.note("  exception %s: %s", k, v)
	}
	n := 0
	tagsAll := valueTagNames(p)
	for _, fn := range p.Funcs {
		if !p.InLang(fn) {
			continue
		}
		msCache := map[string]*maySets{}
		allInstrs(fn, func(in ssa.Instruction) {
			u, ok := in.(*ssa.UnOp)
			if !ok || u.Op != token.MUL {
				return
			}
			inner, ok := u.X.(*ssa.UnOp)
			var sf structField
			var okF bool
			if ok && inner.Op == token.MUL {
				sf, okF = loadedField(inner)
			} else if fld, isField := u.X.(*ssa.Field); isField {
				sf, okF = loadedField(fld)
			}
			if !okF || sf.Struct == nil || sf.Struct.Obj().Name() != "Value" || payloadTags[sf.Name] == nil {
				return
			}
			n++
			field := sf.Name
			baseR := strings.TrimPrefix(p.RenderShort(sf.Base), "&")
			key := fmt.Sprintf("payload-deref %s.%s in %s #%d", baseR, field, shortName(fn), n)
			pos := p.InstrPos(u)
			facts := FactsOf(fn).At(u.Block())
			allowed := setOf(payloadTags[field])
			// (1) must-fact on the tag
			for _, rl := range facts.Rels() {
				if rl.op == relEQ && p.RenderShort(rl.x) == baseR+".Tag" && allowed[p.RenderShort(rl.y)] {
					c.ok(rule, key, pos, "under "+baseR+".Tag == "+p.RenderShort(rl.y))
					return
				}
				if rl.op == relNE && isNilConst(rl.y) && p.RenderShort(rl.x) == baseR+"."+field {
					c.ok(rule, key, pos, "under "+baseR+"."+field+" != nil")
					return
				}
			}
			// (2) may-set of the tag
			loc := baseR + ".Tag"
			ms := msCache[loc]
			if ms == nil {
				ms = p.maySetOfShort(fn, loc, tagsAll)
				msCache[loc] = ms
			}
			tags := ms.At(u.Block())
			if len(tags) > 0 && len(tags) < len(tagsAll) {
				okAll := true
				for _, t := range tags {
					if !allowed[t] {
						okAll = false
					}
				}
				if okAll {
					c.ok(rule, key, pos, "tag in {"+strings.Join(tags, ", ")+"}")
					return
				}
			}
			// (2a) the Value is a parameter (or the receiver) of a helper, and every call of the helper is
			// made where the argument's tag is known to carry the payload: the caller's test vouches
			// for the helper (GetMember's object arm moved to `objMember`)
			if prm, isPrm := stripLoads(sf.Base).(*ssa.Parameter); isPrm && fn.Parent() == nil {
				idx := -1
				for i, q := range fn.Params {
					if q == prm {
						idx = i
					}
				}
				sites := p.CallSitesOf(fn)
				okAll := idx >= 0 && len(sites) > 0
				for _, cs := range sites {
					caller := cs.Parent()
					if p.inTestFile(caller) {
						continue
					}
					if !p.InLang(caller) || idx >= len(cs.Common().Args) {
						okAll = false
						break
					}
					argR := strings.TrimPrefix(p.RenderShort(cs.Common().Args[idx]), "&")
					cms := p.maySetOfShort(caller, argR+".Tag", tagsAll)
					ctags := cms.At(cs.Block())
					if len(ctags) == 0 || len(ctags) == len(tagsAll) {
						okAll = false
						break
					}
					for _, t := range ctags {
						if !allowed[t] {
							okAll = false
						}
					}
				}
				if okAll {
					c.ok(rule, key, pos, "every caller of "+shortName(fn)+" has established the tag")
					return
				}
			}
			// (2b) the Value is a literal built in this function with a matching tag and the payload set
			for _, t := range payloadTags[field] {
				if strings.HasPrefix(baseR, "lang.Value{Tag: "+t+",") && strings.Contains(baseR, " "+field+": ") {
					c.ok(rule, key, pos, "a "+t+" literal built in this function")
					return
				}
			}
			// (3) result of checkArg with the matching tag
			if call, idx := callOf(stripLoads(sf.Base)); call != nil && idx == 0 && staticCalleeIs(call, "lang.checkArg") {
				if t := p.Render(call.Call.Args[2]); allowed[t] {
					var errV ssa.Value
					for _, r := range referrersOf(call) {
						if ex, ok := r.(*ssa.Extract); ok && ex.Index == 1 {
							errV = ex
						}
					}
					if errV != nil && facts.KnownNil(errV) {
						c.ok(rule, key, pos, "the value was checked by checkArg(…, "+t+")")
						return
					}
				}
			}
			// (4) frozen exceptions
			name := shortName(fn)
			switch {
			case fn.Parent() != nil && strings.Contains(shortName(fn.Parent()), "getArrayPrototype$") && field == "Num":
				c.ok(rule, key, pos, "exception (sort comparator): "+payloadExceptions["sort comparator"])
				return
			case name == "(*lang.Value).GetMember" && field == "Num" && baseR == "member":
				mst := p.maySetOfShort(fn, "v.Tag", tagsAll)
				if strings.Join(mst.At(u.Block()), ",") == "ValueArray" {
					c.ok(rule, key, pos, "exception (GetMember array arm): "+payloadExceptions["(*lang.Value).GetMember array arm"])
					return
				}
			case name == "(*lang.Value).resolveIndex" && field == "Num" && baseR == "member":
				if resolveIndexCallersOK(p) {
					c.ok(rule, key, pos, "exception (resolveIndex): "+payloadExceptions["(*lang.Value).resolveIndex"])
					return
				}
			}
			c.violated(rule, key, pos, fmt.Sprintf("*%s.%s is dereferenced where %s's tag is not known to carry that payload (tag may be {%s}): for another kind of value the pointer is nil and this is a Go nil-pointer panic", baseR, field, baseR, strings.Join(tags, ", ")))
		})
	}
	c.Analysed["payload_dereferences"] = n
	payloadStableAcrossUserCode(c, rule)
	if n < 30 {
		c.undecided(rule, "instance-floor", "", fmt.Sprintf("%d payload dereferences found, 40 confirmed by hand", n))
	}
	// composite literals: Value{Tag: K} sets K's payload; arrays set Proto
	nl := 0
	for _, fn := range p.Funcs {
		if !p.InLang(fn) {
			continue
		}
		allInstrs(fn, func(in ssa.Instruction) {
			a, ok := in.(*ssa.Alloc)
			if !ok || !isLangNamed(a.Type(), "Value") {
				return
			}
			// field stores on this alloc
			fields := map[string]string{}
			whole := false
			for _, r := range referrersOf(a) {
				switch x := r.(type) {
				case *ssa.FieldAddr:
					if sf, ok := fieldOfAddr(x); ok {
						for _, rr := range referrersOf(x) {
							if st, ok := rr.(*ssa.Store); ok && st.Addr == ssa.Value(x) {
								fields[sf.Name] = p.RenderShort(st.Val)
							}
						}
					}
				case *ssa.Store:
					if x.Addr == ssa.Value(a) {
						whole = true
					}
				}
			}
			tag, hasTag := fields["Tag"]
			if !hasTag {
				return
			}
			if whole {
				c.violated(rule, "tag-store in "+shortName(fn), p.InstrPos(a), "the Tag of an existing Value is overwritten separately from its payload")
				return
			}
			nl++
			key := fmt.Sprintf("value-literal %s in %s #%d", tag, shortName(fn), nl)
			need := map[string]string{"ValueStr": "Str", "ValueRegex": "Str", "ValueNum": "Num", "ValueBool": "Bool", "ValueObj": "Obj", "ValueFn": "Fn", "ValueNativeFn": "NativeFn"}[tag]
			if need == "" {
				if tag == "ValueArray" {
					_, hasArr := fields["Array"]
					pr := fields["Proto"]
					c.check(hasArr && pr == "lang.getArrayPrototype()", rule, key, p.InstrPos(a), "array value with its slice and the array prototype", "an array Value is built without Array or without Proto = getArrayPrototype() (method lookup and the GetMember exception rely on it)")
					return
				}
				c.ok(rule, key, p.InstrPos(a), "tag without payload")
				return
			}
			v, has := fields[need]
			c.check(has && v != "nil", rule, key, p.InstrPos(a), need+" is set", fmt.Sprintf("a Value with Tag %s is built without its %s payload: the first dereference under that tag panics", tag, need))
			// kinds that have methods carry their prototype (a method call on a value built without it
			// dereferences a nil prototype)
			if getter := map[string]string{"ValueStr": "lang.getStrPrototype()", "ValueNum": "lang.getNumPrototype()", "ValueObj": "lang.getObjPrototype()"}[tag]; getter != "" {
				pr, hasP := fields["Proto"]
				okP := hasP && (pr == getter || strings.HasSuffix(pr, ".Proto"))
				// the prototype tables themselves are objects without a prototype: they are only ever
				// reached through protoMember, never handed to a program as a value
				isGetter := func(g *ssa.Function) bool {
					return strings.HasPrefix(shortName(g), "lang.get") && strings.HasSuffix(shortName(g), "Prototype")
				}
				if tag == "ValueObj" && isGetter(fn) {
					okP = true
				}
				// … or a helper that only the prototype accessors call
				if tag == "ValueObj" && !okP && len(p.CallSitesOf(fn)) > 0 {
					only := true
					for _, cs := range p.CallSitesOf(fn) {
						if !isGetter(cs.Parent()) && !p.inTestFile(cs.Parent()) {
							only = false
						}
					}
					okP = only
				}
				c.check(okP, rule, key+" prototype", p.InstrPos(a), "Proto = "+getter+" (or the source value's)", fmt.Sprintf("a Value with Tag %s is built with Proto = %q: method calls on it (length, upper, split, …) find no prototype", tag, pr))
			}
		})
	}
	if nl < 25 {
		c.undecided(rule, "literal-floor", "", fmt.Sprintf("%d Value literals with a Tag found, 35 confirmed by hand", nl))
	}
	// stores to Value.Tag through non-local values
	for _, fn := range p.Funcs {
		if !p.InLang(fn) {
			continue
		}
		for _, st := range storesToField(fn, "Value", "Tag", false) {
			if !isLocalAddr(st.Addr) {
				c.violated(rule, "tag-store in "+shortName(fn), p.InstrPos(st), "the Tag of an existing Value is stored on its own: payload and tag can disagree afterwards")
			}
		}
	}
}

func stripLoads(v ssa.Value) ssa.Value {
	for {
		switch x := v.(type) {
		case *ssa.UnOp:
			if x.Op == token.MUL {
				v = x.X
				continue
			}
		}
		return v
	}
}

// resolveIndexCallersOK: at every call of resolveIndex the member's tag is known to be number,
// or the call sits in GetMember's array arm (exception above).
func resolveIndexCallersOK(p *Program) bool {
	ri := p.LangFunc("(*Value).resolveIndex")
	if ri == nil {
		return false
	}
	ok := true
	n := 0
	for _, cs := range p.CallSitesOf(ri) {
		n++
		fn := cs.Parent()
		g := guardsAt(p, fn, cs.Block())
		if g["member.Tag == ValueNum"] {
			continue
		}
		if shortName(fn) == "(*lang.Value).GetMember" {
			ms := p.maySetOfShort(fn, "v.Tag", valueTagNames(p))
			if strings.Join(ms.At(cs.Block()), ",") == "ValueArray" {
				continue
			}
		}
		ok = false
	}
	return ok && n >= 2
}

// maySetOfShort: maySetOf with the short (loop variables by name) rendering of the location.
func (p *Program) maySetOfShort(fn *ssa.Function, loc string, universe []string) *maySets {
	return p.maySetOfWith(fn, loc, universe, p.RenderShort)
}

// ---- R6 index guards -----------------------------------------------------------------------

// indexScope: the functions whose slice / string indexing R6 decides.
func indexScope(p *Program, fn *ssa.Function) bool {
	name := shortName(fn)
	if fn.Parent() != nil && strings.HasPrefix(shortName(fn.Parent()), "lang.get") && strings.HasSuffix(shortName(fn.Parent()), "Prototype") {
		return true
	}
	for _, n := range []string{"lang.nativePrintf", "lang.nativeJson", "lang.nativeNum", "lang.checkArg", "lang.checkArgCount", "(*lang.Evaluator).callFunction", "(*lang.Evaluator).evalCaseMatch", "(*lang.Value).GetMember", "(*lang.Value).SetMember", "(*lang.Evaluator).evalString", "(*lang.Evaluator).evalPatternRules", "(*lang.Evaluator).evalExprList", "cli.Run"} {
		if name == n {
			return true
		}
	}
	if _, fmtFn, _ := printfFormatter(p); fn == fmtFn {
		return true
	}
	return false
}

func indexGuards(c *Ctx, rule string) {
	p := c.P
	c.note("%s guarded-partial-operations: (a) every integer / float division with a non-constant divisor is dominated by divisor != 0 (C05/R4); (b) every strings.Repeat count is |width| - len under len < |width| (C18/R3); (c) every index expression X[e] on a slice or string in the native methods, the runtime builtins, checkArg, callFunction, evalCaseMatch, GetMember / SetMember, evalString, evalPatternRules, evalExprList and cli.Run is in bounds by one of the recognised arguments: e is the index of a range over X; a fact e < len(X) / e <= len(X)-1; e = x+1 with x < len(X) and x != len(X)-1; e constant k with len(X) > k established (len test, checkArgCount(X, n) == nil with n > k, or checkArg(X, k', _) with k' >= k succeeded); e = len(X)-1 with len(X) != 0; e = index of a range over Y with len(X) == len(Y) known. General index safety of the lexer's byte cursor is not claimed.", rule)
	n := 0
	for _, fn := range p.Funcs {
		if !(p.InLang(fn) || p.InCli(fn)) || !indexScope(p, fn) {
			continue
		}
		allInstrs(fn, func(in ssa.Instruction) {
			var X, idx ssa.Value
			switch x := in.(type) {
			case *ssa.IndexAddr:
				X, idx = x.X, x.Index
			case *ssa.Index:
				X, idx = x.X, x.Index
			case *ssa.Lookup:
				if _, isStr := x.X.Type().Underlying().(*types.Basic); !isStr {
					return
				}
				X, idx = x.X, x.Index
			default:
				return
			}
			switch X.Type().Underlying().(type) {
			case *types.Slice, *types.Basic:
			case *types.Pointer:
				return // index into a local array (variadic packing): constant, in bounds by construction
			default:
				return
			}
			n++
			xs, es := p.RenderShort(X), p.RenderShort(idx)
			key := fmt.Sprintf("index %s[%s] in %s #%d", xs, es, shortName(fn), n)
			pos := p.InstrPos(in)
			lenX := "len(" + xs + ")"
			if ms, ok := X.(*ssa.MakeSlice); ok {
				lenX = p.RenderShort(ms.Len)
			} else if strings.HasPrefix(xs, "make(") {
				// make([]T, L)
				if i := strings.LastIndex(xs, ", "); i > 0 {
					lenX = strings.TrimSuffix(xs[i+2:], ")")
				}
			}
			why := ""
			exName := shortName(fn)
			if _, fmtFn, _ := printfFormatter(p); fn == fmtFn {
				exName = "lang.nativePrintf" // the scanner split off printf keeps printf's frozen exceptions
			}
			if ex, ok := indexExceptions[exName+" "+xs+"["+es+"]"]; ok {
				why = "exception: " + ex
			}
			if why == "" {
				if phi, ok := idx.(*ssa.Phi); ok && phi.Comment != "rangeindex" {
					// decided edge by edge
					all := true
					for i, e := range phi.Edges {
						g := guardsAtEdge2(p, fn, phi.Block().Preds[i], phi.Block())
						// facts established between the merge and the use also count
						for k := range guardsAt(p, fn, in.Block()) {
							g[k] = true
						}
						if boundArgument(p, fn, in, X, xs, lenX, e, p.RenderShort(e), g) == "" {
							all = false
						}
					}
					if all {
						why = "in bounds on each incoming path of the merged index"
					}
				}
			}
			if why == "" {
				why = boundArgument(p, fn, in, X, xs, lenX, idx, es, guardsAt(p, fn, in.Block()))
			}
			if why == "" {
				c.violated(rule, key, pos, "no bound for this index is established on the paths to it (known: "+strings.Join(sortedSet(guardsAt(p, fn, in.Block())), " && ")+"): an out-of-range index is a Go runtime panic")
				return
			}
			c.ok(rule, key, pos, why)
		})
	}
	c.Analysed["index_expressions_in_scope"] = n
	if n < 25 {
		c.undecided(rule, "instance-floor", "", fmt.Sprintf("%d index expressions in scope, 30 confirmed by hand", n))
	}
}

func sortedSet(m map[string]bool) []string {
	var out []string
	for k := range m {
		out = append(out, k)
	}
	sort.Strings(out)
	return out
}

// constIndexGuard: X[k] with len(X) > k established.
func constIndexGuard(p *Program, fn *ssa.Function, at ssa.Instruction, X ssa.Value, xs string, k int64, g map[string]bool) string {
	lenX := "len(" + xs + ")"
	for guard := range g {
		var m int64
		if _, err := fmt.Sscanf(guard, lenX+" >= %d", &m); err == nil && strings.HasPrefix(guard, lenX+" >= ") && m > k {
			return "under " + guard
		}
		if _, err := fmt.Sscanf(guard, lenX+" > %d", &m); err == nil && strings.HasPrefix(guard, lenX+" > ") && m >= k {
			return "under " + guard
		}
		if _, err := fmt.Sscanf(guard, lenX+" == %d", &m); err == nil && strings.HasPrefix(guard, lenX+" == ") && m > k {
			return "under " + guard
		}
		if guard == lenX+" != 0" && k == 0 {
			return "under " + guard
		}
		if _, err := fmt.Sscanf(guard, "lang.checkArgCount("+xs+", %d) == nil", &m); err == nil && strings.HasPrefix(guard, "lang.checkArgCount("+xs+", ") && m > k {
			return "checkArgCount(" + xs + ", " + fmt.Sprint(m) + ") succeeded"
		}
		if strings.HasPrefix(guard, "lang.checkArg("+xs+", ") && strings.HasSuffix(guard, ")#1 == nil") {
			var kk int64
			if _, err := fmt.Sscanf(strings.TrimPrefix(guard, "lang.checkArg("+xs+", "), "%d,", &kk); err == nil && kk >= k {
				return "checkArg(" + xs + ", " + fmt.Sprint(kk) + ", …) succeeded"
			}
		}
	}
	// the slice is a literal of known length: [a, b][:] or args[1:] of a tested slice
	if strings.HasPrefix(xs, "[") && strings.Contains(xs, "][:") {
		return "literal slice"
	}
	return ""
}

// frozen exceptions of the index rule: "function slice[index]" -> reason
var indexExceptions = map[string]string{
	"(*lang.Value).SetMember v.Array[(*lang.Value).resolveIndex(v, member)#0]":       "either index < len(v.Array) already (the fill branch is skipped under that fact), or the fill loop `for i := len(v.Array); i <= index; i++ { append }` ran, after which len(v.Array) == index + 1 (loop invariant len == i; argued by reading, the loop's bounds are checked by C15/R4 fill-loop-bound)",
	"lang.nativePrintf *lang.checkArg(args, 0, ValueStr)#0.Str[(φint0 + 1):φint][0]": "the width text is format[i:numEnd] with numEnd initialised to i+1 and only incremented, so it has at least one byte",
}

func guardsAtEdge2(p *Program, fn *ssa.Function, from, to *ssa.BasicBlock) map[string]bool {
	g := map[string]bool{}
	for _, rl := range FactsOf(fn).OnEdge(from, to).Rels() {
		g[p.RenderShort(rl.x)+" "+rl.op.String()+" "+p.RenderShort(rl.y)] = true
		g[p.RenderShort(rl.y)+" "+flip(rl.op).String()+" "+p.RenderShort(rl.x)] = true
	}
	return g
}

// boundArgument returns the recognised reason why X[e] is in bounds under guards g, or "".
func boundArgument(p *Program, fn *ssa.Function, at ssa.Instruction, X ssa.Value, xs, lenX string, idx ssa.Value, es string, g map[string]bool) string {
	switch {
	case es == "i@"+xs:
		return "index of the range over the same slice"
	case g[es+" < "+lenX] || g[es+" <= ("+lenX+" - 1)"]:
		return "under " + es + " < " + lenX
	case strings.HasPrefix(es, "(") && strings.HasSuffix(es, " + 1)") && g[es[1:len(es)-5]+" < "+lenX] && g[es[1:len(es)-5]+" != ("+lenX+" - 1)"]:
		return "x+1 with x < len and x != len-1"
	case es == "("+lenX+" - 1)" && (g[lenX+" != 0"] || g[lenX+" > 0"]):
		return "last element under len != 0"
	case strings.HasPrefix(es, "i@"):
		other := strings.TrimPrefix(es, "i@")
		if lenX == "len("+other+")" || g[lenX+" == len("+other+")"] || g["len("+other+") == "+lenX] {
			return "index of a range over a slice of equal length"
		}
	}
	if k, isK := constInt(idx); isK {
		if w := constIndexGuard(p, fn, at, X, xs, k, g); w != "" {
			return w
		}
	}
	return ""
}

// repeatGuards: strings.Repeat panics on a negative count
func repeatGuards(c *Ctx, rule string) {
	p := c.P
	n := 0
	for _, fn := range p.Funcs {
		if !p.InLang(fn) && !p.InCli(fn) {
			continue
		}
		for _, call := range callsIn(fn) {
			f := call.Common().StaticCallee()
			if f == nil || (f.String() != "strings.Repeat" && f.String() != "bytes.Repeat") {
				continue
			}
			n++
			cnt := call.Common().Args[1]
			key := fmt.Sprintf("repeat-count #%d in %s", n, shortName(fn))
			if k, ok := constInt(cnt); ok {
				c.check(k >= 0, rule, key, p.InstrPos(call), "constant count", "negative constant count")
				continue
			}
			nonNeg := false
			for _, rl := range FactsOf(fn).At(call.Block()).Rels() {
				// count > k / count >= k with k >= 0
				if rl.x == cnt && (rl.op == relGT || rl.op == relGE) {
					if k, ok := constInt(rl.y); ok && k >= 0 {
						nonNeg = true
					}
				}
				// count = a - b under b < a / b <= a
				if b, ok := cnt.(*ssa.BinOp); ok && b.Op == token.SUB {
					ra, rb := p.RenderShort(b.X), p.RenderShort(b.Y)
					x, y := p.RenderShort(rl.x), p.RenderShort(rl.y)
					if (x == rb && y == ra && (rl.op == relLT || rl.op == relLE)) || (x == ra && y == rb && (rl.op == relGT || rl.op == relGE)) {
						nonNeg = true
					}
				}
			}
			c.check(nonNeg, rule, key, p.InstrPos(call), "the count is known to be non-negative", "strings.Repeat is called with the count "+p.RenderShort(cnt)+", which is not known to be >= 0 here: a negative count is a Go panic (e.g. a column of -1)")
		}
	}
	if n < 4 {
		c.undecided(rule, "repeat-count instance-floor", "", fmt.Sprintf("%d Repeat calls found, 4 confirmed by hand (printf padding)", n))
	}
}

// payloadStableAcrossUserCode: a tag test only vouches for a payload until user code runs. When a
// payload (or a container member read through it) of a cell that outlives the call — a variable's
// cell, a member cell — is read *again* after an evaluation call, the cell may meanwhile hold a
// value of another kind (the body of `for (k, v in o)` may assign to o).
func payloadStableAcrossUserCode(c *Ctx, rule string) {
	p := c.P
	c.note("%s payload-stable-across-user-code: in the evaluator, between a call that can run program code (evalStatement, evalExpr, evalRules, evalPatternRules, callFunction, evalExprList, evalAssignment, a native function) and a later dereference of Value.Str / Num / Bool / Obj of a cell that was obtained before that call, the cell's tag is tested again (on every path). Reads made once before a loop (Go's range over the slice / string / key list) are not affected.", rule)
	userCode := func(call ssa.CallInstruction) bool {
		f := call.Common().StaticCallee()
		if f == nil {
			// a native function value called through its field
			return strings.Contains(call.Common().Value.Type().String(), "Evaluator")
		}
		switch shortName(f) {
		case "(*lang.Evaluator).evalStatement", "(*lang.Evaluator).evalExpr", "(*lang.Evaluator).evalRules", "(*lang.Evaluator).evalPatternRules", "(*lang.Evaluator).callFunction", "(*lang.Evaluator).evalExprList", "(*lang.Evaluator).evalAssignment", "(*lang.Evaluator).evalBinaryExpr", "(*lang.Evaluator).evalUnaryExpr", "(*lang.Evaluator).evalCaseMatch":
			return true
		}
		return false
	}
	n := 0
	for _, fn := range p.Funcs {
		if !p.InLang(fn) || p.inTestFile(fn) || fn.Signature.Recv() == nil || !strings.Contains(fn.Signature.Recv().Type().String(), "Evaluator") {
			continue
		}
		var calls []ssa.CallInstruction
		for _, call := range callsIn(fn) {
			if userCode(call) {
				calls = append(calls, call)
			}
		}
		if len(calls) == 0 {
			continue
		}
		allInstrs(fn, func(in ssa.Instruction) {
			u, ok := in.(*ssa.UnOp)
			if !ok || u.Op != token.MUL {
				return
			}
			inner, ok := u.X.(*ssa.UnOp)
			if !ok || inner.Op != token.MUL {
				return
			}
			sf, okF := loadedField(inner)
			if !okF || sf.Struct == nil || sf.Struct.Obj().Name() != "Value" || payloadTags[sf.Name] == nil {
				return
			}
			// the cell (or value) the payload belongs to
			root := stripLoads(sf.Base)
			for {
				if fa, ok := root.(*ssa.FieldAddr); ok {
					root = stripLoads(fa.X)
					continue
				}
				break
			}
			if _, local := root.(*ssa.Alloc); local {
				return // a value built in this function: program code has no name for it
			}
			rootIn, isInstr := root.(ssa.Instruction)
			baseR := strings.TrimPrefix(p.RenderShort(sf.Base), "&")
			for _, call := range calls {
				if ssa.Value(call.Value()) == root && call.Value() != nil {
					continue // the cell is that call's own result
				}
				if isInstr && !dominatesInstr(rootIn, call) {
					continue // the cell was obtained after (or independently of) this call
				}
				if !canReach(call, u) {
					continue
				}
				// is the tag of the same cell read again on every path from the call to the dereference?
				retest := map[*ssa.BasicBlock]bool{}
				sameBlockRetest := false
				allInstrs(fn, func(in2 ssa.Instruction) {
					l, ok := in2.(*ssa.UnOp)
					if !ok || l.Op != token.MUL {
						return
					}
					if tf, ok := loadedField(l); ok && tf.Is("Value", "Tag") && strings.TrimPrefix(p.RenderShort(tf.Base), "&") == baseR {
						if l.Block() == u.Block() && l.Block() == call.Block() {
							if instrIndex(call) < instrIndex(l) && instrIndex(l) < instrIndex(u) {
								sameBlockRetest = true
							}
							return
						}
						if l.Block() == u.Block() && instrIndex(l) > instrIndex(u) {
							return
						}
						if l.Block() == call.Block() && instrIndex(l) < instrIndex(call) {
							return
						}
						retest[l.Block()] = true
					}
				})
				if sameBlockRetest || retest[u.Block()] {
					continue
				}
				reach := false
				if call.Block() == u.Block() && instrIndex(call) < instrIndex(u) {
					reach = true
				} else if reachableFrom(call.Block().Succs, retest)[u.Block()] {
					reach = true
				}
				if !reach {
					continue
				}
				n++
				c.violated(rule, fmt.Sprintf("payload-after-user-code %s.%s in %s", baseR, sf.Name, shortName(fn)), p.InstrPos(u), fmt.Sprintf("*%s.%s is read again after %s (at %s) ran program code, without the tag of %s being tested again: the code may have assigned a value of another kind to that cell (e.g. `for (k, v in o) { o = 5 }`), and the pointer is then nil — a Go nil-pointer panic", baseR, sf.Name, calleeName(call.Common()), p.InstrPos(call), baseR))
				return
			}
		})
	}
	if n == 0 {
		c.ok(rule, "payload-after-user-code", "", "no payload of a surviving cell is read again after program code ran without a new tag test")
	}
}

// lexerByteIndex: the lexer reads single bytes of the program text at the cursor only.
func lexerByteIndex(c *Ctx, rule string) {
	p := c.P
	c.note("%s lexer-byte-index: every single-byte read `l.src[e]` in a Lexer method is (a) `l.src[l.pos]` where atEnd() is known false (or l.pos < len(l.src)), (b) the byte just consumed `l.src[l.pos-1]` in advance — frozen exception: advance is only called where a byte is available (C12/R6 counts the steps; the cursor starts at 0 and only advance moves it) — or (c) the scan index of the position scan under i < len(l.src). A look-ahead `l.src[l.pos+1]` guarded by atEnd() alone reads past the end when the cursor is on the last byte.", rule)
	n := 0
	for _, fn := range p.Funcs {
		if !p.InLang(fn) || p.inTestFile(fn) || fn.Signature.Recv() == nil || !strings.Contains(fn.Signature.Recv().Type().String(), "Lexer") {
			continue
		}
		allInstrs(fn, func(in ssa.Instruction) {
			var x, idx ssa.Value
			switch v := in.(type) {
			case *ssa.Index:
				x, idx = v.X, v.Index
			case *ssa.Lookup:
				x, idx = v.X, v.Index
			default:
				return
			}
			if p.Render(x) != "l.src" {
				return
			}
			n++
			e := p.Render(idx)
			key := "lexer-byte-index l.src[" + e + "] in " + shortName(fn)
			F := FactsOf(fn).At(in.Block())
			okIdx, why := false, ""
			switch {
			case e == "l.pos":
				for f := range F {
					if call, _ := callOf(f.cond); call != nil && staticCalleeIs(call, "(*lang.Lexer).atEnd") && !f.truth {
						okIdx, why = true, "under !atEnd()"
					}
				}
				for _, rl := range F.Rels() {
					if rl.op == relLT && p.Render(rl.x) == "l.pos" && p.Render(rl.y) == "len(l.src)" {
						okIdx, why = true, "under l.pos < len(l.src)"
					}
				}
			case e == "(l.pos - 1)" && shortName(fn) == "(*lang.Lexer).advance":
				okIdx, why = true, "exception: the byte just consumed (advance is called only where a byte is available)"
			default:
				for _, rl := range F.Rels() {
					if rl.op == relLT && rl.x == idx && p.Render(rl.y) == "len(l.src)" {
						okIdx, why = true, "under "+e+" < len(l.src)"
					}
				}
			}
			c.check(okIdx, rule, key, p.InstrPos(in), why, "the program text is indexed at "+e+" where that index is not known to be inside the text: at the end of the text (a program ending in the characters that lead here) this is a Go index-out-of-range panic")
		})
	}
	if n < 2 {
		c.undecided(rule, "lexer-byte-index instance-floor", "", fmt.Sprintf("%d byte reads of Lexer.src found, at least 2 expected (peek, advance)", n))
	}
}

package main

import (
	"fmt"
	"go/token"
	"go/types"
	"strings"

	"golang.org/x/tools/go/ssa"
)

func init() {
	register(&ruleSet{
		id:    "C15",
		title: "array methods behave like an ideal list",
		run:   runC15,
		decided: "the receiver a native method gets is bound per lookup in a fresh cell (no store of a receiver into a cell that outlives the lookup; prototype cells are never handed out as lvalues); each array method reads / writes the receiver it is given in the documented way (method table as normalised dataflow: push appends one fresh cell and returns the array, pop/popfirst return the last/first element or null when empty and re-slice, length, contains in order via Compare == 0); sort works on a fresh slice of fresh cells with a stable sort API, numeric comparison under the all-numbers scan and string-form comparison otherwise, without storing to the receiver; index resolution counts negative indices from the end and rejects an index before the start; the fill loop appends one fresh null cell per slot." +
			" contains decides equality by Value.Equals (the == relation, unset equals nothing); for an array root the pattern rules see each element's own cell; pushed values are copies made by copyValue.",
		notDecided: "equivalence with a list model over operation histories; the slice-header aliasing between two references to one array (reported under C09/R2, known finding).",
	})
}

func runC15(c *Ctx) {
	ms := nativeMethods(c.P)
	receiverPerCall(c, "R1")
	c15R2(c, ms)
	c15R3(c, ms)
	indexResolution(c, "R4")
	equalityAgreement(c, "R6")
	c15NestedCalls(c)
	c.shared("R12", "C11/R2", "contains agrees with == on every element: where == has no answer (a scalar against a container) Equals hands the comparison's error on, it does not answer false", func(o Obligation) bool { return strings.HasPrefix(o.Key, "(*lang.Value).Equals ") }, func(s *Ctx) { c11R2(s, "R2") })
	c.shared("R13", "C09/R1", "an index read leaves the list alone, null elements included: the read arms of the evaluator store through an operand only to auto-vivify an unset variable (a null element turned into an array by `q[0][0]` is no longer found by contains(null))", keyHas("operand-store"), c09R1)
	c.shared("R14", "C01/R7", "every array has the array methods however it came to be: each construction of an array value sets the array prototype (an array born from an index write included)", keyHas("value-literal ValueArray"), func(s *Ctx) { payloadUnderTag(s, "R7") })
	c.shared("R15", "C09/R6", "an index write stores whatever is written, null included, and lands in the array that is there: the assignment always reaches the store, and a container created meanwhile by the right-hand side is found as the place itself, not as a copy", keyHas("assignment-always-stores", "parent-relook"), c09R6)
	c.shared("R16", "C04/R2", "an emptied array is still an array for json() and -o: the conversion of an array yields a (possibly empty) list, never the nil slice that is written as null", keyHas("convert ValueArray", "returned-slice"), runC04)
	if eu := c.P.LangFunc("(*Evaluator).evalUnaryExpr"); eu != nil {
		c.shared("R17", "C09/R5", "an index write lands where the index pointed when the target was evaluated: ++ / -- never step a number in place (the pending slot a[n] keeps a pointer to n's number)", keyHas("incdec"), func(s *Ctx) { incdecTable(s, "R5", eu) })
	}
	c.shared("R11", "C05/R8", "sort orders an array that is not all numbers by string form: the string form of each kind is the documented one (booleans, null, containers have the empty form)", keyHas("String results", "String guard"), c05Coercions)
	c.shared("R9", "C10/R6", "the contents of an array are what was written into it: every evaluation of an array literal builds cells of its own — nothing evaluated earlier is remembered in the evaluator or the syntax tree and handed out again", keyHas("evaluator-state", "syntax-tree-store", "interpreter-state"), func(s *Ctx) { interpreterState(s, "R6") })
	c.shared("R10", "C04/R15", "an index write changes one element: every element of a decoded array (nulls included) gets a cell of its own", keyHas("value-construction"), func(s *Ctx) { newValueTable(s, "R15") })
	c.shared("R7", "C02/R4", "a method invoked on $ acts on the array inside the document: for an array root the pattern rules see each element's own cell, not a copy of its value (a copy carries a private slice header)", keyHas("array-root-per-element"), c02R4)
	c.shared("R5", "C09/R3", "push stores a copy of its argument made by copyValue: the stored element is a value of the same kind in a cell of its own (a null that shares the caller's cell changes when the caller's variable does)", keyHas("copy Value", "copy-on-insert ExprCall.Args", "copy-on-insert ExprArray", "copy-flag-"), c09R3)
}

// receiverPerCall (= C10/R3): method lookup must not write the receiver into shared cells.
func receiverPerCall(c *Ctx, rule string) {
	p := c.P
	c.note("%s receiver-per-call / no-write-into-prototype-cells: (a) the native call passes the looked-up cell's Binding as `this`; (b) every store to Value.Binding goes to a local copy, never through a cell obtained elsewhere; (c) a cell obtained from a lookup in a value's Proto never escapes the function that looked it up (it may only be nil-tested and its Value copied), so prototype cells — which are process-global — are never handed out as lvalues or written; (d) the bound copy's Binding is the value the member was looked up on.", rule)
	// (a)
	cf := p.LangFunc("(*Evaluator).callFunction")
	if cf == nil {
		c.undecided(rule, "native-call", "", "anchor callFunction not found")
	} else {
		found := false
		for _, call := range callsIn(cf) {
			if call.Common().StaticCallee() != nil || call.Common().IsInvoke() {
				continue
			}
			if sf, ok := loadedField(call.Common().Value); !ok || !sf.Is("Value", "NativeFn") {
				continue
			}
			found = true
			args := call.Common().Args
			okThis := len(args) == 3 && p.Render(args[2]) == "fn.Value.Binding" && p.Render(args[1]) == "args" && p.Render(call.Common().Value) == "fn.Value.NativeFn"
			c.check(okThis, rule, "native-call-receiver", p.InstrPos(call), "fn.Value.NativeFn(e, args, fn.Value.Binding)", "the native call does not pass the called cell's own Binding as the receiver: "+p.Render(call.Common().Value)+"(…, "+p.Render(args[len(args)-1])+")")
		}
		if !found {
			c.undecided(rule, "native-call-receiver", p.Pos(cf.Pos()), "no call through Value.NativeFn found in callFunction")
		}
	}
	// (b) + (d)
	nStores := 0
	for _, f := range p.Funcs {
		if !p.InLang(f) {
			continue
		}
		for _, st := range storesToField(f, "Value", "Binding", false) {
			nStores++
			key := fmt.Sprintf("binding-store #%d in %s", nStores, shortName(f))
			if !isLocalAddr(st.Addr) {
				c.violated(rule, key, p.InstrPos(st), "a receiver is stored into the Binding of a cell that is not a local copy ("+p.Render(st.Addr)+"): the cell may be a prototype cell shared by every value in the process, so nested or later calls see the wrong receiver")
				continue
			}
			// the bound value must be the receiver of the lookup
			if f.Signature.Recv() != nil && len(f.Params) > 0 && st.Val == ssa.Value(f.Params[0]) {
				c.ok(rule, key, p.InstrPos(st), "Binding of a local copy := the value the member was looked up on")
			} else {
				c.violated(rule, key, p.InstrPos(st), "the bound receiver is "+p.Render(st.Val)+", not the value the member was looked up on")
			}
		}
	}
	if nStores == 0 {
		c.undecided(rule, "binding-store", "", "no store to Value.Binding found: natives would never receive a receiver")
	}
	// (c) proto lookups
	nLook := 0
	for _, f := range p.Funcs {
		if !p.InLang(f) {
			continue
		}
		for _, call := range callsIn(f) {
			cv, ok := call.(*ssa.Call)
			if !ok || !staticCalleeIs(cv, "(*lang.Value).GetMember") {
				continue
			}
			if sf, ok := loadedField(cv.Call.Args[0]); !ok || !sf.Is("Value", "Proto") {
				continue
			}
			nLook++
			key := fmt.Sprintf("proto-lookup #%d in %s", nLook, shortName(f))
			var cell, errV ssa.Value
			for _, r := range referrersOf(cv) {
				if ex, ok := r.(*ssa.Extract); ok {
					if ex.Index == 0 {
						cell = ex
					} else {
						errV = ex
					}
				}
			}
			if cell == nil {
				c.ok(rule, key, p.InstrPos(cv), "result cell unused")
				continue
			}
			s0 := newNilState(cell, "P")
			if errV != nil {
				s0 = newNilState(cell, "P", errV, "err")
			}
			var bad []string
			explorePaths(cv, s0, func(in ssa.Instruction, s nilState) bool {
				live := func(v ssa.Value) bool {
					if s.role(v) != "P" {
						return false
					}
					st, _ := s.get(v)
					if st == nsNil {
						return false
					}
					for _, e := range s.byRole("err") {
						if es, _ := s.get(e); es == nsNonNil {
							return false // failed lookup: the cell is nil by GetMember's contract
						}
					}
					return true
				}
				switch x := in.(type) {
				case *ssa.Return:
					for _, rv := range effectiveResults(x) {
						if live(rv) {
							bad = append(bad, "returned to the caller at "+p.InstrPos(x))
						}
					}
					return true
				case *ssa.Store:
					if live(x.Val) {
						bad = append(bad, "stored at "+p.InstrPos(x))
					}
					if fa, ok := x.Addr.(*ssa.FieldAddr); ok && live(fa.X) {
						bad = append(bad, "written through at "+p.InstrPos(x))
					}
					if fa, ok := x.Addr.(*ssa.FieldAddr); ok {
						if fa2, ok := fa.X.(*ssa.FieldAddr); ok && live(fa2.X) {
							bad = append(bad, "written through at "+p.InstrPos(x))
						}
					}
				case *ssa.MapUpdate:
					if live(x.Value) {
						bad = append(bad, "stored into a map at "+p.InstrPos(x))
					}
				case ssa.CallInstruction:
					for _, a := range x.Common().Args {
						if live(a) {
							bad = append(bad, "passed to "+calleeName(x.Common())+" at "+p.InstrPos(x))
						}
					}
				case *ssa.MakeInterface:
					if live(x.X) {
						bad = append(bad, "converted to an interface at "+p.InstrPos(x))
					}
				}
				return false
			})
			if len(bad) == 0 {
				c.ok(rule, key, p.InstrPos(cv), "the prototype cell is only nil-tested and its value copied")
			} else {
				c.violated(rule, key, p.InstrPos(cv), "a cell of the process-global prototype table escapes the lookup ("+strings.Join(dedup(bad), "; ")+"): it can be assigned to or have a receiver written into it, which changes the method for every value and every later run in the process")
			}
		}
	}
	if nLook == 0 {
		c.undecided(rule, "proto-lookup", "", "no lookup `X.Proto.GetMember(..)` found")
	}
}

func dedup(xs []string) []string {
	seen := map[string]bool{}
	var out []string
	for _, x := range xs {
		if !seen[x] {
			seen[x] = true
			out = append(out, x)
		}
	}
	return out
}

// searchHelperOf: contains may delegate the element search to a helper `h(cells, needle) (bool, error)`
// whose boolean becomes the result: returns the helper and the call.
func searchHelperOf(p *Program, fn *ssa.Function) (*ssa.Function, *ssa.Call) {
	for _, call := range callsIn(fn) {
		cv, ok := call.(*ssa.Call)
		if !ok {
			continue
		}
		h := cv.Call.StaticCallee()
		if h == nil || !p.InLang(h) || len(h.Blocks) == 0 || h.Signature.Results().Len() != 2 || !isBoolType(h.Signature.Results().At(0).Type()) || !isErrorType(h.Signature.Results().At(1).Type()) {
			continue
		}
		if len(h.Params) != 2 || cv.Call.IsInvoke() {
			continue
		}
		hasSlice := false
		for _, prm := range h.Params {
			if _, ok := prm.Type().Underlying().(*types.Slice); ok {
				hasSlice = true
			}
		}
		if !hasSlice {
			continue
		}
		return h, cv
	}
	return nil, nil
}

// containsThroughHelper: the contract of contains restated over the closure and its search helper.
func containsThroughHelper(c *Ctx, fn, h *ssa.Function, hc *ssa.Call) {
	p := c.P
	H := p.Render(hc)
	c.checkArm("R2", "array.contains", fn, armSpec{
		Results: []string{"nil", "&lang.NewValue(" + H + "#0)"}, Effects: []string{},
		Guards: map[string][]string{"&lang.NewValue(" + H + "#0)": {H + "#1 == nil", "lang.checkArgCount(v, 1) == nil"}},
		Source: "contains(v) agrees with == applied to each element in order (the search is in " + shortName(h) + ")"})
	// the helper is given the receiver's elements and the argument
	var cells, needle *ssa.Parameter
	argOK := true
	for i, prm := range h.Params {
		a := p.Render(hc.Call.Args[i])
		if _, isSlice := prm.Type().Underlying().(*types.Slice); isSlice {
			cells = prm
			if a != "this.Array" {
				argOK = false
			}
		} else {
			needle = prm
			if a != "v[0]" {
				argOK = false
			}
		}
	}
	c.check(argOK && cells != nil && needle != nil, "R2", "array.contains search-arguments", p.InstrPos(hc), "the search runs over this.Array for v[0]", "the search helper is not given (this.Array, v[0])")
	if cells == nil || needle == nil {
		return
	}
	C, N := p.Render(cells), p.Render(needle)
	eq := "(*lang.Value).Equals(" + N + ", &" + C + "[i@" + C + "].Value)"
	vals := map[string]bool{}
	okTrue, okExhausted := false, false
	for _, rc := range p.successResults(h) {
		vals[rc.Value] = true
		g := setOf(rc.Guards)
		if rc.Value == "true" {
			okTrue = g[eq+"#0"] && g[eq+"#1 == nil"]
		}
		if rc.Value == "false" && g["i@"+C+" >= len("+C+")"] {
			okExhausted = true
		}
	}
	c.check(len(vals) == 2 && vals["true"] && vals["false"] && okTrue && okExhausted, "R2", "array.contains search", p.Pos(h.Pos()), "true at the first element equal to the argument, false after the last", "the search helper "+shortName(h)+" does not return true exactly at the first element with needle.Equals(element) and false once the elements are exhausted (results: "+keysOf(vals)+")")
	c.check(len(p.effects(h)) == 0, "R2", "array.contains search effects", p.Pos(h.Pos()), "the search changes nothing", "the search helper has effects: "+strings.Join(p.effects(h), " ; "))
}

func c15R2(c *Ctx, ms []nativeMethod) {
	p := c.P
	c.note("R2 method-table (array): push: arity 1, this.Array = append(this.Array, fresh cell of v[0]), returns this; pop: arity 0, null when empty, else element len-1 and this.Array[:len-1]; popfirst: element 0 and this.Array[1:]; length: len(this.Array); contains: arity 1, true at the first element with v[0].Equals(element) in slice order, else false.")
	methodTableComplete(c, "R2", ms, "array")
	nn := []string{"this != nil"}
	type row struct {
		name string
		spec armSpec
	}
	rows := []row{
		{"length", armSpec{Results: []string{"&lang.NewValue(0)", "&lang.NewValue(len(this.Array))"}, Effects: []string{}, Guards: map[string][]string{"&lang.NewValue(len(this.Array))": {"this != nil", "this.Tag == ValueArray"}}, Source: "length counts elements"}},
		{"push", armSpec{Results: []string{"nil", "this"}, Effects: []string{"this.Array = append(this.Array, [&lang.Cell{Value: *v[0]}][:])"}, Guards: map[string][]string{"this": {"lang.checkArgCount(v, 1) == nil", "this != nil"}}, Source: "push appends one value and returns the array"}},
		{"pop", armSpec{Results: []string{"nil", "&lang.NewValue(nil)", "&this.Array[(len(this.Array) - 1)].Value"}, Effects: []string{"this.Array = this.Array[:(len(this.Array) - 1)]"},
			Guards: map[string][]string{"&this.Array[(len(this.Array) - 1)].Value": {"lang.checkArgCount(v, 0) == nil", "len(this.Array) != 0", "this != nil"}, "&lang.NewValue(nil)": {"len(this.Array) == 0"}}, Source: "pop removes and returns the last element (null when empty)"}},
		{"popfirst", armSpec{Results: []string{"nil", "&lang.NewValue(nil)", "&this.Array[0].Value"}, Effects: []string{"this.Array = this.Array[1:]"},
			Guards: map[string][]string{"&this.Array[0].Value": {"lang.checkArgCount(v, 0) == nil", "len(this.Array) != 0", "this != nil"}, "&lang.NewValue(nil)": {"len(this.Array) == 0"}}, Source: "popfirst removes and returns the first element (null when empty)"}},
		{"contains", armSpec{Results: []string{"nil", "&lang.NewValue(true)", "&lang.NewValue(false)"}, Effects: []string{},
			Guards: map[string][]string{
				"&lang.NewValue(true)":  {"(*lang.Value).Equals(v[0], &this.Array[i@this.Array].Value)#0", "(*lang.Value).Equals(v[0], &this.Array[i@this.Array].Value)#1 == nil", "lang.checkArgCount(v, 1) == nil"},
				"&lang.NewValue(false)": {"i@this.Array >= len(this.Array)", "lang.checkArgCount(v, 1) == nil"}},
			Source: "contains(v) agrees with == applied to each element in order"}},
	}
	_ = nn
	for _, r := range rows {
		m := methodByName(ms, "array", r.name)
		if m == nil || m.Fn == nil {
			c.violated("R2", "array."+r.name, "", "documented method is not defined in the prototype literal")
			continue
		}
		if r.name == "contains" {
			if h, hc := searchHelperOf(p, m.Fn); h != nil {
				containsThroughHelper(c, m.Fn, h, hc)
				continue
			}
		}
		c.checkArm("R2", "array."+r.name, m.Fn, r.spec)
		// the store of the re-sliced array happens on the same path as the element read
		if r.name == "pop" || r.name == "popfirst" {
			for _, st := range storesToField(m.Fn, "Value", "Array", false) {
				facts := FactsOf(m.Fn).At(st.Block())
				nonEmpty := false
				for _, rl := range facts.Rels() {
					if rl.op == relNE && c.P.Render(rl.x) == "len(this.Array)" && c.P.Render(rl.y) == "0" {
						nonEmpty = true
					}
				}
				c.check(nonEmpty, "R2", "array."+r.name+" reslice-guard", c.P.InstrPos(st), "the re-slice happens only under len(this.Array) != 0", "the re-slice is not guarded by len(this.Array) != 0: an empty array would panic")
			}
		}
	}
}

var stableSortAPIs = []string{"slices.SortStableFunc", "sort.SliceStable", "sort.Stable"}

func c15R3(c *Ctx, ms []nativeMethod) {
	p := c.P
	c.note("R3 sort-contract: the sorted slice is freshly made with one fresh cell per element, filled by copyValue(element i, clone i); the sort API is a stable one (%s); the comparator compares *Num under the all-numbers flag (false iff some element's tag is not number) and String() otherwise, in argument order (a, b); sort stores nothing through the receiver.", strings.Join(stableSortAPIs, ", "))
	m := methodByName(ms, "array", "sort")
	if m == nil || m.Fn == nil {
		c.violated("R3", "array.sort", "", "sort is not defined")
		return
	}
	fn := m.Fn
	c.checkArm("R3", "array.sort", fn, armSpec{
		Results: []string{"nil", "&lang.NewValue(make([]*lang.Cell, len(this.Array)))"},
		Effects: []string{"make([]*lang.Cell, len(this.Array))[i@this.Array] = &lang.Cell{}"},
		Source:  "sort returns a sorted copy, leaving the original untouched",
	})
	// the clone loop copies element i into clone[i]
	var copies []string
	var sortCall ssa.CallInstruction
	for _, call := range callsIn(fn) {
		if staticCalleeIs(call, "lang.copyValue") {
			copies = append(copies, p.Render(call.Common().Args[0])+" -> "+p.Render(call.Common().Args[1]))
		}
		if f := call.Common().StaticCallee(); f != nil && !p.InModule(f) {
			name := f.String()
			if o := f.Origin(); o != nil {
				name = o.String()
			}
			if strings.HasPrefix(name, "slices.Sort") || strings.HasPrefix(name, "sort.") {
				sortCall = call
			}
		}
	}
	wantCopy := "this.Array[i@this.Array] -> make([]*lang.Cell, len(this.Array))[i@this.Array]"
	c.check(len(copies) == 1 && copies[0] == wantCopy, "R3", "sort-clone", p.Pos(fn.Pos()), "copyValue(this.Array[i], clone[i]) for every element", "the clone is not filled by copyValue(element i, fresh cell i): "+strings.Join(copies, " ; ")+" — elements of the result would share cells with the receiver, or scalars would not be copied")
	if sortCall == nil {
		c.violated("R3", "sort-api", p.Pos(fn.Pos()), "no call to a library sort found")
		return
	}
	callee := sortCall.Common().StaticCallee()
	name := callee.String()
	if o := callee.Origin(); o != nil {
		name = o.String()
	}
	stable := false
	for _, s := range stableSortAPIs {
		if name == s {
			stable = true
		}
	}
	c.check(stable, "R3", "sort-api", p.InstrPos(sortCall), name+" is a stable sort", name+" is not a stable sort: equal elements may be reordered (Go's unstable sorts only look stable on short inputs)")
	// sorted slice is the clone
	c.check(p.Render(sortCall.Common().Args[0]) == "make([]*lang.Cell, len(this.Array))", "R3", "sort-subject", p.InstrPos(sortCall), "the fresh clone is what gets sorted", "the slice passed to the sort is not the fresh clone: "+p.Render(sortCall.Common().Args[0]))
	// comparator
	var cmpFn *ssa.Function
	if mc, ok := sortCall.Common().Args[1].(*ssa.MakeClosure); ok {
		cmpFn, _ = mc.Fn.(*ssa.Function)
	}
	if cmpFn == nil {
		c.undecided("R3", "sort-comparator", p.InstrPos(sortCall), "comparator is not a closure literal")
		return
	}
	got := map[string]bool{}
	for _, r := range returnsOf(cmpFn) {
		got[p.Render(r.Results[0])] = true
	}
	want := setOf([]string{"cmp.Compare[float64](*a.Value.Num, *b.Value.Num)", "cmp.Compare[string]((*lang.Value).String(&a.Value), (*lang.Value).String(&b.Value))"})
	miss, extra := diffSets(got, want)
	c.check(len(miss)+len(extra) == 0, "R3", "sort-comparator", p.Pos(cmpFn.Pos()), "numeric comparison of *Num, else comparison of String(), both in (a, b) order", fmt.Sprintf("comparator differs: unexpected {%s}; missing {%s}", strings.Join(extra, " ; "), strings.Join(miss, " ; ")))
	// the numeric comparison is taken under the captured all-numbers flag being true
	numGuard := false
	for _, r := range returnsOf(cmpFn) {
		if strings.Contains(p.Render(r.Results[0]), "float64") {
			for f := range FactsOf(cmpFn).At(r.Block()) {
				if f.truth && strings.HasPrefix(p.Render(f.cond), "free:") {
					numGuard = true
				}
			}
		}
	}
	c.check(numGuard, "R3", "sort-numeric-guard", p.Pos(cmpFn.Pos()), "*Num is dereferenced only under the all-numbers flag", "the numeric comparison is not guarded by the all-numbers flag: *Num of a non-number is a nil dereference")
	// the flag: initialised true, set false exactly under item.Value.Tag != ValueNum
	flagOK := false
	allInstrs(fn, func(in ssa.Instruction) {
		st, ok := in.(*ssa.Store)
		if !ok {
			return
		}
		if b, isC := constBool(st.Val); isC && !b {
			for _, rl := range FactsOf(fn).At(st.Block()).Rels() {
				if rl.op == relNE && p.Render(rl.x) == "this.Array[i@this.Array].Value.Tag" && p.Render(rl.y) == "ValueNum" {
					flagOK = true
				}
			}
		}
	})
	c.check(flagOK, "R3", "sort-all-numbers-scan", p.Pos(fn.Pos()), "the flag is cleared exactly when an element's tag is not number", "the all-numbers flag is not cleared under `element.Tag != ValueNum`")
}

// indexResolution (C15/R4 = C09/R4)
func indexResolution(c *Ctx, rule string) {
	p := c.P
	c.note("%s index-resolution: the index is int(*member.Num); a negative index is replaced by len + index and rejected with an error if still negative; the read accessor returns `no member` for an index >= len without touching the array; the write accessor appends one fresh null cell per missing slot (after the limit test, C20/R2) and then stores into slot index.", rule)
	ri := p.LangFunc("(*Value).resolveIndex")
	if ri == nil {
		c.undecided(rule, "resolveIndex", "", "anchor (*Value).resolveIndex not found")
		return
	}
	// every way a value is returned, with the relations that hold on that way (a merged return is
	// taken apart edge by edge, so `if … { i += len }; return i` and two separate returns look alike)
	F := FactsOf(ri)
	ek := EKOf(p)
	type way struct {
		val string
		g   map[string]bool
	}
	var ways []way
	relsText := func(fs factSet) map[string]bool {
		g := map[string]bool{}
		for _, rl := range fs.Rels() {
			g[p.Render(rl.x)+" "+rl.op.String()+" "+p.Render(rl.y)] = true
		}
		return g
	}
	errOK := false
	const I, LI = "int(*member.Num)", "(int(*member.Num) + len(v.Array))"
	for _, r := range returnsOf(ri) {
		res := effectiveResults(r)
		if !ek.KindsAt(res[1], F.At(r.Block())).Has(KNil) {
			g := relsText(F.At(r.Block()))
			errOK = g[I+" < 0"] && g[LI+" < 0"]
			continue
		}
		if phi, ok := res[0].(*ssa.Phi); ok {
			for i, e := range phi.Edges {
				ways = append(ways, way{p.Render(e), relsText(F.OnEdge(phi.Block().Preds[i], phi.Block()))})
			}
		} else {
			ways = append(ways, way{p.Render(res[0]), relsText(F.At(r.Block()))})
		}
	}
	got := map[string]bool{}
	plainOK := len(ways) > 0
	for _, w := range ways {
		got[w.val] = true
		switch w.val {
		case I:
			if !w.g[I+" >= 0"] {
				plainOK = false
			}
		case LI:
			if !w.g[I+" < 0"] || !w.g[LI+" >= 0"] {
				plainOK = false
			}
		default:
			plainOK = false
		}
	}
	c.check(len(got) == 2 && got[I] && got[LI], rule, "resolve-result", p.Pos(ri.Pos()), "index or len+index", "index resolution returns "+keysOf(got)+"; expected int(*member.Num) or len(v.Array)+int(*member.Num)")
	c.check(errOK, rule, "resolve-before-start-is-error", p.Pos(ri.Pos()), "an index before the start is an error", "the `index out of range` error is not returned exactly under index < 0 && len+index < 0")
	c.check(plainOK, rule, "resolve-negative-from-end", p.Pos(ri.Pos()), "index >= 0 is used as is; index < 0 becomes len+index when that is >= 0", "the resolved index is not (index if index >= 0) / (len+index if index < 0 and len+index >= 0)")
	// read accessor: array arm
	gm := p.LangFunc("(*Value).GetMember")
	if gm == nil {
		c.undecided(rule, "GetMember", "", "anchor not found")
		return
	}
	readOK, pastEnd := false, false
	for _, rc := range p.successResults(gm) {
		g := setOf(rc.Guards)
		if rc.Value == "v.Array[(*lang.Value).resolveIndex(v, member)#0]" {
			readOK = g["(*lang.Value).resolveIndex(v, member)#0 < len(v.Array)"] && g["(*lang.Value).resolveIndex(v, member)#1 == nil"] && g["v.Tag == ValueArray"]
		}
		if rc.Value == "nil" && g["(*lang.Value).resolveIndex(v, member)#0 >= len(v.Array)"] {
			pastEnd = true
		}
	}
	c.check(readOK, rule, "read-in-range", p.Pos(gm.Pos()), "v.Array[index] is read only under index < len(v.Array) after a successful resolution", "the array read is not guarded by `resolved index < len(v.Array)` and a nil resolution error")
	c.check(pastEnd, rule, "read-past-end", p.Pos(gm.Pos()), "an index past the end reads as `no member`", "no `no member` result under index >= len(v.Array)")
	// write accessor
	sm := p.LangFunc("(*Value).SetMember")
	if sm == nil {
		c.undecided(rule, "SetMember", "", "anchor not found")
		return
	}
	effs := setOf(p.effects(sm))
	wantFill := "v.Array = append(v.Array, [&lang.Cell{Value: lang.NewValue(nil)}][:])"
	wantStore := "v.Array[(*lang.Value).resolveIndex(v, member)#0].Value = cell.Value"
	c.check(effs[wantFill], rule, "fill-fresh-null-cells", p.Pos(sm.Pos()), "the fill loop appends one freshly allocated null cell per iteration", "the array fill does not append a freshly allocated null cell per missing slot (effects: "+keysOf(effs)+"): slots would share a cell, so a later write to one slot shows up in the others")
	c.check(effs[wantStore], rule, "store-at-index", p.Pos(sm.Pos()), "the value is stored into slot index", "the array store is not `v.Array[index].Value = cell.Value` (effects: "+keysOf(effs)+")")
	// the fresh cell is allocated inside the fill loop (per iteration)
	perIter := false
	allInstrs(sm, func(in ssa.Instruction) {
		a, ok := in.(*ssa.Alloc)
		if !ok || !isLangNamed(a.Type(), "Cell") {
			return
		}
		// inside a loop: the block can reach itself
		if reachableFrom(a.Block().Succs, nil)[a.Block()] {
			perIter = true
		}
	})
	// NewCell may not be inlined in SSA (it is a call): look for the call inside a loop
	for _, call := range callsIn(sm) {
		if staticCalleeIs(call, "lang.NewCell") && reachableFrom(call.Block().Succs, nil)[call.Block()] {
			perIter = true
		}
	}
	c.check(perIter, rule, "fill-cell-per-iteration", p.Pos(sm.Pos()), "a new cell is created in every iteration of the fill loop", "the null cell appended by the fill loop is created outside the loop: all padded slots alias one cell")
	// loop bounds: from len(v.Array) while i <= index
	loopOK := false
	allInstrs(sm, func(in ssa.Instruction) {
		ifi, ok := in.(*ssa.If)
		if !ok {
			return
		}
		r := p.Render(ifi.Cond)
		if strings.Contains(r, "<= (*lang.Value).resolveIndex(v, member)#0") && reachableFrom([]*ssa.BasicBlock{ifi.Block().Succs[0]}, nil)[ifi.Block()] {
			loopOK = true
		}
	})
	c.check(loopOK, rule, "fill-loop-bound", p.Pos(sm.Pos()), "the fill loop runs while i <= index", "no fill loop of the form `for i := len; i <= index; i++` found")
}

// equalityAgreement: every place that decides "equal" by Compare(...) == 0 must first exclude unset
// operands, as the == operator does (an unset value is equal to nothing, not even to 0 or itself);
// otherwise contains / literal patterns disagree with ==.
func equalityAgreement(c *Ctx, rule string) {
	p := c.P
	c.note("%s equality-agreement: Compare coerces an unset value to 0, the == operator answers false for it. Every call of (*Value).Compare whose result is tested against 0 for equality (contains, literal match patterns, == itself) must be dominated by the facts `operand.Tag != ValueUnknown` for both operands; calls used for ordering only (sort) are exempt.", rule)
	cmpFn := p.LangFunc("(*Value).Compare")
	if cmpFn == nil {
		c.undecided(rule, "Compare", "", "anchor (*Value).Compare not found")
		return
	}
	unk := ""
	for v, n := range constNames(p.Lang.Types, "ValueTag") {
		if n == "ValueUnknown" {
			unk = fmt.Sprint(v)
		}
	}
	nEq, nOrd := 0, 0
	for _, cs := range p.CallSitesOf(cmpFn) {
		call, ok := cs.(*ssa.Call)
		fn := cs.Parent()
		if !ok || p.inTestFile(fn) {
			continue
		}
		isEq := false
		for _, r := range referrersOf(call) {
			ex, ok := r.(*ssa.Extract)
			if !ok || ex.Index != 0 {
				continue
			}
			for _, u := range referrersOf(ex) {
				if b, ok := u.(*ssa.BinOp); ok && (b.Op == token.EQL || b.Op == token.NEQ) {
					isEq = true
				}
			}
		}
		if !isEq {
			nOrd++
			continue
		}
		nEq++
		// facts: tag loads known to differ from ValueUnknown
		excluded := map[string]bool{}
		for _, rl := range FactsOf(fn).At(call.Block()).Rels() {
			if rl.op != relNE {
				continue
			}
			k, isC := rl.y.(*ssa.Const)
			if !isC || k.Value == nil || k.Value.ExactString() != unk {
				continue
			}
			if sf, ok := loadedField(rl.x); ok && sf.Name == "Tag" {
				excluded[p.RenderShort(sf.Base)] = true
			}
		}
		args := call.Call.Args
		var missing []string
		for _, a := range args[:2] {
			if !excluded[p.RenderShort(a)] {
				missing = append(missing, p.RenderShort(a))
			}
		}
		key := fmt.Sprintf("equality-by-Compare #%d in %s", nEq, shortName(fn))
		c.check(len(missing) == 0, rule, key, p.InstrPos(call), "both operands are known not to be unset", "Compare(...) == 0 is used as the equality verdict although {"+strings.Join(missing, ", ")+"} may be unset: Compare coerces unset to 0 where == answers false, so this site disagrees with the == operator (e.g. a.contains(0) / `match (u) { 0 => … }` for an unset element / subject)")
	}
	if eq := p.LangFunc("(*Value).Equals"); eq != nil {
		c.checkArm(rule, "Value.Equals", eq, armSpec{
			Results: []string{"false", "((*lang.Value).Compare(v, b)#0 == 0)"},
			Effects: []string{},
			Guards:  map[string][]string{"((*lang.Value).Compare(v, b)#0 == 0)": {"v.Tag != ValueUnknown", "b.Tag != ValueUnknown", "(*lang.Value).Compare(v, b)#1 == nil"}},
			Source:  "the == relation: false when either side is unset, else Compare == 0",
		})
	}
	c.Analysed["compare_equality_sites"] = nEq
	c.Analysed["compare_ordering_sites"] = nOrd
	if nEq < 1 {
		c.undecided(rule, "instance-floor", "", "no equality use of Compare found (== is known to use it)")
	}
}

// contains compares every element; the receiver of a call is evaluated before its arguments
func c15NestedCalls(c *Ctx) {
	p := c.P
	c.note("R8 every-element-compared / receiver-before-arguments: in contains, the loop over the elements cannot go on to the next element without having called Equals for the current one (no kind pre-filter: == coerces across kinds); in the call arm of evalExpr the callee expression — which yields the method bound to its receiver — is evaluated before the argument list, so an argument that changes the array through which the receiver is addressed (m[-1].push(m.pop())) cannot redirect the call.")
	for _, m := range nativeMethods(p) {
		if m.Proto != "array" || m.Name != "contains" || m.Fn == nil {
			continue
		}
		n := 0
		scope := m.Fn
		if h, _ := searchHelperOf(p, m.Fn); h != nil {
			scope = h
		}
		for _, call := range callsIn(scope) {
			if !staticCalleeIs(call, "(*lang.Value).Equals") {
				continue
			}
			for _, l := range rangeLoops(scope, func(v ssa.Value) bool {
				_, isParam := v.(*ssa.Parameter)
				return strings.HasSuffix(p.Render(v), ".Array") || (scope != m.Fn && isParam)
			}) {
				if !l.Body.Dominates(call.Block()) {
					continue
				}
				n++
				c.check(!canSkip(l.Body, call.Block(), l.Header), "R8", "every-element-compared", p.InstrPos(call), "Equals is called for every element until one matches", "the loop over the elements can move on without comparing the current element: contains no longer agrees with == applied to each element in order")
			}
		}
		if n == 0 {
			c.undecided("R8", "every-element-compared", p.Pos(m.Fn.Pos()), "no Equals call inside a loop over the receiver's elements")
		}
	}
	ee := p.LangFunc("(*Evaluator).evalExpr")
	if ee == nil {
		c.undecided("R8", "evalExpr", "", "anchor not found")
		return
	}
	var fnEval, argEval ssa.CallInstruction
	for _, call := range callsIn(ee) {
		switch {
		case staticCalleeIs(call, "(*lang.Evaluator).evalExpr") && argDesc(call) == "ExprCall.Func":
			fnEval = call
		case staticCalleeIs(call, "(*lang.Evaluator).evalExprList") && argDesc(call) == "ExprCall.Args":
			argEval = call
		}
	}
	if fnEval == nil || argEval == nil {
		c.undecided("R8", "receiver-before-arguments", p.Pos(ee.Pos()), "the evaluation of ExprCall.Func / ExprCall.Args was not found in evalExpr")
		return
	}
	c.check(dominatesInstr(fnEval, argEval), "R8", "receiver-before-arguments", p.InstrPos(argEval), "callee (and receiver) first, then the arguments", "the argument list of a call is evaluated before the callee expression: an argument that mutates the array through which the receiver is addressed makes the method act on another array")
}
